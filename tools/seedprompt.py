#!/usr/bin/env python3
"""seedprompt.py <property id> <worktree> [hint] — prompt for an independent seeding sub-agent (gets only the property text)."""
import json, sys
props = {json.loads(l)['id']: json.loads(l) for l in open('/verif/properties.jsonl')}
pid, wt = sys.argv[1], sys.argv[2]
hint = ("HINT ON WHERE TO AIM: " + sys.argv[3] + "\n") if len(sys.argv) > 3 else ""
p = props[pid]
print(f"""You are testing how robust a verification effort is against realistic regressions in tmpim/casket (a Go web server, fork of Caddy v1). You get ONE semantic property of casket and a scratch git worktree of the repository. Produce a change to casket's source that BREAKS the property while the code still compiles and the existing test suite still passes — the kind of plausible regression a maintainer could introduce by accident (a refactor, an "optimisation", an off-by-one, a reordered statement, a dropped guard), not sabotage that ordinary use would expose at once.

PROPERTY {pid} — {p['title']}
{p['statement']}
Quantified over: {p['quantifier']['text']}
Code it is anchored in: {', '.join(p['anchors']['files'])}

YOUR WORKTREE: {wt} (a git worktree of the repository; work ONLY there; do not read or write anything under /verif, and do not touch /repo itself).

REQUIREMENTS
1. The change must need something specific to manifest: a particular input shape, pool/size/state combination, interleaving, multi-step sequence, fault at a particular point, or two cooperating edit sites that each look fine alone. Ordinary smoke use must keep working.
2. It must compile and the existing tests of the touched packages must still pass, unedited:
   cd {wt} && export GOFLAGS=-mod=mod GOPROXY=off GOSUMDB=off GOTOOLCHAIN=local && go build ./... && go test -vet=off -count=1 ./<touched packages>/...
   (no network is available; the first build takes a minute or two)
3. Provide a demonstration: a NEW Go test file (e.g. {wt}/<pkg>/seeded_demo_test.go, in the package so it can reach internals) that FAILS with your change and PASSES without it. Verify both directions yourself (git diff > /tmp/p.diff; git checkout -- <src files>; run; git apply /tmp/p.diff; run).
4. Keep the change small (ideally < 30 changed lines) and plausible-looking.
{hint}
DELIVERABLES — write these files into {wt}/SEEDED/ (create the directory):
  patch.diff   : `git diff` of the source change only (NOT including the demo test or the SEEDED directory)
  demo_test.go : a copy of your demonstration test, with a first-line comment giving the path where it must be placed and the command to run it
  meta.json    : {{"property": "{pid}", "summary": "<what the change does>", "needs": "<what it needs in order to manifest>", "files": [..], "ran": ["<commands you ran and their outcome>"]}}
Leave the worktree with your source change applied and the demo test in place. Final message: a 5-line summary.""")
