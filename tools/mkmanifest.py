#!/usr/bin/env python3
"""Regenerate MANIFEST.json from checks.json + manifest_texts.json + properties.jsonl."""
import json, os
V = os.path.dirname(os.path.dirname(os.path.abspath(__file__)))
conf = {"checks": {fn[:-5]: json.load(open(os.path.join(V, 'checks', fn))) for fn in sorted(os.listdir(os.path.join(V, 'checks'))) if fn.endswith('.json')}}
props = [json.loads(l) for l in open(os.path.join(V, 'properties.jsonl'))]
texts = {k: v['manifest'] for k, v in conf['checks'].items()}
na = json.load(open(os.path.join(V, 'not_applicable.json'))) if os.path.exists(os.path.join(V, 'not_applicable.json')) else {}
claimed = sorted(conf['checks'])
man = {
 "version": 1,
 "setup_cmd": "./setup.sh",
 "hooks": {"guard": "verif",
           "enable": "go build -tags verif,<id> -overlay .build/overlay_<ID>.json : the export files live in /verif/harness/overlay and are added to /repo's packages by the build overlay; /repo itself carries no instrumentation",
           "baseline_off_cmd": "cd /repo && go test -vet=off -count=1 ./...", "source_commits": [], "add_only": True},
 "engines": [{"name": "lean-proof+correspondence", "path": "check", "serves_properties": claimed,
   "kind_free_text": "Lean 4 theorems about hand-written executable models (lean/Casket), facts regenerated from /repo on every run (harness/facts), Go correspondence harness (harness/streams) against the compiled Lean model driver and its property judge (lean/Driver)"}],
 "checks": [],
 "not_applicable": [],
 "notes": "Every check: regenerate facts from /repo, lake build the property's theorems, audit #print axioms, run the real code and the Lean model on the same cases, judge the implementation's answers with the Lean property predicate. See DESIGN.md."
}
for p in props:
    pid = p['id']
    if pid in conf['checks']:
        t = texts.get(pid, {})
        man['checks'].append({
          "property_id": pid,
          "quick_cmd": "./check %s --tier quick" % pid,
          "thorough_cmd": "./check %s --tier thorough" % pid,
          "evidence_file": "evidence/%s.json" % pid,
          "replay_cmd_template": "./check %s --replay {path}" % pid,
          "engine": "lean-proof+correspondence",
          "level_claimed": {"category": "proof", "text": t["text"], "design_ref": "DESIGN.md §5 " + pid},
          "level_note": t["note"],
          "technique": t["technique"]})
    else:
        man['not_applicable'].append({"property_id": pid, "reason": na.get(pid, "not yet built in this revision of /verif (planned: DESIGN.md §5 %s); no other technique substituted" % pid)})
json.dump(man, open(os.path.join(V, 'MANIFEST.json'), 'w'), indent=1)
print("claimed:", " ".join(claimed))
