#!/bin/sh
# sweep.sh "<seeds>" <tier> : run every claimed check for each seed on the unchanged tree; print only non-OK lines + a summary.
# Uses a private evidence dir so the committed evidence is not rewritten.
cd "$(dirname "$0")/.."
SEEDS="${1:-1 2 3}"; TIER="${2:-quick}"
[ -x .build/vharness-facts ] || ./setup.sh >/dev/null 2>&1 || { echo "setup failed"; exit 2; }
bad=0
for s in $SEEDS; do
  for c in $(ls checks | sed 's/\.json$//'); do
    out=$(VERIF_SEED=$s VERIF_EVIDENCE_DIR=/tmp/sweep_evidence_$$ ./check $c --tier $TIER 2>&1); rc=$?
    line=$(echo "$out" | grep -v '^KNOWN-FINDING' | tail -1)
    if [ $rc -ne 0 ]; then bad=$((bad+1)); echo "seed=$s $c EXIT $rc: $(echo "$out" | grep VIOLATION | head -2)"; cp -r replays /tmp/sweep_replays_$$_$s_$c 2>/dev/null; else echo "seed=$s $line"; fi
  done
done
rm -rf /tmp/sweep_evidence_$$
echo "sweep done: seeds=[$SEEDS] tier=$TIER failures=$bad"
