#!/usr/bin/env python3
"""keepseed.py <worktree name under /tmp/seed> <seeded id> — confirm a sub-agent's breaking change and keep it.

Confirms in the sub-agent's scratch worktree (never /repo):
  1. patch.diff applies to a clean checkout of the worktree's HEAD and `go build ./...` succeeds;
  2. the existing tests of the touched packages pass with the patch (demo test excluded);
  3. the demo test FAILS with the patch and PASSES without it.
Then copies patch.diff, the demo and meta.json (+ what was run) to /verif/seeded/<id>/ and removes the worktree and its branch.
"""
import json, os, re, shutil, subprocess, sys

name, sid = sys.argv[1], sys.argv[2]
wt = "/tmp/seed/" + name
env = dict(os.environ, GOFLAGS="-mod=mod", GOPROXY="off", GOSUMDB="off", GOTOOLCHAIN="local")


def sh(cmd, check=False):
    p = subprocess.run(cmd, shell=True, cwd=wt, env=env, stdout=subprocess.PIPE, stderr=subprocess.STDOUT)
    out = p.stdout.decode("utf-8", "replace")
    if check and p.returncode != 0:
        print(out[-3000:]); raise SystemExit("FAILED: " + cmd)
    return p.returncode, out


sd = os.path.join(wt, "SEEDED")
meta = json.load(open(os.path.join(sd, "meta.json")))
patch = open(os.path.join(sd, "patch.diff")).read()
files = re.findall(r"^\+\+\+ b/(\S+)", patch, flags=re.M)
pkgs = sorted(set("./" + os.path.dirname(f) for f in files if f.endswith(".go")))
demo_first = open(os.path.join(sd, "demo_test.go")).read().split("\n")[0]
# where the demo lives in the worktree
rc, out = sh("git status --porcelain")
demos = [l[3:] for l in out.split("\n") if l.startswith("??") and l.endswith("_test.go")]
if not demos:
    raise SystemExit("no untracked demo test in the worktree; first line of demo_test.go: " + demo_first)
demo = demos[0]
demopkg = "./" + os.path.dirname(demo)
tests = re.findall(r"^func (Test\w+)", open(os.path.join(wt, demo)).read(), flags=re.M)
runre = "^(" + "|".join(tests) + ")$"
ran = []
# clean source, keep demo
sh("git checkout -- .", check=True)
rc, out = sh("go test -vet=off -count=1 -run '%s' %s" % (runre, demopkg))
ran.append("without the patch: go test -run '%s' %s -> %s" % (runre, demopkg, "ok" if rc == 0 else "FAIL"))
if rc != 0:
    print(out[-2000:]); raise SystemExit("demo does not pass on the unchanged code")
sh("git apply SEEDED/patch.diff", check=True)
sh("go build ./...", check=True)
ran.append("with the patch: go build ./... -> ok")
rc, out = sh("go test -vet=off -count=1 -run '%s' %s" % (runre, demopkg))
ran.append("with the patch: go test -run '%s' %s -> %s" % (runre, demopkg, "ok" if rc == 0 else "FAIL"))
if rc == 0:
    raise SystemExit("demo does not fail with the patch")
allpk = sorted(set(pkgs + [demopkg]))
rc, out = sh("go test -vet=off -count=1 -skip '%s' %s" % (runre, " ".join(p + "/..." if p != "./" else "./" for p in allpk)))
ran.append("with the patch: existing tests of %s (demo skipped) -> %s" % (" ".join(allpk), "ok" if rc == 0 else "FAIL"))
if rc != 0:
    print(out[-3000:]); raise SystemExit("existing tests fail with the patch")
d = os.path.join("/verif/seeded", sid)
if os.path.exists(d):
    raise SystemExit("seed id already used: " + sid)
os.makedirs(d)
shutil.copy(os.path.join(sd, "patch.diff"), d)
shutil.copy(os.path.join(wt, demo), os.path.join(d, "demo_test.go"))
meta["demo_path"] = demo
meta["confirmed_by_integrator"] = ran
meta["origin"] = "independent sub-agent given only the property text and a scratch worktree"
json.dump(meta, open(os.path.join(d, "meta.json"), "w"), indent=1)
subprocess.run(["git", "-C", "/repo", "worktree", "remove", "--force", wt])
subprocess.run(["git", "-C", "/repo", "branch", "-D", "-q", "seed-" + name])
print("kept", d)
for r in ran:
    print("  ", r)
