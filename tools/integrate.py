#!/usr/bin/env python3
"""integrate.py <X> — bring slice branch slice-<X> into /verif main and its fix commits into /repo main.

 1. /repo: cherry-pick every commit of main..slice-<X> (oldest first) unless already an ancestor;
    records old->new short hashes.
 2. /verif: git merge slice-<X> (lean/Casket.lean import conflicts are resolved by union).
 3. rewrites the old hashes in known_findings.d/*.json, docs/*.md, checks/*.json, DESIGN-free text files of the slice.
 4. folds known_findings.d/*.json into known_findings.json (findings + fixed), removes the fragments.
Does not commit step 3/4 (review, then commit).
"""
import json, os, re, subprocess, sys

X = sys.argv[1]
POST = "--post" in sys.argv   # after a hand-resolved merge: only steps 3 and 4
V, R = "/verif", "/repo"


def sh(cmd, cwd=None, check=True):
    p = subprocess.run(cmd, cwd=cwd, stdout=subprocess.PIPE, stderr=subprocess.STDOUT)
    out = p.stdout.decode("utf-8", "replace")
    if check and p.returncode != 0:
        print(out)
        raise SystemExit("failed: " + " ".join(cmd))
    return p.returncode, out


GIT_ID = ["-c", "user.name=builder", "-c", "user.email=builder@example.invalid"]

# 1. repo
_, out = sh(["git", "-C", R, "log", "--reverse", "--format=%h %s", "main..slice-" + X])
mapping = {}
if POST:
    _, mainlog = sh(["git", "-C", R, "log", "--format=%h %s", "main"])
    bysubj = {l.split(" ", 1)[1]: l.split(" ", 1)[0] for l in mainlog.strip().split("\n")}
    for line in [l for l in out.strip().split("\n") if l]:
        h, subj = line.split(" ", 1)
        if subj in bysubj:
            mapping[h] = bysubj[subj]
    out = ""
for line in [l for l in out.strip().split("\n") if l]:
    h, subj = line.split(" ", 1)
    if not subj.startswith("fix:"):
        print("NOT a fix commit, skipped:", line)
        continue
    _, already = sh(["git", "-C", R, "log", "--format=%h", "--fixed-strings", "--grep", subj, "main"])
    if already.strip():
        mapping[h] = already.strip().split("\n")[0]
        continue   # cherry-picked by an earlier integration
    rc, o = sh(["git", "-C", R] + GIT_ID + ["cherry-pick", h], check=False)
    if rc != 0:
        print(o)
        raise SystemExit("cherry-pick of %s failed; resolve in /repo, then re-run" % h)
    _, nh = sh(["git", "-C", R, "log", "-1", "--format=%h"])
    mapping[h] = nh.strip()
    print("repo:", h, "->", nh.strip(), subj)

# 2. verif
rc, o = (0, "") if POST else sh(["git", "-C", V] + GIT_ID + ["merge", "--no-edit", "slice-" + X], check=False)
if rc != 0:
    _, st = sh(["git", "-C", V, "diff", "--name-only", "--diff-filter=U"])
    conflicted = [f for f in st.strip().split("\n") if f]
    for f in conflicted:
        if f == "lean/Casket.lean":
            txt = open(os.path.join(V, f)).read()
            lines = []
            for l in txt.split("\n"):
                if l.startswith(("<<<<<<<", "=======", ">>>>>>>")):
                    continue
                if l not in lines or not l.startswith("import"):
                    lines.append(l)
            imports = sorted(set(l for l in lines if l.startswith("import")))
            rest = [l for l in lines if not l.startswith("import")]
            open(os.path.join(V, f), "w").write("\n".join([l for l in rest if l.startswith("--")] + imports) + "\n")
            sh(["git", "-C", V, "add", f])
        elif f.startswith("evidence/"):
            sh(["git", "-C", V, "checkout", "--theirs", f]); sh(["git", "-C", V, "add", f])
        else:
            print(o)
            raise SystemExit("merge conflict in %s; resolve by hand" % f)
    sh(["git", "-C", V] + GIT_ID + ["commit", "--no-edit"])
print("verif: merged slice-" + X)

# 3. hashes
_, files = sh(["git", "-C", V, "diff", "--name-only", "HEAD~1", "HEAD"])
for f in files.strip().split("\n"):
    p = os.path.join(V, f)
    if not os.path.isfile(p) or not f.endswith((".json", ".md", ".lean", ".go")):
        continue
    t = open(p).read()
    t2 = t
    for old, new in mapping.items():
        if old != new:
            t2 = re.sub(r"\b%s\b" % old, new, t2)
    if t2 != t:
        open(p, "w").write(t2)
        print("rewrote hashes in", f)

# 4. fold fragments
kp = os.path.join(V, "known_findings.json")
k = json.load(open(kp))
d = os.path.join(V, "known_findings.d")
for fn in sorted(os.listdir(d)):
    if not fn.endswith(".json"):
        continue
    frag = json.load(open(os.path.join(d, fn)))
    for e in frag.get("findings", []):
        if e not in k["findings"]:
            k["findings"].append(e)
    for e in frag.get("fixed", []):
        if e not in k["fixed"]:
            k["fixed"].append(e)
    os.remove(os.path.join(d, fn))
json.dump(k, open(kp, "w"), indent=1)
print("folded fragments; findings=%d fixed=%d" % (len(k["findings"]), len(k["fixed"])))
print("hash map:", mapping)
