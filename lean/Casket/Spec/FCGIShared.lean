import Casket.Model.FCGIShared
import Casket.Spec.FCGI
/-
C13 with several requests in flight: the property is per request — "the client receives exactly
the responder's status, headers and body", "a responder receives exactly the request" — so with
several requests in flight every client must receive exactly what ITS responder sent and every
responder exactly what ITS client was asked to send.  The verdicts below are the single-request
verdicts of Spec/FCGI.lean applied client by client; the first failing client is reported.
-/
namespace Casket.FCGISpec
open Casket.Fault Casket.FCGI

/-- the demultiplexing reader of one client, read to its end: exactly its responder's stdout,
exactly its stderr in the error log, a clean end -/
def endingVerdict (out err : Bytes) (e : Ending) : String :=
  if e.out ≠ out then "bad:body:the client does not receive exactly the responder's stdout"
  else if e.stderr ≠ err then "bad:stderr:the error log does not hold exactly the responder's stderr"
  else if e.fin ≠ some .eof then "bad:end:the response does not end cleanly"
  else "ok"

/-- the first client whose own verdict is not ok, as a cross-talk verdict -/
def firstBad (what : String) : Nat → List String → String
  | _, [] => "ok"
  | i, v :: rest =>
    if v == "ok" then firstBad what (i + 1) rest
    else s!"bad:cross-talk:with other requests in flight, {what} {i} did not receive exactly what was sent to it ({v})"

/-- c13.overlap, level r -/
def overlapVerdict (intended : List (Bytes × Bytes)) (observed : List Ending) : String :=
  if intended.length ≠ observed.length then "bad:cross-talk:not one answer per client"
  else firstBad "client" 0 ((intended.zip observed).map fun (io, e) => endingVerdict io.1 io.2 e)

/-- c13.overlap, level q -/
def overlapViewVerdict (intended : List (Bytes × Bytes)) (observed : List ViewResult) : String :=
  if intended.length ≠ observed.length then "bad:cross-talk:not one answer per client"
  else firstBad "client" 0 ((intended.zip observed).map fun (io, v) => respVerdict io.1 io.2 v)

/-- one request as `Do` is asked to send it -/
structure Asked where
  id    : Nat
  pairs : List Pair
  body  : Bytes
deriving Repr, DecidableEq

/-- c13.woverlap: what each connection received, decoded by the reference responder -/
def overlapWireVerdict (asked : List Asked) (wires : List Bytes) : String :=
  if asked.length ≠ wires.length then "bad:cross-talk:not one answer per client"
  else firstBad "responder" 0 ((asked.zip wires).map fun (q, w) => wireVerdict q.id q.pairs q.body w)

end Casket.FCGISpec
