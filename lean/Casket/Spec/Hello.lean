import Casket.Model.Hello
/-
C19, "what is recorded about a ClientHello": a reference reading of a ClientHello handshake
message, written from RFC 5246 §7.4.1.2 / RFC 4492 §5.1 as a sequence of field readers —
independently of the model of `parseRawClientHello` (which mirrors the Go code's index
arithmetic).  `specRead` is what must be recorded for any bytes: the fields up to the first one
that is not well-formed.  `encode` is the RFC layout the other way round; Props/C19 proves that
the model of the Go parser computes `specRead` for every byte string and that `specRead (encode m)`
is what the message `m` says.
-/
namespace Casket.HelloSpec
open Casket.Fault Casket.Hello

/-! ### reading -/

def rdU8 : Bytes → Option (Nat × Bytes)
  | b :: r => some (b.toNat, r)
  | [] => none

def rdU16 : Bytes → Option (Nat × Bytes)
  | a :: b :: r => some (a.toNat * 256 + b.toNat, r)
  | _ => none

/-- exactly `n` bytes -/
def rdN (n : Nat) (s : Bytes) : Option (Bytes × Bytes) :=
  if s.length < n then none else some (s.take n, s.drop n)

/-- a vector of 16-bit values filling the bytes exactly -/
def u16s : Bytes → Option (List Nat)
  | [] => some []
  | [_] => none
  | a :: b :: r =>
    match u16s r with
    | some l => some ((a.toNat * 256 + b.toNat) :: l)
    | none => none

/-- body of one extension: elliptic_curves (10) and ec_point_formats (11) are read, others
skipped; `none` = the body is not well-formed -/
def rdExtBody (t : Nat) (body : Bytes) (i : Info) : Option Info :=
  if t = 10 then
    match rdU16 body with
    | none => none
    | some (ll, b) =>
      if ll ≠ b.length then none else
      match u16s b with
      | none => none
      | some cs => some { i with curves := cs }
  else if t = 11 then
    match rdU8 body with
    | none => none
    | some (n, b) => if n ≠ b.length then none else some { i with points := b }
  else some i

/-- The extensions, one after the other.  Reading stops — keeping what has been read — at the
first extension whose header or announced body does not fit, and after recording the type of an
extension whose body is not well-formed ("an incomplete info struct", as mitm.go puts it). -/
def rdExts : Nat → Bytes → Info → Info
  | 0, _, i => i
  | f + 1, s, i =>
    if s.isEmpty then i else
    match rdU16 s with
    | none => i
    | some (t, s1) =>
      match rdU16 s1 with
      | none => i
      | some (l, s2) =>
        match rdN l s2 with
        | none => i
        | some (body, s3) =>
          let i' := { i with extensions := i.extensions ++ [t] }
          match rdExtBody t body i' with
          | none => i'
          | some i'' => rdExts f s3 i''

/-- after the compression methods: nothing, or the extensions block filling the rest exactly -/
def rdTail (r : Bytes) (i : Info) : Info :=
  match rdU16 r with
  | none => i
  | some (el, r') => if el ≠ r'.length then i else rdExts (r'.length + 1) r' i

/-- compression methods, then the tail -/
def rdCompression (r : Bytes) (i : Info) : Info :=
  match rdU8 r with
  | none => i
  | some (ml, r1) =>
    match rdN ml r1 with
    | none => i
    | some (cm, r2) => rdTail r2 { i with compression := cm }

/-- cipher suites (an even number of bytes), then the rest -/
def rdCiphers (r : Bytes) (i : Info) : Info :=
  match rdU16 r with
  | none => i
  | some (cl, r1) =>
    match rdN cl r1 with
    | none => i
    | some (csb, r2) =>
      match u16s csb with
      | none => i
      | some cs => rdCompression r2 { i with ciphers := cs }

/-- version, random, session id (at most 32 bytes), then the rest -/
def rdBody (r : Bytes) : Info :=
  match rdU16 r with
  | none => {}
  | some (ver, r1) =>
    match rdN 32 r1 with
    | none => { version := ver }
    | some (_, r2) =>
      match rdU8 r2 with
      | none => { version := ver }
      | some (sl, r3) =>
        if sl > 32 then { version := ver } else
        match rdN sl r3 with
        | none => { version := ver }
        | some (_, r4) => rdCiphers r4 { version := ver }

/-- WHAT MUST BE RECORDED about the handshake message `d`: nothing for a message shorter than the
shortest ClientHello (42 bytes); otherwise the fields read one after the other behind the 4-byte
handshake header (which is not looked at), up to the first one that is not well-formed. -/
def specRead (d : Bytes) : Info :=
  if d.length < 42 then {} else rdBody (d.drop 4)

/-- "skew what is recorded": the recorded info must be the reference reading of the bytes the
client sent, whatever they are. -/
def skewVerdict (hello : Bytes) (recorded : Option Info) : String :=
  if recorded = some (specRead hello) then "ok"
  else "bad:skew:what is recorded about the ClientHello is not what its bytes say"

/-- the handshake message inside the first TLS record of a connection's byte stream, once the
record is complete (5-byte header, 16-bit length) -/
def recordHello (stream : Bytes) : Option Bytes :=
  match stream with
  | _ :: _ :: _ :: a :: b :: rest =>
    let n := a.toNat * 256 + b.toNat
    if rest.length < n then none else some (rest.take n)
  | _ => none

/-- the same for what a connection records: nothing before the first record is complete, then the
reference reading of the message in it -/
def recordedVerdict (stream : Bytes) (recorded : Option Info) : String :=
  match recordHello stream with
  | none =>
    if recorded = none then "ok"
    else "bad:skew:something is recorded although the first record is not complete"
  | some hello => skewVerdict hello recorded

/-! ### several connections at one listener

What is recorded for a connection is the reading of THAT connection's bytes: it must not depend on
what other peers sent on other connections — earlier ones, aborted ones, or ones that are open at
the same time. -/

/-- where connection `i` is in its life while the steps go by -/
inductive Phase where
  | fresh | opened | closed
deriving Repr, DecidableEq

/-- the deliveries connection `i` made between its (first) accept and its close -/
def deliveries (i : Nat) : Phase → List Step → List Bytes
  | _, [] => []
  | .fresh, .accept j _ :: ss => if j = i then deliveries i .opened ss else deliveries i .fresh ss
  | .opened, .read j seg :: ss =>
    if j = i then seg :: deliveries i .opened ss else deliveries i .opened ss
  | .opened, .close j :: ss => if j = i then deliveries i .closed ss else deliveries i .opened ss
  | ph, _ :: ss => deliveries i ph ss

def accepted (i : Nat) (steps : List Step) : Bool :=
  steps.any fun s => match s with
    | .accept j _ => j == i
    | _ => false

/-- WHAT MUST BE RECORDED for connection `i` after the steps: nothing if it was never accepted or
its first record is not complete, else the reference reading of the message in its own first record -/
def connReading (i : Nat) (steps : List Step) : Option Info :=
  if accepted i steps then (recordHello (deliveries i .fresh steps).flatten).map specRead else none

/-- the entries of connections `0 … recs.length-1`, judged one by one -/
def connsVerdictFrom (steps : List Step) : Nat → List (Option Info) → String
  | _, [] => "ok"
  | i, r :: rs =>
    if r = connReading i steps then connsVerdictFrom steps (i + 1) rs
    else s!"bad:skew-across-connections:what is recorded for connection {i} is not the reading of the bytes that connection delivered"

def connsVerdict (steps : List Step) (recs : List (Option Info)) : String :=
  connsVerdictFrom steps 0 recs

/-! ### writing (RFC layout) -/

def b8 (n : Nat) : UInt8 := UInt8.ofNat (n % 256)
def u16b (n : Nat) : Bytes := [b8 (n / 256), b8 n]

inductive Ext where
  | curves (cs : List Nat)
  | points (ps : Bytes)
  | other (typ : Nat) (body : Bytes)
deriving Repr, DecidableEq

structure HelloMsg where
  version     : Nat
  random      : Bytes
  sid         : Bytes
  ciphers     : List Nat
  compression : Bytes
  exts        : Option (List Ext)
deriving Repr, DecidableEq

def encExt : Ext → Bytes
  | .curves cs => u16b 10 ++ (u16b (2 * cs.length + 2) ++ (u16b (2 * cs.length) ++ cs.flatMap u16b))
  | .points ps => u16b 11 ++ (u16b (ps.length + 1) ++ (b8 ps.length :: ps))
  | .other t body => u16b t ++ (u16b body.length ++ body)

def encExts (es : List Ext) : Bytes := es.flatMap encExt

def encTail : Option (List Ext) → Bytes
  | none => []
  | some es => u16b (encExts es).length ++ encExts es

def encBody (m : HelloMsg) : Bytes :=
  u16b m.version ++ (m.random ++ (b8 m.sid.length :: (m.sid ++
    (u16b (2 * m.ciphers.length) ++ (m.ciphers.flatMap u16b ++
      (b8 m.compression.length :: (m.compression ++ encTail m.exts)))))))

def encode (m : HelloMsg) : Bytes :=
  let body := encBody m
  1 :: b8 (body.length / 65536) :: b8 (body.length / 256) :: b8 body.length :: body

def extType : Ext → Nat
  | .curves _ => 10
  | .points _ => 11
  | .other t _ => t

def applyExt (i : Info) : Ext → Info
  | .curves cs => { i with extensions := i.extensions ++ [10], curves := cs }
  | .points ps => { i with extensions := i.extensions ++ [11], points := ps }
  | .other t _ => { i with extensions := i.extensions ++ [t] }

/-- what the message says -/
def infoOf (m : HelloMsg) : Info :=
  ((m.exts.getD []).foldl applyExt
    { version := m.version, ciphers := m.ciphers, compression := m.compression })

def ExtWF : Ext → Prop
  | .curves cs => (∀ c ∈ cs, c < 65536) ∧ 2 * cs.length + 2 < 65536
  | .points ps => ps.length < 256
  | .other t body => t < 65536 ∧ t ≠ 10 ∧ t ≠ 11 ∧ body.length < 65536

structure WF (m : HelloMsg) : Prop where
  version : m.version < 65536
  random : m.random.length = 32
  sid : m.sid.length ≤ 32
  ciphers : ∀ c ∈ m.ciphers, c < 65536
  nciphers : 2 * m.ciphers.length < 65536
  compression : m.compression.length < 256
  exts : ∀ es, m.exts = some es → (∀ e ∈ es, ExtWF e) ∧ (encExts es).length < 65536
  total : (encBody m).length < 16777216

end Casket.HelloSpec
