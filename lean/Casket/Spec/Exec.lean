import Casket.Model.Exec
/-
C09 as executable predicates.

`StablePerm ls ls'`: `ls'` is a reordering of the directive lines `ls` that keeps lines of the same
directive in their relative order — for every directive the subsequence of its lines is the same.

Observed for a block and a reordering of it:
  * the token groups the real parser built for both              (`groupVerdict`)
  * the handler chain the real loader compiled for both, from the outside in, and whether every
    request of the battery got byte-identical responses from both (`verdict`)
The property: groups equal; chains equal and in the order of the directive list; responses equal.
-/
namespace Casket.ExecSpec
open Casket.Exec

/-- same lines of every directive, in the same relative order -/
def StablePerm (ls ls' : List Line) : Prop :=
  ∀ d : Dir, ls.filter (fun l => l.dir == d) = ls'.filter (fun l => l.dir == d)

/-- block by block: same keys, lines reordered stably -/
inductive BlocksPerm : List Block → List Block → Prop where
  | nil : BlocksPerm [] []
  | cons {b b' : Block} {bs bs' : List Block} (hk : b.keys = b'.keys) (hp : StablePerm b.lines b'.lines)
      (rest : BlocksPerm bs bs') : BlocksPerm (b :: bs) (b' :: bs')

/-- executable form (it is enough to look at the directives that occur) -/
def stablePerm (ls ls' : List Line) : Bool :=
  (ls ++ ls').all fun l0 => ls.filter (fun l => l.dir == l0.dir) == ls'.filter (fun l => l.dir == l0.dir)

/-- in the order of the directive list: a subsequence of it (with a duplicate-free list this
means strictly increasing positions) -/
def canonical (D : List Dir) (chain : List Dir) : Bool := chain.isSublist D

/-- token groups as observed: directive → token texts, for the directives that occur -/
abbrev Groups := List (Dir × List String)

def groupsEqual (dirs : List Dir) (g g' : Groups) : Bool :=
  dirs.all fun d => tokensOf g d == tokensOf g' d

def groupVerdict (dirs : List Dir) (g g' : Groups) : String :=
  if groupsEqual dirs g g' && groupsEqual (g.map (·.1) ++ g'.map (·.1)) g g' then
    if (tokensOf g "!parse-error").isSome && !dirs.contains "!parse-error" then
      "bad:parse-error:neither the block nor its reordering parses"
    else "ok"
  else "bad:groups-differ:reordering the lines changed the tokens a directive receives (or whether the block parses)"

def verdict (D : List Dir) (chain chain' : List Dir) (responsesEqual : Bool) : String :=
  if chain ≠ chain' then "bad:chain-differs:reordering the lines changed the handler nesting (or whether the block loads)"
  else if !canonical D chain then
    if chain = ["!start-error"] then "bad:start-error:neither the block nor its reordering loads"
    else "bad:not-list-order:handler nesting does not follow the directive list"
  else if !responsesEqual then "bad:responses-differ:some request is answered differently after reordering"
  else "ok"

/-! ### the documented order as classes of directives

Every directive of the standard distribution (in the directive list AND with a registered plugin)
belongs to exactly one class; the property text's order is a relation between classes. -/

structure DirClass where
  name : String
  members : List Dir
deriving Repr, DecidableEq

/-- site/server settings: their setup adds no request handler, order among handlers is moot -/
def clsSetup : DirClass := ⟨"setup", ["root", "index", "bind", "timeouts", "tls", "on"]⟩
/-- per-request preparation that everything else (the access log included) may rely on -/
def clsPrelude : DirClass := ⟨"prelude", ["limits", "request_id"]⟩
def clsLogging : DirClass := ⟨"logging", ["log"]⟩
/-- request rewriting -/
def clsRewriters : DirClass := ⟨"rewriters", ["tryfiles", "rewrite", "ext"]⟩
/-- compression, response headers, error pages -/
def clsWrappers : DirClass := ⟨"wrappers", ["gzip", "header", "errors"]⟩
/-- authentication, redirects, fixed statuses, internal-only paths -/
def clsAccess : DirClass := ⟨"access", ["basicauth", "redir", "status", "internal"]⟩
/-- response metadata chosen from the request path -/
def clsDecorators : DirClass := ⟨"decorators", ["mime"]⟩
/-- content handlers -/
def clsContent : DirClass :=
  ⟨"content", ["pprof", "expvar", "push", "templates", "proxy", "fastcgi", "websocket", "markdown", "browse"]⟩

def classes : List DirClass :=
  [clsSetup, clsPrelude, clsLogging, clsRewriters, clsWrappers, clsAccess, clsDecorators, clsContent]

/-- the documented relation: every member of the first class acts before / around every member
of the second.  (request rewriting before authentication; authentication, redirects and internal
before every content handler; logging, compression, response headers and error pages around all
content handlers — and around the access controls, whose answers they must log, compress, decorate
and turn into error pages; the access log around everything that handles the request.) -/
def documentedOrder : List (DirClass × DirClass) := [
  (clsRewriters, clsAccess),
  (clsAccess, clsContent),
  (clsWrappers, clsContent),
  (clsWrappers, clsAccess),
  (clsLogging, clsRewriters), (clsLogging, clsWrappers), (clsLogging, clsAccess),
  (clsLogging, clsDecorators), (clsLogging, clsContent),
  (clsPrelude, clsLogging),
  (clsDecorators, clsContent),
  -- site settings (root, … and the parsing callbacks that follow root and tls) are complete before
  -- any request-handling directive is set up
  (clsSetup, clsLogging), (clsSetup, clsRewriters), (clsSetup, clsWrappers), (clsSetup, clsAccess),
  (clsSetup, clsDecorators), (clsSetup, clsContent)
]

/-! ### documented pair orders, probed on the running server (stream `c09.pairs`)

Each scenario is a block with one line of an `outer` and one line of an `inner` directive and one
request; what the client sees depends only on which of the two handlers wraps the other. -/

structure Scenario where
  name  : String
  outer : Dir
  inner : Dir
  /-- observation when `outer` wraps `inner` (the documented nesting) -/
  documented : String
  /-- observation when `inner` wraps `outer` -/
  inverted : String
deriving Repr, DecidableEq

def scenarios : List Scenario := [
  -- rewriters before access
  ⟨"rewrite-before-basicauth", "rewrite", "basicauth", "401", "200"⟩,
  ⟨"ext-before-basicauth", "ext", "basicauth", "401", "200"⟩,
  ⟨"tryfiles-before-basicauth", "tryfiles", "basicauth", "401", "200"⟩,
  ⟨"rewrite-before-internal", "rewrite", "internal", "404", "200"⟩,
  -- access before content
  ⟨"basicauth-before-proxy", "basicauth", "proxy", "401", "200"⟩,
  ⟨"redir-before-browse", "redir", "browse", "302", "200"⟩,
  ⟨"redir-before-proxy", "redir", "proxy", "302", "200"⟩,
  ⟨"status-before-browse", "status", "browse", "418", "200"⟩,
  ⟨"internal-before-browse", "internal", "browse", "404", "200"⟩,
  ⟨"basicauth-before-markdown", "basicauth", "markdown", "401", "200"⟩,
  -- wrappers around content / access
  ⟨"header-around-proxy", "header", "proxy", "1", "0"⟩,
  ⟨"errors-around-status", "errors", "status", "1", "0"⟩,
  ⟨"errors-around-fastcgi", "errors", "fastcgi", "1", "0"⟩,
  ⟨"gzip-around-proxy", "gzip", "proxy", "1", "0"⟩,
  -- the access log around everything
  ⟨"log-around-proxy", "log", "proxy", "1", "0"⟩,
  ⟨"log-around-rewrite", "log", "rewrite", "1", "0"⟩,
  ⟨"log-around-basicauth", "log", "basicauth", "1", "0"⟩,
  ⟨"log-around-redir", "log", "redir", "1", "0"⟩,
  ⟨"log-around-errors", "log", "errors", "1", "0"⟩,
  ⟨"log-around-gzip", "log", "gzip", "1", "0"⟩,
  ⟨"log-around-browse", "log", "browse", "1", "0"⟩,
  -- the parsing callback after `root` (hideCasketfile) has run before a later directive is set up:
  -- `browse` copies the hidden-file list at setup, so its listing hides the Casketfile only then
  ⟨"rootcallback-before-browse", "root", "browse", "1", "0"⟩
]

/-- what the model predicts for a directive list `D`: decided by the two positions alone -/
def pairPrediction (D : List Dir) (s : Scenario) : String :=
  if idx D s.outer < idx D s.inner then s.documented else s.inverted

def pairVerdict (s : Scenario) (observed : String) : String :=
  if observed = s.documented then "ok"
  else "bad:documented-order:" ++ s.outer ++ " does not act before/around " ++ s.inner

/-! ### setups and parsing callbacks, observed through a probe server type (stream `c09.callbacks`) -/

/-- the schedule as observed: `s:<dir>` per setup call, `c:<dir>` per callback; it must be sorted
by `rank` and contain exactly the registered callbacks of the directive list -/
def adjSorted (D : List Dir) : List Event → Bool
  | [] => true
  | [_] => true
  | a :: b :: rest => decide (rank D a ≤ rank D b) && adjSorted D (b :: rest)

def cbCount (evs : List Event) (d : Dir) : Nat := (evs.filter fun e => e == Event.cb d).length

def scheduleOk (D : List Dir) (cbs : Dir → Bool) (evs : List Event) : Bool :=
  adjSorted D evs && D.all fun d => cbCount evs d == (if cbs d then 1 else 0)

def scheduleVerdict (D : List Dir) (cbs : Dir → Bool) (evs evs' : List Event) : String :=
  if evs ≠ evs' then "bad:schedule-differs:reordering the lines changed the sequence of setups and parsing callbacks"
  else if !scheduleOk D cbs evs then
    "bad:callback-position:a parsing callback did not run right after its directive's setups and before every later directive"
  else "ok"

/-! ### the documented order after a history of loads (stream `c09.history`)

A process first loads Casketfiles that are rejected for a misspelt directive, then a valid
two-directive site of `scenarios`.  Observed: which of the earlier loads were rejected (`r`/`a`,
informational), the probe's observation on the site loaded last, and `ValidDirectives("http")`
afterwards.  The property: the order in which directives act is FIXED — the probe shows the
documented nesting and the list is still the documented one, whatever was loaded before. -/

def historyFlags (rs : List LoadResult) : String :=
  String.join (rs.map fun r => match r with | .rejected _ => "r" | .loaded _ => "a")

/-- the judge: `obs` the probe's observation on the site loaded last, `after` the directive list
the process reports afterwards, `D0` the documented list -/
def historyVerdict (D0 : List Dir) (s : Scenario) (obs : String) (after : List Dir) : String :=
  if obs ≠ s.documented then
    "bad:documented-order-after-history:" ++ s.outer ++ " does not act before/around " ++ s.inner ++
      " in a site loaded after rejected Casketfiles"
  else if after ≠ D0 then
    "bad:list-changed-by-history:ValidDirectives(\"http\") is no longer the documented list after rejected Casketfiles"
  else "ok"

end Casket.ExecSpec
