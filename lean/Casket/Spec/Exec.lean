import Casket.Model.Exec
/-
C09 as executable predicates.

`StablePerm ls ls'`: `ls'` is a reordering of the directive lines `ls` that keeps lines of the same
directive in their relative order — for every directive the subsequence of its lines is the same.

Observed for a block and a reordering of it:
  * the token groups the real parser built for both              (`groupVerdict`)
  * the handler chain the real loader compiled for both, from the outside in, and whether every
    request of the battery got byte-identical responses from both (`verdict`)
The property: groups equal; chains equal and in the order of the directive list; responses equal.
-/
namespace Casket.ExecSpec
open Casket.Exec

/-- same lines of every directive, in the same relative order -/
def StablePerm (ls ls' : List Line) : Prop :=
  ∀ d : Dir, ls.filter (fun l => l.dir == d) = ls'.filter (fun l => l.dir == d)

/-- block by block: same keys, lines reordered stably -/
inductive BlocksPerm : List Block → List Block → Prop where
  | nil : BlocksPerm [] []
  | cons {b b' : Block} {bs bs' : List Block} (hk : b.keys = b'.keys) (hp : StablePerm b.lines b'.lines)
      (rest : BlocksPerm bs bs') : BlocksPerm (b :: bs) (b' :: bs')

/-- executable form (it is enough to look at the directives that occur) -/
def stablePerm (ls ls' : List Line) : Bool :=
  (ls ++ ls').all fun l0 => ls.filter (fun l => l.dir == l0.dir) == ls'.filter (fun l => l.dir == l0.dir)

/-- in the order of the directive list: a subsequence of it (with a duplicate-free list this
means strictly increasing positions) -/
def canonical (D : List Dir) (chain : List Dir) : Bool := chain.isSublist D

/-- token groups as observed: directive → token texts, for the directives that occur -/
abbrev Groups := List (Dir × List String)

def groupsEqual (dirs : List Dir) (g g' : Groups) : Bool :=
  dirs.all fun d => tokensOf g d == tokensOf g' d

def groupVerdict (dirs : List Dir) (g g' : Groups) : String :=
  if groupsEqual dirs g g' && groupsEqual (g.map (·.1) ++ g'.map (·.1)) g g' then
    if (tokensOf g "!parse-error").isSome && !dirs.contains "!parse-error" then
      "bad:parse-error:neither the block nor its reordering parses"
    else "ok"
  else "bad:groups-differ:reordering the lines changed the tokens a directive receives (or whether the block parses)"

def verdict (D : List Dir) (chain chain' : List Dir) (responsesEqual : Bool) : String :=
  if chain ≠ chain' then "bad:chain-differs:reordering the lines changed the handler nesting (or whether the block loads)"
  else if !canonical D chain then
    if chain = ["!start-error"] then "bad:start-error:neither the block nor its reordering loads"
    else "bad:not-list-order:handler nesting does not follow the directive list"
  else if !responsesEqual then "bad:responses-differ:some request is answered differently after reordering"
  else "ok"

/-! ### documented pair orders, probed on the running server (stream `c09.pairs`)

Each scenario is a block with one line of an `outer` and one line of an `inner` directive and one
request; what the client sees depends only on which of the two handlers wraps the other. -/

structure Scenario where
  name  : String
  outer : Dir
  inner : Dir
  /-- observation when `outer` wraps `inner` (the documented nesting) -/
  documented : String
  /-- observation when `inner` wraps `outer` -/
  inverted : String
deriving Repr, DecidableEq

def scenarios : List Scenario := [
  ⟨"rewrite-before-basicauth", "rewrite", "basicauth", "401", "200"⟩,
  ⟨"basicauth-before-proxy", "basicauth", "proxy", "401", "200"⟩,
  ⟨"redir-before-browse", "redir", "browse", "302", "200"⟩,
  ⟨"internal-before-browse", "internal", "browse", "404", "200"⟩,
  ⟨"basicauth-before-markdown", "basicauth", "markdown", "401", "200"⟩,
  ⟨"header-around-proxy", "header", "proxy", "1", "0"⟩,
  ⟨"errors-around-status", "errors", "status", "1", "0"⟩,
  ⟨"log-around-proxy", "log", "proxy", "1", "0"⟩,
  ⟨"gzip-around-proxy", "gzip", "proxy", "1", "0"⟩
]

/-- what the model predicts for a directive list `D`: decided by the two positions alone -/
def pairPrediction (D : List Dir) (s : Scenario) : String :=
  if idx D s.outer < idx D s.inner then s.documented else s.inverted

def pairVerdict (s : Scenario) (observed : String) : String :=
  if observed = s.documented then "ok"
  else "bad:documented-order:" ++ s.outer ++ " does not act before/around " ++ s.inner

end Casket.ExecSpec
