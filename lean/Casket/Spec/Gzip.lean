import Casket.Model.Gzip
/-
The C18 property as an executable relation between TWO observed executions of the same
request against the same inner handler: `g` with the gzip middleware in the chain, `p` without
it ("the body produced without compression").

  * same status;
  * either nothing changed (same Content-Encoding, same bytes, same Content-Length state), or
    exactly one gzip layer was added: Content-Encoding became "gzip", the body is gzip(p's body)
    (so decoding it yields the identity body), Content-Length is absent or correct;
  * a layer is added only if the response carried no content coding (not encoded again) and
    only if the client offered gzip.
For static files the uncompressed execution must moreover decode to the file's content.
-/
namespace Casket.GzipSpec
open Casket.Gzip
open Casket.Limits (Bytes)

inductive CLState where
  | absent | ok | wrong
deriving Repr, DecidableEq

/-- an observed response -/
structure Obs where
  status : Nat
  ce     : Bytes
  cl     : CLState
  varyAE : Bool
  etag   : ETag
  body   : Term
deriving Repr, DecidableEq

/-- the client offered gzip: an Accept-Encoding element names a gzip coding (gzip, x-gzip)
without a zero quality value -/
def offersGzip (ae : Bytes) : Bool := acceptsGzip ae

/-- the response carries no content coding yet -/
def unencoded (ce : Bytes) : Bool := ce = [] || ce = identityB

def verdict (ae : Bytes) (g p : Obs) : String :=
  if g.status != p.status then "bad:status:the status differs from the uncompressed execution"
  else if g.ce = p.ce then
    if g.body != p.body then "bad:decoded-differs:body changed although Content-Encoding did not"
    else if g.cl != p.cl then "bad:content-length:Content-Length state differs although nothing was encoded"
    else "ok"
  else if !unencoded p.ce then "bad:double-encoding:an already encoded response was encoded again or its Content-Encoding rewritten"
  else if g.ce != Coding.gzip.name then "bad:ce-mismatch:Content-Encoding does not name the coding applied"
  else if g.body != Term.layer .gzip p.body then "bad:decoded-differs:decoding the response does not give the identity body"
  else if !offersGzip ae then "bad:not-offered:gzip applied although the client did not offer it"
  else if g.cl == .wrong then "bad:content-length:Content-Length of a compressed response is wrong"
  else "ok"

/-- decode a static response according to its Content-Encoding (one coding or none) -/
def decodeOne (o : Obs) : Option Term :=
  if unencoded o.ce then some o.body
  else match o.body with
    | .layer c t => if c.name = o.ce then some t else none
    | _ => none

/-- the client offers coding `c`: an Accept-Encoding element names it (token before any
parameters, surrounding blanks ignored) without a zero quality value -/
def offersCoding (ae : Bytes) (c : Coding) : Bool :=
  (splitOn 44 ae).any fun elem =>
    match splitOn 59 elem with
    | [] => false
    | tok :: params => trimSpace tok = c.name && !(params.any isZeroQ)

/-- the coding a static response declares is one the client offered -/
def siblingOffered (ae : Bytes) (ce : Bytes) : Bool :=
  unencoded ce || [Coding.zstd, Coding.br, Coding.gzip].any (fun c => c.name = ce && offersCoding ae c)

/-- static files: additionally, the uncompressed execution decodes to the file content, declares
a correct length, and is coded only in a coding the client listed -/
def staticVerdict (ae : Bytes) (content : Bytes) (g p : Obs) : String :=
  if p.status != 200 then "bad:status:existing file not served"
  else if decodeOne p != some (.raw content) then "bad:decoded-differs:the file server's response does not decode to the file"
  else if p.cl == .wrong then "bad:content-length:file server"
  else if !siblingOffered ae p.ce then "bad:not-offered:precompressed sibling in a coding the client did not offer"
  else verdict ae g p

/-- observation of a model response -/
def observe (r : Resp) : Obs :=
  { status := r.status, ce := r.hdr.ce, varyAE := r.hdr.varyAE, etag := r.hdr.etag, body := r.body,
    cl := match r.hdr.cl, r.blen with
      | none, _ => .absent
      | some l, some n => if l = n then .ok else .wrong
      | some _, none => .wrong }

/-- Range requests on static files (both executions observed): partial content, the bytes
are the requested slice of the representation named, Content-Length absent or correct, same
Content-Range, and the coding relation of `verdict`. -/
def rangeVerdict (ae : Bytes) (g p : Obs) (gRange pRange : String) (gSlice pSlice : Bool) : String :=
  if p.status != 206 || g.status != 206 then "bad:status:satisfiable range not answered 206"
  else if !pSlice || !gSlice then "bad:decoded-differs:the body is not the requested slice of the representation"
  else if p.cl == .wrong || g.cl == .wrong then "bad:content-length:Content-Length does not match the partial body"
  else if gRange != pRange then "bad:content-range:Content-Range changed"
  else if !siblingOffered ae p.ce then "bad:not-offered:precompressed sibling in a coding the client did not offer"
  else if g.ce = p.ce then "ok"
  else if !unencoded p.ce then "bad:double-encoding:an already encoded response was encoded again or its Content-Encoding rewritten"
  else if g.ce != Coding.gzip.name then "bad:ce-mismatch:Content-Encoding does not name the coding applied"
  else if !offersGzip ae then "bad:not-offered:gzip applied although the client did not offer it"
  else "ok"

/-- HEAD requests and the statuses without a body, as they appear on the wire (both executions;
`headSame`: for a HEAD request, Content-Encoding, Vary, ETag and Content-Type equal those the same
request gets as GET).  No body; no Content-Length on 204/304; a 204 — no content at all — is not
labelled with a coding (nor Vary / a weakened ETag); a 304 either is left alone or carries the
header of the compressed 200 it stands for; HEAD answers what GET answers. -/
def bodilessVerdict (ae : Bytes) (head : Bool) (g p : Obs) (headSame : Bool) : String :=
  if !bodiless head p.status then verdict ae g p
  else if g.status != p.status then "bad:status:the status differs from the uncompressed execution"
  else if g.body != .raw [] || p.body != .raw [] then "bad:body:a response that must not have a body carries one"
  else if (p.status == 204 || p.status == 304) && g.cl != .absent then "bad:content-length:Content-Length on a 204/304"
  else if head && !headSame then "bad:head-differs:HEAD does not answer the header fields GET answers"
  else if p.status == 204 then
    (if g.ce = p.ce && g.varyAE == p.varyAE && g.etag == p.etag then "ok"
     else "bad:bodiless-surprise:coding, Vary or ETag changed on a response that has no content")
  else if g.ce = p.ce then "ok"
  else if !unencoded p.ce then "bad:double-encoding:an already encoded response was encoded again or its Content-Encoding rewritten"
  else if g.ce != Coding.gzip.name then "bad:ce-mismatch:Content-Encoding does not name the coding applied"
  else if !offersGzip ae then "bad:not-offered:gzip applied although the client did not offer it"
  else "ok"

end Casket.GzipSpec
