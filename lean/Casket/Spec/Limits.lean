import Casket.Model.Limits
/-
The C17 property as executable predicates over what was OBSERVED (the trace of Reads the
innermost handler made, the http.Server fields of a listener, the status of a proxied
request).  None of them recomputes the model: they state the property.

  readerVerdict   bodies up to the limit arrive intact; longer ones are cut at the limit with
                  the too-large error; nothing beyond the limit is ever delivered; errors are sticky
  handlerVerdict  … where "the limit" is that of a longest matching configured path
                  (last configured value for that path)
  timeoutVerdict  a listener-wide timeout is the strictest value any site sets
                  (0 = "none" is the least strict), the default only if no site sets one
  headerVerdict   MaxHeaderBytes is the smallest limit any site sets
-/
namespace Casket.LimitsSpec
open Casket.Limits

def allSame (e : RErr) (t : Trace) : Bool := t.all (fun x => x.1.isEmpty && x.2 == some e)

/-- after the first error every Read returns (0, the same error) -/
def stickyOK : Trace → Bool
  | [] => true
  | (_, some e) :: t => allSame e t
  | (_, none) :: t => stickyOK t

/-- `lim = none`: no limit applies to the request. -/
def readerVerdict (lim : Option Nat) (data : Bytes) (endErr : RErr) (t : Trace) : String :=
  let d := delivered t
  let cap := match lim with
    | some l => l
    | none => data.length
  if !(d.isPrefixOf data) then "bad:corrupted:delivered bytes are not a prefix of the body"
  else if d.length > cap then "bad:beyond-limit:more than the limit was passed to the handler"
  else if lim.isSome && !stickyOK t then "bad:not-sticky:a Read after the error did not repeat it"
  else match firstErr t with
    | none => "ok"
    | some e =>
      if d != data.take cap then "bad:short:stream ended before min(len, limit) bytes were delivered"
      else if data.length > cap then
        (if e == .tooLarge then "ok" else "bad:no-too-large:body over the limit did not end with the too-large error")
      else if e == endErr then "ok"
      else "bad:spurious-error:body within the limit did not end with the stream's own end"

/-- configured entries as `addPathLimit` normalises them -/
def normRaw (raw : List (Bytes × Nat)) : List (Bytes × Nat) := raw.map (fun e => (normPath e.1, e.2))

/-- "Use the last value if there are duplicates" -/
def lastLimit (raw : List (Bytes × Nat)) (q : Bytes) : Option Nat :=
  ((normRaw raw).reverse.find? (fun e => e.1 = q)).map (·.2)

def matching (cs : Bool) (raw : List (Bytes × Nat)) (p : Bytes) : List (Bytes × Nat) :=
  (normRaw raw).filter (fun e => pathMatches cs p e.1)

/-- limits the property allows for a request to `p`: none when no path matches, otherwise the
(last configured) limit of a matching path of maximal length -/
def allowed (cs : Bool) (raw : List (Bytes × Nat)) (p : Bytes) : List (Option Nat) :=
  let m := matching cs raw p
  if m.isEmpty then [none]
  else (m.filter (fun e => m.all (fun e' => e'.1.length ≤ e.1.length))).map (fun e => lastLimit raw e.1)

def handlerVerdict (cs : Bool) (raw : List (Bytes × Nat)) (p : Bytes) (data : Bytes) (endErr : RErr)
    (t : Trace) : String :=
  let al := allowed cs raw p
  if al.any (fun lim => readerVerdict lim data endErr t == "ok") then "ok"
  else match al with
    | [] => "bad:no-scope:"
    | lim :: _ => readerVerdict lim data endErr t

/-! listener-wide settings -/

/-- `r` is the strictest of the configured values: with no value set, the default; with a
finite (non-zero) value set, the smallest finite one; otherwise (only "none" set) 0. -/
def strictestOK (vals : List TSetting) (dflt r : Nat) : Bool :=
  let set := vals.filterMap id
  let fin := set.filter (· ≠ 0)
  if set.isEmpty then r == dflt
  else if fin.isEmpty then r == 0
  else fin.contains r && fin.all (fun v => r ≤ v)

def timeoutVerdict (group : List SiteTimeouts) (d r : Timeouts) : String :=
  if !strictestOK (group.map (·.read)) d.read r.read then "bad:not-strictest:read timeout"
  else if !strictestOK (group.map (·.header)) d.header r.header then "bad:not-strictest:read-header timeout"
  else if !strictestOK (group.map (·.write)) d.write r.write then "bad:not-strictest:write timeout"
  else if !strictestOK (group.map (·.idle)) d.idle r.idle then "bad:not-strictest:idle timeout"
  else "ok"

/-- `r = 0` means MaxHeaderBytes was left alone (net/http's default applies). -/
def headerOK (group : List Nat) (r : Nat) : Bool :=
  let nz := group.filter (· ≠ 0)
  if nz.isEmpty then r == 0 else nz.contains r && nz.all (fun v => r ≤ v)

def headerVerdict (group : List Nat) (r : Nat) : String :=
  if headerOK group r then "ok" else "bad:header-limit-not-min:"

/-- proxied request: 413 exactly when the body is over the limit that applies -/
def proxyVerdict (cs : Bool) (raw : List (Bytes × Nat)) (p : Bytes) (data : Bytes) (status : Nat)
    (backendOK : Bool) : String :=
  let al := allowed cs raw p
  let over := fun (lim : Option Nat) => match lim with
    | some l => decide (data.length > l)
    | none => false
  if !backendOK then "bad:beyond-limit:the backend received bytes beyond the limit or not a prefix of the body"
  else if al.any (fun lim => (over lim && status == 413) || (!over lim && status == 0)) then "ok"
  else if status == 413 then "bad:spurious-413:"
  else "bad:no-413:body over the limit was not answered 413"

/-- A request given by the wire spelling of its path (`target`, the request line as sent): the
path the property talks about is the decoded one, so the limit that must apply is the one of the
longest scope matching `unescape target`, however the client spells it.  Nothing is demanded for a
target that is not a path (`unescape` fails) or when no handler was reached (`t = none`). -/
def targetVerdict (cs : Bool) (raw : List (Bytes × Nat)) (target : Bytes) (data : Bytes) (endErr : RErr)
    (t : Option Trace) : String :=
  match unescapePath target, t with
  | some p, some tr => handlerVerdict cs raw p data endErr tr
  | _, _ => "ok"

end Casket.LimitsSpec
