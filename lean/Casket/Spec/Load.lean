import Casket.Model.Load
/-
C08 as an executable predicate over the observed outcome of every attempt of a history.

  * the outcome of an attempt is the outcome in a fresh process: it depends only on the
    configuration and the environment — a configuration that is valid for the environment
    loads (`ok`, never `timeout`), an invalid one fails — whatever was attempted before;
  * after a successful load the process serves exactly the sites of that configuration and
    holds exactly one listening descriptor per port of it (as a fresh process would);
  * a failed attempt (load, reload or validation) changes nothing observable: same listening
    descriptors, same event hooks, same answers from the running sites;
  * validation never touches listeners or sites; Stop closes every listener and keeps the hooks;
  * no attempt alters the process-wide directive table (`ValidDirectives`, the execution order of
    the directives of every later load).
-/
namespace Casket.LoadSpec
open Casket.Load

/-- the configuration loads in a fresh process in this environment -/
def validFor (busy : List Nat) (c : Cfg) : Bool :=
  c.fail == .none && c.ports.all fun p => !busy.contains p

/-- the configuration passes `casket -validate` -/
def validates (c : Cfg) : Bool := c.fail == .none || c.fail == .startup

def markerAt (c : Cfg) (p : Nat) : String :=
  match c.sites.find? (·.port == p) with
  | some site => site.marker
  | none => "-"

def fdsAt (c : Cfg) (p : Nat) : Nat := if c.ports.contains p then 1 else 0

def Obs.fresh : Obs := { l1 := 0, l2 := 0, hooks := 0, dv := 0, s1 := "-", s2 := "-" }

/-- the law of one step given the observation before it; `none` = satisfied.
`res = none` stands for an attempt that did not finish within the watchdog time. -/
def stepLaw (busy : List Nat) (prev : Obs) (op : Op) (res : Option Res) (now : Obs) : Option String :=
  match res with
  | none => some "timeout"
  | some r =>
    -- no attempt, failed or not, may alter process-wide tables that later loads depend on (the directive order)
    if now.dv != 0 then some "process-state-changed" else
    match op with
    | .load c | .restart c =>
      if validFor busy c then
        if r != .ok then some "valid-config-rejected"
        else if now.s1 != markerAt c 1 || now.s2 != markerAt c 2 then some "wrong-sites"
        else if now.l1 != fdsAt c 1 || now.l2 != fdsAt c 2 then some "wrong-listeners"
        else none
      else
        if r != .err then some "invalid-config-accepted"
        else if now.l1 != prev.l1 || now.l2 != prev.l2 then some "listeners-changed"
        else if now.hooks != prev.hooks then some "hooks-changed"
        else if now.s1 != prev.s1 || now.s2 != prev.s2 then some "sites-changed"
        else none
    | .validate c =>
      if (r == .ok) != validates c then some "validation-outcome"
      else if now.l1 != prev.l1 || now.l2 != prev.l2 then some "listeners-changed"
      else if now.s1 != prev.s1 || now.s2 != prev.s2 then some "sites-changed"
      else if r == .err && now.hooks != prev.hooks then some "hooks-changed"
      else none
    | .stop =>
      if r != .ok then some "stop-failed"
      else if now.l1 != 0 || now.l2 != 0 then some "listeners-left"
      else if now.s1 != "-" || now.s2 != "-" then some "sites-left"
      else if now.hooks != prev.hooks then some "hooks-changed"
      else none

def check (busy : List Nat) (prev : Obs) (k : Nat) : List Op → List (Option Res × Obs) → Option String
  | [], [] => none
  | op :: ops, (r, o) :: rest =>
    match stepLaw busy prev op r o with
    | some c => some s!"bad:{c}:op {k}"
    | none => check busy o (k + 1) ops rest
  | _, _ => some "bad:length:number of steps differs from the number of operations"

def verdict (busy : List Nat) (ops : List Op) (steps : List (Option Res × Obs)) : String :=
  match check busy Obs.fresh 1 ops steps with
  | none => "ok"
  | some c => c

end Casket.LoadSpec
