import Casket.Model.TLSGroup
/-
The C06 property as an executable predicate over what is observed of a listener built from
a list of per-site TLS settings (as written in the Casketfile, before defaults):

  * TLS and plaintext sites on one listener            ⇒ the set is rejected
  * two sites under the same SNI key with different settings (or an unreadable client CA) ⇒ rejected
  * otherwise the handshake for server name `sni` is governed by the settings of the site whose
    host pattern is the first of: the name, the name with 1, 2, … leading labels replaced by `*`,
    the catch-all (empty host, `0.0.0.0`, `::`); the settings are the site's own with defaults
    filled in: minimum TLS 1.2 unless configured, TLS_FALLBACK_SCSV first, `acme-tls/1` offered
  * a name no site matches may be answered with any site's settings (the property is silent),
    but with exactly that site's settings.
-/
namespace Casket.TLSSpec
open Casket.TLSGroup
open Casket.VHost (Bytes lower hostCands)

def effCiphers (aesni : Bool) (c : Cfg) : List Nat :=
  scsv :: dedup (if c.ciphers.isEmpty then preferredDefaultCiphers aesni else c.ciphers) []

def effCurves (c : Cfg) : List Nat := dedup (if c.curves.isEmpty then defaultCurves else c.curves) []

def effALPN (c : Cfg) : List Bytes := if c.alpn.contains acmeALPN then c.alpn else c.alpn ++ [acmeALPN]

/-- the settings a handshake under site `c` must show -/
def effective (aesni : Bool) (c : Cfg) : Built :=
  { ciphers := effCiphers aesni c, curves := effCurves c, preferServer := true,
    minV := if c.minV = 0 then tls12 else c.minV, maxV := if c.maxV = 0 then tls13 else c.maxV,
    clientAuth := c.clientAuth, nextProtos := effALPN c }

def sameSettings (aesni : Bool) (c1 c2 : Cfg) : Bool :=
  effective aesni c1 == effective aesni c2 && (c1.clientAuth == 0 || c1.clientCerts == c2.clientCerts)

def mixed (cfgs : List Cfg) : Bool := cfgs.any (·.enabled) && cfgs.any (!·.enabled)

/-- some two sites share an SNI key but not their settings -/
def conflicting (aesni : Bool) : List Cfg → Bool
  | [] => false
  | c :: rest =>
    rest.any (fun d => mapKey d.hostname == mapKey c.hostname && !sameSettings aesni c d) || conflicting aesni rest

def caMissing (cfgs : List Cfg) : Bool := cfgs.any (fun c => !caFilesOk c)

def keyDeclared (cfgs : List Cfg) (k : Bytes) : Bool := cfgs.any (fun c => mapKey c.hostname == k)

/-- the most specific declared key for a server name -/
def specKey (cfgs : List Cfg) (name : Bytes) : Option Bytes :=
  (hostCands name ++ [[]]).find? (keyDeclared cfgs)

/-- index of the last config stored under key `k` -/
def lastIdx : List Cfg → Bytes → Nat → Option Nat
  | [], _, _ => none
  | c :: rest, k, i =>
    match lastIdx rest k (i + 1) with
    | some j => some j
    | none => if mapKey c.hostname = k then some i else none

/-- the configs do not list TLS_FALLBACK_SCSV themselves (it is not a selectable cipher) -/
def inDomain (cfgs : List Cfg) : Bool := cfgs.all (fun c => !c.ciphers.contains scsv)

def settingsVerdict (aesni : Bool) (c : Cfg) (b : Built) : String :=
  if c.minV = 0 ∧ b.minV < tls12 then "bad:min-below-tls12:site has no protocols setting but the handshake allows less than TLS 1.2"
  else if b.ciphers.head? != some scsv then "bad:scsv-not-first:TLS_FALLBACK_SCSV is not the first cipher suite"
  else if b.clientAuth != c.clientAuth then "bad:wrong-client-auth:client certificate policy differs from the site's"
  else if b != effective aesni c then "bad:wrong-settings:versions/ciphers/curves/ALPN differ from the site's"
  else "ok"

/-- the index of the config that must govern a handshake for `sni` (none: no site matches) -/
def wanted (cfgs : List Cfg) (sni : Bytes) (localAddr : Option Bytes) : Option Nat :=
  let name := normalizedName sni
  let byIP := if name = [] then localAddr.bind (fun a => lastIdx cfgs (Casket.VHost.stripPort a) 0) else none
  match byIP with
  | some j => some j
  | none => (specKey cfgs name).bind (fun k => lastIdx cfgs k 0)

/-- verdict for a consistent, TLS-enabled site set -/
def selectVerdict (aesni : Bool) (cfgs : List Cfg) (sni : Bytes) (localAddr : Option Bytes) (o : Obs) : String :=
  match o with
  | .error _ => "bad:valid-set-rejected:a consistent site set was rejected"
  | .plain => "bad:tls-listener-plain:TLS sites but a plaintext listener"
  | .nothing => "bad:no-config:no TLS settings returned"
  | .any =>
    if (wanted cfgs sni localAddr).isSome then "bad:wrong-config:a site matches the name but an arbitrary config is used"
    else "ok"
  | .cfg i b =>
    match cfgs[i]? with
    | none => "bad:wrong-config:unknown config"
    | some c =>
      match wanted cfgs sni localAddr with
      | some j => if i != j then "bad:wrong-config:another config than the most specific match for the name is used" else settingsVerdict aesni c b
      | none => settingsVerdict aesni c b

def verdict (aesni : Bool) (cfgs : List Cfg) (sni : Bytes) (localAddr : Option Bytes) (o : Obs) : String :=
  if !inDomain cfgs then "ok"
  else if mixed cfgs then
    match o with
    | .error _ => "ok"
    | _ => "bad:mixed-accepted:TLS and plaintext sites accepted on one listener"
  else if cfgs.all (!·.enabled) then
    match o with
    | .plain => "ok"
    | _ => "bad:plaintext-not-plain:a listener without TLS sites must be plaintext"
  else if caMissing cfgs then
    match o with
    | .error _ => "ok"
    | _ => "bad:missing-ca-accepted:unreadable client CA accepted"
  else if conflicting aesni cfgs then
    match o with
    | .error _ => "ok"
    | _ => "bad:incompatible-accepted:two sites share an SNI key with different settings"
  else selectVerdict aesni cfgs sni localAddr o

/-- a completed handshake under server name `sni` against a consistent TLS site set: the version
lies in the governing site's range (TLS 1.2 minimum unless configured), a client certificate is
requested exactly when that site demands one, and — when the site is found by name — the
certificate presented is the one of that site's host pattern -/
def hsInvalid (o : HS) : String :=
  match o with
  | .fail => "ok"
  | .ok _ _ _ => "bad:handshake-on-invalid-set:a handshake completed on a site set that must be rejected or plaintext"

def hsVerdict (aesni : Bool) (cfgs : List Cfg) (sni : Bytes) (localAddr : Option Bytes) (o : HS) : String :=
  if !inDomain cfgs then "ok"
  else if mixed cfgs then hsInvalid o
  else if cfgs.all (!·.enabled) then hsInvalid o
  else if caMissing cfgs then hsInvalid o
  else if conflicting aesni cfgs then hsInvalid o
  else if mapKey (normalizedName sni) = [] then "ok"   -- empty or IP-literal server name: not an SNI value
  else
    match o, wanted cfgs sni localAddr with
    | .fail, _ => "ok"
    | .ok _ _ _, none => "ok"
    | .ok v san req, some j =>
      match cfgs[j]? with
      | none => "ok"
      | some c =>
        let e := effective aesni c
        if v < e.minV then "bad:version-below-site-min:negotiated a version below the governing site's minimum"
        else if e.maxV < v then "bad:version-above-site-max:negotiated a version above the governing site's maximum"
        else if req != (c.clientAuth != 0) then "bad:client-cert-policy:client certificate requested iff the governing site demands one — violated"
        else if mapKey c.hostname != [] && san != c.hostname then "bad:wrong-certificate:the certificate presented is not the governing site's"
        else "ok"

/-- any tls.Config that `buildStandardTLSConfig` produces, defaulted or not: TLS_FALLBACK_SCSV comes
first and `acme-tls/1` is offered -/
def buildVerdict (o : Option (Cfg × Built)) : String :=
  match o with
  | none => "ok"
  | some (_, b) =>
    if b.ciphers.head? != some scsv then "bad:scsv-not-first:TLS_FALLBACK_SCSV is not the first cipher suite"
    else if !b.nextProtos.contains acmeALPN then "bad:no-acme-alpn:acme-tls/1 is not offered"
    else "ok"

/-- the strict-SNI clause, on what a request over a connection got: a site that demands client
certificates (and keeps the check on) serves only requests whose TLS server name equals the
Host name (port stripped, letter case ignored) -/
def sniVerdict (cfgs : List Cfg) (r : Casket.VHost.Req) (sni : Option Bytes) (o : Served) : String :=
  match o, sni with
  | .site i, some name =>
    match cfgs[i]? with
    | none => "ok"
    | some c =>
      if c.clientAuth != 0 && !c.disableSNIMatching && lower name != lower (Casket.VHost.stripPort r.host) then
        "bad:clientauth-sni-mismatch:a client-certificate site served a request whose SNI differs from its Host"
      else "ok"
  | _, _ => "ok"

/-- one connection, SNI and Host apart (stream `c06.cross`): whatever config governed the handshake
made under `sni`, a request `r` (Host `r.host`) over that connection is served by a site that demands client
certificates (check on) only if the two names agree.  A rejected site set has no listener and a
plaintext listener has no handshake: nothing to demand. -/
def crossSHVerdict (cfgs : List Cfg) (sni : Bytes) (r : Casket.VHost.Req) (o : Obs × Served) : String :=
  match o.1 with
  | .error _ => "ok"
  | .plain => "ok"
  | _ => sniVerdict cfgs r (some sni) o.2

def sameClientAuth (c d : Cfg) : Bool := c.clientAuth == d.clientAuth && c.clientCerts == d.clientCerts

/-- SNI = Host = one name: a site that demands client certificates (check not switched off) serves
the request only if the handshake was governed by settings with the same client-certificate
policy — i.e. by its own config or one that had to be compatible with it. `any`: the config
is picked by map iteration, so every config of the listener must agree. -/
def crossVerdict (cfgs : List Cfg) (o : Obs × Served) : String :=
  match o.2 with
  | .site i =>
    match cfgs[i]? with
    | none => "ok"
    | some c =>
      if c.clientAuth == 0 || c.disableSNIMatching then "ok"
      else
        match o.1 with
        | .cfg j _ =>
          match cfgs[j]? with
          | some d => if sameClientAuth c d then "ok"
                      else "bad:clientauth-bypass:the request reached a client-certificate site over a handshake governed by another policy"
          | none => "ok"
        | .any =>
          if cfgs.all (sameClientAuth c) then "ok"
          else "bad:clientauth-bypass-failover:the handshake is governed by an arbitrary config of the listener, not by the client-certificate site that serves the request"
        | _ => "ok"
  | _ => "ok"

/-- a listener built from a Casketfile (stream `c06.loaded`): `cfgs` are the settings the sites' addresses and
tls blocks MEAN (host pattern in lower case, …) — however they are written.  Both clauses of the property on one
connection: the handshake under `sni` is governed by the most specific site's own settings (or the set is
rejected, exactly as for `verdict`), and the request for `r.host` over it obeys the strict-SNI clause. -/
def loadedVerdict (aesni : Bool) (cfgs : List Cfg) (sni : Bytes) (r : Casket.VHost.Req) (o : Obs × Served) : String :=
  let v := verdict aesni cfgs sni none o.1
  if v != "ok" then v else crossSHVerdict cfgs sni r o

end Casket.TLSSpec
