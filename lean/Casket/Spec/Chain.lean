import Casket.Model.Chain
import Casket.Spec.FileServe
/-
C03 as an executable predicate over an OBSERVED response: without valid credentials (and for a
method other than OPTIONS, the documented pass-through) the response carries no content of

  * a file whose canonical URL (its path below the root) is covered by a basicauth rule —
    some resource matches it and no exclusion does — none of whose covering rules accepts the
    request's credentials,
  * a file whose canonical URL matches an internal path (whatever the credentials),
  * a proxy backend whose `from` scope is so covered.

"Matches" is `httpserver.Path.Matches`, the only definition of a path scope the configuration
language has.  The verdict class names the route of a disclosure (direct, rewritten, index,
sibling, archive) and the kind of scope that covers the disclosed file (dir, file, prefix), so
that known findings can be told apart from new ones.
-/
namespace Casket.ChainSpec
open Casket.Path Casket.FS Casket.FileServe Casket.Chain

/-- URL path of an entry of the site: its elements below the root -/
def canonURL (site : Site) (e : Entry) : Bytes := slash :: joinSlash (e.path.drop site.root.length)

def fileOfSite (site : Site) (e : Entry) : Bool := !e.isDir && site.root.isPrefixOf e.path

/-- the inode is the content of a file of the site that the request may not see -/
def protectedIno (fs : FS) (cs : ChainSite) (creds : Option (Bytes × Bytes)) (ino : Nat) : Bool :=
  fs.any fun e => decide (e.ino = ino) && fileOfSite cs.site e && needsAuth cs.auth (canonURL cs.site e) creds

def internalIno (fs : FS) (cs : ChainSite) (ino : Nat) : Bool :=
  fs.any fun e => decide (e.ino = ino) && fileOfSite cs.site e && isInternal cs.internal (canonURL cs.site e)

def contentInos : Resp → List Nat
  | .file ino _ => [ino]
  | .archive items => items.filterMap (·.content)
  | _ => []

/-- how the content was reached, for the verdict class -/
def route (fs : FS) (cs : ChainSite) (target : Bytes) (r : Resp) : String :=
  match r with
  | .archive _ => "archive"
  | .file ino enc =>
    let direct := match Casket.FileServeSpec.siteUrl cs.site target with
      | some u => (match dirOpen fs cs.site.root u.path with | .ok e => decide (e.ino = ino) | .error _ => false)
      | none => false
    if direct then "direct"
    else if enc.isSome || fs.any (fun e => decide (e.ino = ino) && cs.site.encodings.any (fun ne => hasSuffix e.name ne.2)) then "sibling"
    else if fs.any (fun e => decide (e.ino = ino) && cs.site.indexPages.contains e.name) then "index"
    else "rewritten"
  | _ => "none"

/-- how a covering path relates to a file's canonical URL: `dir` — a directory above the file
(or everything); `file` — exactly the file's own URL; `prefix` — only a partial name -/
def scopeOf (b c : Bytes) : String :=
  if b = [] ∨ clean b = [slash] then "dir"
  else if hasPrefix (toLower c) (toLower (clean b) ++ [slash]) then "dir"
  else if toLower c = toLower (clean b) then "file"
  else "prefix"

def bestScope (scopes : List String) : String :=
  if scopes.contains "dir" then "dir" else if scopes.contains "file" then "file" else "prefix"

/-- scope of the internal paths covering the offending inodes: the tightest relation found over
ALL of them (`dir` before `file` before `prefix`), so that a file below an internal DIRECTORY in an
archive is not reported under the class of a partial-name neighbour that happens to come first -/
def internalScope (fs : FS) (cs : ChainSite) (inos : List Nat) : String :=
  match inos.filter (internalIno fs cs) with
  | [] => "none"
  | bad =>
    bestScope (bad.flatMap fun ino =>
      (fs.filter fun e => decide (e.ino = ino) && fileOfSite cs.site e).flatMap fun e =>
        (cs.internal.filter (pathMatches (canonURL cs.site e))).map fun b => scopeOf b (canonURL cs.site e))

/-- scope of the basicauth resources covering the offending inodes (tightest over all of them) -/
def authScope (fs : FS) (cs : ChainSite) (creds : Option (Bytes × Bytes)) (inos : List Nat) : String :=
  match inos.filter (protectedIno fs cs creds) with
  | [] => "none"
  | bad =>
    bestScope (bad.flatMap fun ino =>
      (fs.filter fun e => decide (e.ino = ino) && fileOfSite cs.site e).flatMap fun e =>
        (cs.auth.filter fun r => ruleCovers r (canonURL cs.site e)).flatMap fun r =>
          (r.resources.filter (pathMatches (canonURL cs.site e))).map fun b => scopeOf b (canonURL cs.site e))

def verdict (fs : FS) (cs : ChainSite) (r : CReq) (obs : CResp) : String :=
  if r.method = FileServe.mOPTIONS then "ok"
  else match obs with
    | .unauthorized => "ok"
    | .backend id =>
      match cs.proxies.find? (fun x => x.2 = id) with
      | none => "bad:backend-unknown:answer from a backend the site does not proxy to"
      | some x =>
        if needsAuth cs.auth x.1 r.creds then "bad:backend:a backend under a protected path answered without valid credentials"
        else if isInternal cs.internal x.1 then "bad:backend-internal:a backend under an internal path answered"
        else "ok"
    | .served resp =>
      let inos := contentInos resp
      if inos.any (internalIno fs cs) then
        "bad:internal-" ++ route fs cs r.target resp ++ "-" ++ internalScope fs cs inos ++ ":content of a file under an internal path"
      else if inos.any (protectedIno fs cs r.creds) then
        "bad:disclosure-" ++ route fs cs r.target resp ++ "-" ++ authScope fs cs r.creds inos ++ ":content of a basicauth-protected file without valid credentials"
      else "ok"

end Casket.ChainSpec
