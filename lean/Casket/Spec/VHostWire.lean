import Casket.Model.VHostWire
import Casket.Spec.VHost
/-
Judge of stream `c01.wire`.  The property is stated on "request Host/path pairs"; the path of a request is
its `URL.Path` — the percent-decoded request-target.  The judge therefore takes the `URL.Path` the real
`http.ReadRequest` produced (observed, not demanded: the standard library's parser is trusted and only
compared with the model) and applies the C01 verdict to the site that ran for it.
-/
namespace Casket.VHostWireSpec
open Casket.VHost Casket.VHostWire

def verdict (sites : List Site) (host : Bytes) (pm : Nat) (o : WireOutcome) : String :=
  match o with
  | .badRequest => "ok"
  | .routed p out => Casket.VHostSpec.verdict sites { host := host, path := p, protoMajor := pm } out

end Casket.VHostWireSpec
