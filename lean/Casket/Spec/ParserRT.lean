import Casket.Model.Parser
/-
What "a configuration that was written" means at the level of tokens (C10, structure preservation):
server blocks with keys, an opening brace, directives — each a name followed by arguments and (nested)
sub-blocks — and a closing brace, laid out in lines the way the Casketfile syntax demands.  The conditions
are phrased on the tokens' files and line numbers only (`tokNewLine`), so they cover every layout and every
mix of inline, snippet and imported origins that yields such a token sequence.
-/
namespace Casket.ParserRT
open Casket.Lexer Casket.Dispenser Casket.Parser

/-- a directive as written: its name token and everything up to the end of its last line / sub-block -/
structure WDir where
  name : Token
  rest : List Token
deriving Repr, DecidableEq

structure WBlock where
  keys : List Token          -- as written: a key that is followed by a comma carries it
  open_ : Token
  dirs : List WDir
  close : Token
deriving Repr, DecidableEq

def WDir.toks (d : WDir) : List Token := d.name :: d.rest

def WBlock.toks (b : WBlock) : List Token := b.keys ++ b.open_ :: (b.dirs.flatMap WDir.toks ++ [b.close])

def flatten (bs : List WBlock) : List Token := bs.flatMap WBlock.toks

/-- no `{%` / `{$` in the text (nothing for the environment replacement to do) -/
def noRef (s : Bytes) : Bool := (indexOf s pctOpen).isNone && (indexOf s dolOpen).isNone

/-- the tail of a directive, read with the previous token and the brace nesting so far:
at nesting 0 every token stays on the directive's line and is not `}`; `{` opens, `}` closes a sub-block;
inside a sub-block anything goes except `import` first on a line; the directive ends with all braces closed -/
def restOK (prev : Token) (n : Nat) : List Token → Bool
  | [] => n == 0
  | t :: ts =>
    noRef t.text &&
    (if t.text == lbrace then restOK t (n + 1) ts
     else if n == 0 then !tokNewLine prev t && t.text != rbrace && restOK t 0 ts
     else if t.text == rbrace then restOK t (n - 1) ts
     else !(t.text == sImport && tokNewLine prev t) && restOK t n ts)

def lastTok (d : WDir) : Token := (d.rest.getLast?).getD d.name

/-- the directives of a block: each name is a plain word, each tail is well formed, and whatever follows a
directive (the next directive or the closing brace) starts a new line -/
def dirsOK : List WDir → Token → Bool
  | [], _ => true
  | d :: ds, close =>
    noRef d.name.text && d.name.text != rbrace && d.name.text != lbrace && d.name.text != sImport &&
    restOK d.name 0 d.rest &&
    tokNewLine (lastTok d) (match ds with | [] => close | d' :: _ => d'.name) &&
    dirsOK ds close

/-- the key a written address token stands for -/
def keyOf (t : Token) : Bytes := if t.text.getLast? == some 0x2C then t.text.dropLast else t.text

def endsWithComma (t : Token) : Bool := t.text.getLast? == some 0x2C

/-- the address line(s): non-empty plain words other than `{` and `import`; a key without a trailing comma is
followed on the same line; the last key has no comma -/
def keysOK : List Token → Bool
  | [] => false
  | [k] => noRef k.text && !k.text.isEmpty && k.text != lbrace && k.text != sImport && !endsWithComma k
  | k :: k' :: ks =>
    noRef k.text && !k.text.isEmpty && k.text != lbrace && k.text != sImport &&
    (endsWithComma k || !tokNewLine k k') && keysOK (k' :: ks)

def blockOK (b : WBlock) : Bool :=
  keysOK b.keys && (isSnippet (b.keys.map keyOf)).isNone &&
  b.open_.text == lbrace && b.close.text == rbrace && dirsOK b.dirs b.close

/-- the server block the parser must return for a written block -/
def expectedBlock (b : WBlock) : ServerBlock :=
  ⟨b.keys.map keyOf,
   b.dirs.foldl (fun m d => d.rest.foldl (fun m t => addTok m d.name.text t) (addTok m d.name.text d.name)) []⟩

end Casket.ParserRT
