import Casket.Model.HtCacheLock
/-
C11 on a history of `GetHtpasswdMatcher` calls and file changes (judge of the stream c11.htcache), as far as the
property text goes:
  * "ends in bounded time with either success or an error message": no call hangs;
  * "validation and a real start agree": two calls for the same file and user with no change of that file between
    them end alike (a validation and the start that follows it make exactly such a pair of calls).
Nothing else is demanded — in particular not WHICH error a call reports.

CORE LEAN ONLY.
-/
namespace Casket.HtCacheLock

/-- the outcome of the earlier calls for (file, user) since the file last changed -/
abbrev Memo := List ((Nat × Nat) × Res)

def Memo.find (m : Memo) (f u : Nat) : Option Res := (m.find? (fun e => e.1 == (f, u))).map (·.2)

def Memo.forget (m : Memo) (f : Nat) : Memo := m.filter (fun e => e.1.1 != f)

/-- the property on the results observed for a history -/
def agrees : List Op → List Res → Memo → Bool
  | [], rs, _ => rs.isEmpty
  | .get f u :: ops, rs, memo =>
    match rs with
    | [] => false
    | r :: rs =>
      r != .hang &&
      (match memo.find f u with | some r' => r == r' | none => true) &&
      agrees ops rs (((f, u), r) :: memo)
  | .write f _ :: ops, rs, memo => agrees ops rs (memo.forget f)
  | .remove f :: ops, rs, memo => agrees ops rs (memo.forget f)
  | .mkdir f :: ops, rs, memo => agrees ops rs (memo.forget f)
  | .touch f :: ops, rs, memo => agrees ops rs (memo.forget f)

/-- verdict of the judge -/
def verdict (ops : List Op) (rs : List Res) : String :=
  if rs.contains .hang then "bad:timeout:a call did not return (hang or deadlock)"
  else if agrees ops rs [] then "ok"
  else "bad:disagree:two calls for the same file and user, with the file unchanged between them, ended differently"

end Casket.HtCacheLock
