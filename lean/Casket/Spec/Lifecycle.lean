import Casket.Model.Lifecycle
/-
C16 as an executable predicate over an observed lifecycle trace.

The judge walks the history with a *ledger* — which instances are live, whether the
shutdown signal was handled, how many Serve calls of each lineage were seen starting and
stopping — that it advances from the operation and the OBSERVED result and events only,
and applies one law per segment:

  start, ok      first-startup callbacks, then startup callbacks, then every server listens,
                 then every server serves; each exactly once; nothing else
  start, err     only first-startup/startup/listen events of the new instance, each at most once, in
                 that order; no server serves
  restart, ok    old OnRestart → new OnStartup → new listen → new serve → old Stop → old OnShutdown,
                 each exactly once; no first-startup, no restart-failed, no final-shutdown callbacks
  restart, err   of the old instance only OnRestart callbacks (first, maybe cut short by the error) and
                 both OnRestartFailed callbacks (last); the new instance never serves
  stop           exactly the Stop calls of the graceful servers of the live instances
  signal         the first one: OnShutdown then OnFinalShutdown of every live instance exactly once;
                 any later one: nothing
  wait           Wait() on a Start's instance has returned only if as many Serve calls of the lineage
                 stopped as started

`listen` and `inherit` are not distinguished here (socket hand-over is C07's matter).
-/
namespace Casket.LifecycleSpec
open Casket.Lifecycle

def norm : Event → Event
  | .inherit g k => .listen g k
  | e => e

def genOf : Event → Nat
  | .cb _ g _ => g
  | .listen g _ => g
  | .inherit g _ => g
  | .serve g _ => g
  | .stop g _ => g

def rank : Event → Nat
  | .cb .fs _ _ => 0
  | .cb .rs _ _ => 1
  | .cb .su _ _ => 2
  | .listen _ _ => 3
  | .inherit _ _ => 3
  | .serve _ _ => 4
  | .stop _ _ => 5
  | .cb .sd _ _ => 6
  | .cb .fd _ _ => 7
  | .cb .rf _ _ => 8

def sub : Event → Nat
  | .cb _ _ i => if i = 0 then 0 else 1
  | _ => 0

/-- position of an event in the prescribed order (callbacks of one list in registration order) -/
def phase (e : Event) : Nat := 2 * rank e + sub e

/-- the events come in the prescribed order -/
def ordered (E : List Event) : Bool := decide (E.Pairwise fun a b => phase a ≤ phase b)

/-- the events of each instance come in the prescribed order -/
def orderedPerGen (E : List Event) : Bool :=
  decide (E.Pairwise fun a b => genOf a = genOf b → phase a ≤ phase b)

def listens (g n : Nat) : List Event := (List.range n).map (.listen g)
def servesOf (g n : Nat) : List Event := (List.range n).map (.serve g)

/-- `Stop` of every graceful server of an instance -/
def stopsOf (i : Inst) : List Event :=
  (i.cfg.servers.zipIdx.filter fun p => p.1.graceful).map fun p => .stop i.gen p.2

def shutdownOf (i : Inst) : List Event := cbs .sd i.gen ++ cbs .fd i.gen

/-- events a new instance may produce while it is being loaded (before it serves) -/
def allowedLoading (g n : Nat) (isRestart : Bool) : Event → Bool
  | .cb .fs g' i => !isRestart && g' == g && i < 2
  | .cb .su g' i => g' == g && i < 2
  | .listen g' k => g' == g && k < n
  | .inherit g' k => g' == g && k < n
  | _ => false

def startOk (g : Nat) (c : Cfg) (E : List Event) : Bool :=
  ordered E &&
  (E.map norm).isPerm (cbs .fs g ++ cbs .su g ++ listens g c.servers.length ++ servesOf g c.servers.length)

def startErr (g : Nat) (c : Cfg) (E : List Event) : Bool :=
  ordered E && decide E.Nodup && E.all (allowedLoading g c.servers.length false)

def restartOk (o : Inst) (g : Nat) (c : Cfg) (E : List Event) : Bool :=
  ordered E &&
  (E.map norm).isPerm (cbs .rs o.gen ++ cbs .su g ++ listens g c.servers.length ++ servesOf g c.servers.length
                        ++ stopsOf o ++ cbs .sd o.gen)

def restartErr (o : Inst) (g : Nat) (c : Cfg) (E : List Event) : Bool :=
  ordered E && decide E.Nodup &&
  (E.filter (fun e => genOf e == o.gen) == .cb .rs o.gen 0 :: cbs .rf o.gen ||
   E.filter (fun e => genOf e == o.gen) == cbs .rs o.gen ++ cbs .rf o.gen) &&
  (E.filter (fun e => genOf e != o.gen)).all (allowedLoading g c.servers.length true)

def stopAllOk (live : List Inst) (E : List Event) : Bool :=
  E.isPerm (live.flatMap stopsOf)

def signalOk (live : List Inst) (once : Bool) (E : List Event) : Bool :=
  if once then E.isEmpty else orderedPerGen E && E.isPerm (live.flatMap shutdownOf)

structure Ledger where
  next : Nat
  live : List Inst
  once : Bool
  lineages : List Nat
  served : Nat → Nat
  stopped : Nat → Nat

def Ledger.init : Ledger :=
  { next := 1, live := [], once := false, lineages := [], served := fun _ => 0, stopped := fun _ => 0 }

/-- the law of one segment; `none` = satisfied -/
def segLaw (led : Ledger) (op : Op) (seg : Seg) : Option String :=
  match op, seg.res with
  | .start c, .ok => if startOk led.next c seg.events then none else some "start-order"
  | .start c, .err => if startErr led.next c seg.events then none else some "failed-start-shape"
  | .start _, .noinst => some "result"
  | .restart c, r =>
    match led.live, r with
    | [], .noinst => if seg.events.isEmpty then none else some "result"
    | [], _ => some "result"
    | _ :: _, .noinst => some "result"
    | o :: _, .ok => if restartOk o led.next c seg.events then none else some "restart-order"
    | o :: _, .err => if restartErr o led.next c seg.events then none else some "failed-restart-shape"
  | .stopAll, .ok => if stopAllOk led.live seg.events then none else some "stop-shape"
  | .stopAll, _ => some "result"
  | .signal _, .ok => if signalOk led.live led.once seg.events then none else some "shutdown-once"
  | .signal _, _ => some "result"

/-- lineage of the instance of generation `g`, `newG` being created in lineage `newL` -/
def linOf (live : List Inst) (newG newL g : Nat) : Nat :=
  if g = newG then newL else ((live.find? fun i => i.gen == g).map (·.lineage)).getD g

def servedDelta (lin : Nat → Nat) (E : List Event) (l : Nat) : Nat :=
  (E.filter fun e => match e with | .serve g _ => lin g == l | _ => false).length

def stoppedDelta (lin : Nat → Nat) (E : List Event) (l : Nat) : Nat :=
  (E.filter fun e => match e with | .stop g _ => lin g == l | _ => false).length

def Ledger.count (led : Ledger) (lin : Nat → Nat) (E : List Event) : Ledger :=
  { led with served := fun l => led.served l + servedDelta lin E l,
             stopped := fun l => led.stopped l + stoppedDelta lin E l }

/-- the ledger after an operation, from the OBSERVED result and events -/
def advance (led : Ledger) (op : Op) (seg : Seg) : Ledger :=
  let g := led.next
  match op with
  | .start c =>
    let led1 := (led.count (linOf led.live g g) seg.events)
    { led1 with next := g + 1, lineages := led.lineages ++ [g],
                live := if seg.res == .ok then led.live ++ [⟨g, g, c⟩] else led.live }
  | .restart c =>
    match led.live with
    | [] => { led with next := g + 1 }
    | o :: rest =>
      let led1 := (led.count (linOf led.live g o.lineage) seg.events)
      { led1 with next := g + 1,
                  live := if seg.res == .ok then rest ++ [⟨g, o.lineage, c⟩] else led.live }
  | .stopAll =>
    let led1 := (led.count (linOf led.live g g) seg.events)
    { led1 with next := g + 1, live := [] }
  | .signal _ => { led with next := g + 1, once := true }

/-- Wait() returned only for lineages all of whose Serve calls have stopped -/
def waitOk (led : Ledger) (bits : List Bool) : Bool :=
  bits.length == led.lineages.length &&
  (led.lineages.zip bits).all fun p => !p.2 || led.served p.1 ≤ led.stopped p.1

def check (led : Ledger) : List Op → List (Seg × List Bool) → Option String
  | [], [] => none
  | op :: ops, (seg, bits) :: rest =>
    match segLaw led op seg with
    | some c => some s!"bad:{c}:op {led.next}"
    | none =>
      let led' := advance led op seg
      if waitOk led' bits then check led' ops rest else some s!"bad:wait-early:op {led.next}"
  | _, _ => some "bad:length:number of segments differs from the number of operations"

def verdict (ops : List Op) (segs : List (Seg × List Bool)) : String :=
  match check Ledger.init ops segs with
  | none => "ok"
  | some c => c

/-! ### the signal path (stream c16.signal: real signals to a child process) -/

def isCb : Event → Bool
  | .cb _ _ _ => true
  | _ => false

def isStop : Event → Bool
  | .stop _ _ => true
  | _ => false

/-- what the process may do between the deciding signal and its exit, `live` being the instances alive (no shutdown signal
was handled before): SIGTERM — every live instance's OnShutdown then OnFinalShutdown callbacks exactly once, then `Stop` of
every graceful server exactly once, nothing else; SIGINT — the callbacks only; SIGQUIT — nothing; and it must exit. -/
def signalPathLaw (live : List Inst) (sigs : List Sig) (E : List Event) (exited : Bool) : Option String :=
  match deciding sigs with
  | none => if E.isEmpty && !exited then none else some "signal-ignored-signal-acted"
  | some .hup => none
  | some .quit => if !exited then some "no-exit" else if E.isEmpty then none else some "quit-ran-callbacks"
  | some .int =>
    if !exited then some "no-exit"
    else if signalOk live false E then none else some "shutdown-once"
  | some .term =>
    if !exited then some "no-exit"
    else if !(signalOk live false (E.takeWhile isCb)) then some "shutdown-once"
    else if !((E.dropWhile isCb).all isStop && stopAllOk live (E.dropWhile isCb)) then some "stop-shape"
    else none

end Casket.LifecycleSpec
