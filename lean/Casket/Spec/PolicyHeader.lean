import Casket.Model.PolicyHeader
import Casket.Spec.Policy
/-
"hash-based policies send the same key to the same backend while availability is unchanged", for `policy header`,
as an executable predicate over the backends observed for a run of requests against one unchanged pool.

Two requests carry the same key when, for every configured header (header names are case-insensitive, however the
name is spelled in the Casketfile or by the client), they carry the same values on the same lines, and the header is
there at all: the value the server reads for one of the configured names (its first line) is not empty.  Nothing is
demanded of requests without a value (the documented fallback is round robin) beyond soundness and completeness, and
nothing of two requests that differ in any line of a configured header.
-/
namespace Casket.PolicySpec
open Casket.Policy

def keyed (names : List Name) (r : Req) : Bool := names.any fun n => !(headerGet r n).isEmpty

def sameKey (names : List Name) (a b : Req) : Bool :=
  keyed names a && (names.map (headerValues a) == names.map (headerValues b))

def stickyFrom (names : List Name) (a : Req) (o : Option Nat) (rest : List (Req × Option Nat)) : Bool :=
  rest.all fun x => !sameKey names a x.1 || o == x.2

def sticky (names : List Name) : List (Req × Option Nat) → Bool
  | [] => true
  | (a, o) :: rest => stickyFrom names a o rest && sticky names rest

def headerVerdict (names : List Name) (p : Pool) (obs : List (Req × Option Nat)) : String :=
  match obs.find? (fun x => verdict .hash p x.2 != "ok") with
  | some x => verdict .hash p x.2
  | none =>
    if sticky names obs then "ok"
    else "bad:not-sticky:requests carrying the same header value went to different backends while availability was unchanged"

end Casket.PolicySpec
