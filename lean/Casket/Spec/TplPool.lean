import Casket.Model.TplPool
/-
C03 for a sequence of requests to a site with `templates` behind basicauth/internal: NO response
of the sequence to a request that lacks valid credentials contains content (a token) of a file
under a protected path — whatever was requested, by whom, before it.

A file is *covered* for a request when basicauth would answer 401 for the file's URL with the
request's credentials, or an internal path matches it.  A token is owned by every file whose
source has it as literal text.  Nothing else is demanded: status codes, the content for valid
credentials, the order of tokens are the correspondence's business, not the judge's.
-/
namespace Casket.TplPoolSpec
open Casket.Path Casket.Chain Casket.TplPool

def covered (s : TSite) (creds : Option (Bytes × Bytes)) (p : Bytes) : Bool :=
  needsAuth s.auth p creds || isInternal s.internal p

def owners (s : TSite) (t : Nat) : List Bytes :=
  (s.files.filter fun f => f.2.contains (.lit t)).map (·.1)

/-- the token is content of a file that is covered for these credentials -/
def offends (s : TSite) (creds : Option (Bytes × Bytes)) (t : Nat) : Bool :=
  (owners s t).any (covered s creds)

/-- every token a page can pull in by itself (its own text and that of its includes, whether or
not execution gets that far): used only to NAME the class of a disclosure -/
def reach (files : List (Bytes × Page)) : Nat → Page → List Nat
  | 0, _ => []
  | _ + 1, [] => []
  | fuel + 1, .lit t :: rest => t :: reach files fuel rest
  | fuel + 1, .incl n :: rest =>
    (match lookup files n with | some p => reach files fuel p | none => []) ++ reach files fuel rest
  | fuel + 1, _ :: rest => reach files fuel rest

def stepVerdict (fuel : Nat) (s : TSite) (r : TReq) (toks : List Nat) : String :=
  match toks.find? (offends s r.creds) with
  | none => "ok"
  | some t =>
    if (reach s.files fuel ((lookup s.files r.path).getD [])).contains t then
      "bad:disclosure-include:the page requested without valid credentials pulls in content of a protected file"
    else
      "bad:disclosure-carried-over:content of a protected page that was rendered for an EARLIER request of the sequence, in the response to a request without valid credentials"

/-- the observed sequence: per request the tokens found in its response -/
def verdict (fuel : Nat) (s : TSite) (obs : List (TReq × List Nat)) : String :=
  ((obs.map fun o => stepVerdict fuel s o.1 o.2).find? (· ≠ "ok")).getD "ok"

/-- the model's sequence of responses as an observation -/
def observed (steps : List (TReq × Option Nat)) (resps : List TResp) : List (TReq × List Nat) :=
  (steps.map (·.1)).zip (resps.map tokensOf)

end Casket.TplPoolSpec
