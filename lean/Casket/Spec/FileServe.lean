import Casket.Model.FileServe
/-
C02 as an executable predicate over an OBSERVED response (status / Location / which inodes'
content the body carries / which names a listing or archive shows):

  * a file body is the content of a regular file inside the site root that is either the file
    the (decoded, prefix-stripped, cleaned) request path names, an index page of that directory,
    or a precompressed sibling of one of those that the client accepts;
  * no body, listing or archive shows a hidden file (same inode as a hide-list path);
  * a listing shows only children of the requested directory, an archive only entries below it;
  * a redirect's Location starts with exactly one `/`.

The predicate does not look at how the handlers reach their answer; it only shares the
definitions of the file system, of `http.Dir` name resolution and of request-target decoding
with the model.  `Props/C02.lean` proves that the model's answer always satisfies it.
-/
namespace Casket.FileServeSpec
open Casket.Path Casket.FS Casket.FileServe

/-- Location starts with exactly one `/` -/
def sameOrigin (loc : Bytes) : Bool :=
  match loc with
  | 47 :: 47 :: _ => false
  | 47 :: _ => true
  | _ => false

/-- the URL the site's handlers see: decoded and with the site's path prefix stripped -/
def siteUrl (site : Site) (target : Bytes) : Option Url :=
  match parseRequestURI target with
  | none => none
  | some u =>
    if site.pathPrefix = [slash] then some u
    else if !hasPrefix u.path site.pathPrefix then none
    else some (trimPathPrefix u site.pathPrefix)

/-- some entry with this inode is a regular file located inside the site root -/
def regularInRoot (fs : FS) (site : Site) (ino : Nat) : Bool :=
  fs.any fun e => e.ino = ino && !e.isDir && site.root.isPrefixOf e.path

def hidden (fs : FS) (site : Site) (ino : Nat) : Bool := isHidden fs site.root site.hide ino

def opens (fs : FS) (site : Site) (p : Bytes) : List Entry :=
  match dirOpen fs site.root p with
  | .ok e => [e]
  | .error _ => []

/-- candidate paths: the request path and its directory's index pages -/
def basePaths (site : Site) (p : Bytes) : List Bytes := p :: site.indexPages.map (join2 p)

/-- inodes a 200 file response to this request may carry -/
def allowedInos (fs : FS) (site : Site) (p acceptEncoding : Bytes) : List Nat :=
  ((basePaths site p).flatMap fun q =>
    opens fs site q ++ (site.encodings.filter (fun ne => accepts acceptEncoding ne.1)).flatMap (fun ne => opens fs site (q ++ ne.2))).map (·.ino)

def dirOf (fs : FS) (site : Site) (p : Bytes) : Option Entry :=
  match dirOpen fs site.root p with
  | .ok e => if e.isDir then some e else none
  | .error _ => none

def itemOk (fs : FS) (site : Site) (d : Entry) (top : List Bytes) (it : Item) : Bool :=
  let rel := it.name.drop top.length
  decide (rel ≠ []) && top.isPrefixOf it.name &&
    fs.any fun e => decide (e.path = d.path ++ rel) && !hidden fs site e.ino &&
      (match it.content with
       | none => e.isDir
       | some ino => !e.isDir && decide (e.ino = ino) && regularInRoot fs site ino)

def verdict (fs : FS) (site : Site) (target acceptEncoding : Bytes) (obs : Resp) : String :=
  match obs with
  | .status _ => "ok"
  | .redirect _ loc => if sameOrigin loc then "ok" else "bad:redirect:Location does not start with exactly one slash"
  | .file ino _ =>
    match siteUrl site target with
    | none => "bad:provenance:content served for a request that names no resource of the site"
    | some u =>
      if hidden fs site ino then "bad:hidden:body is the content of a hidden file"
      else if !regularInRoot fs site ino then "bad:outside:body is not a regular file inside the site root"
      else if !(allowedInos fs site u.path acceptEncoding).contains ino then "bad:provenance:body is neither the named file, an index page of it, nor an accepted sibling"
      else "ok"
  | .listing names =>
    match siteUrl site target with
    | none => "bad:provenance:listing served for a request that names no resource of the site"
    | some u =>
      match dirOf fs site u.path with
      | none => "bad:provenance:listing for a path that names no directory"
      | some d =>
        if names.all fun n => fs.any fun e => e.path = d.path ++ [n] && !hidden fs site e.ino then "ok"
        else "bad:listing:listing shows a hidden entry or something that is not a child of the directory"
  | .archive items =>
    match siteUrl site target with
    | none => "bad:provenance:archive served for a request that names no resource of the site"
    | some u =>
      match dirOf fs site u.path with
      | none => "bad:provenance:archive for a path that names no directory"
      | some d =>
        let top := match (jailElems (clean u.path)).getLast? with | some l => [l] | none => []
        if items.all (itemOk fs site d top) then "ok"
        else "bad:archive:archive contains a hidden entry or something not below the directory"

end Casket.FileServeSpec
