import Casket.Model.Accounting
/-
C14 as an executable predicate over an observed schedule replay: after every scheduled action,
for every backend,
  * the in-flight counter equals the number of requests inside the backend transport   (exact)
  * it does not exceed max_conns                                                        (cap)
  * the failure counter equals the number of recorded, not yet expired failures         (exact)
  * a backend handed out by Select is up (not unhealthy, fewer than max_fails outstanding failures)
    and below its cap; "none" is answered only when no backend is in that condition      (down iff)
  * the Unhealthy flags are what the last health-check pass found, and a pass changes nothing else
and at the end (every request finished) all in-flight counters are zero, and so are the failure
counters unless failures never expire within the run.
-/
namespace Casket.AccountingSpec
open Casket.Accounting

def allZeroI (l : List Int) : Bool := l.all (· == 0)
def allZeroN (l : List Nat) : Bool := l.all (· == 0)

/-- is backend `h` available according to the bookkeeping the property prescribes:
`outstanding` recorded-and-unexpired failures, `inflight` requests being forwarded -/
def specAvail (c : Cfg) (unh : List Bool) (outstanding inflight : List Nat) (h : Nat) : Bool :=
  decide (h < c.nHosts) && !(unh.getD h false) && decide (outstanding.getD h 0 < c.maxFails) &&
    !(decide (c.maxConns > 0) && decide (inflight.getD h 0 ≥ c.maxConns))

/-- failures outstanding after the action labelled `l` -/
def outstandingAfter (ex : Expiry) (out : List Nat) : Label → List Nat
  | .fin h .err => if ex == .never || ex == .delayed then out.modify h (· + 1) else out
  | .exp h => out.modify h (· - 1)
  | _ => out

def natsToInts (l : List Nat) : List Int := l.map Int.ofNat

/-- the health flags after the action labelled `l` -/
def unhealthyAfter (unh : List Bool) : Label → List Bool
  | .hc flags => flags
  | _ => unh

/-- check one snapshot; `prevIn` = in-flight numbers before the action (what Select saw),
`unh` = the health flags according to the health checks so far -/
def checkSnap (c : Cfg) (unh : List Bool) (out prevIn : List Nat) (s : Snap) : Option String :=
  if s.conns != natsToInts s.inflight then some "bad:conns-inexact:in-flight counter differs from the number of requests being forwarded"
  else if c.maxConns > 0 && s.inflight.any (fun n => decide (n > c.maxConns)) then some "bad:max-conns-exceeded:more simultaneous forwards than max_conns"
  else if s.fails != natsToInts out then some "bad:fails-inexact:failure counter differs from the number of unexpired failures"
  else if s.unhealthy != unh then some "bad:down-wrong:the Unhealthy flags are not the outcome of the last health check"
  else match s.label with
    | .sel h => if specAvail c unh out prevIn h then none else some "bad:selected-unavailable:Select handed out a backend that is down or at its cap"
    | .none => if (List.range c.nHosts).any (specAvail c unh out prevIn) then some "bad:down-mismatch:no backend handed out although one is up and below its cap" else none
    | .final =>
      if allZeroN s.inflight && !allZeroI s.conns then some "bad:conns-not-zero:in-flight counter not back to zero at quiescence"
      else none
    | _ => none

def verdictGo (c : Cfg) (ex : Expiry) : List Bool → List Nat → List Nat → List Snap → String
  | _, _, _, [] => "ok"
  | unh, out, prevIn, s :: rest =>
    let out' := outstandingAfter ex out s.label
    let unh' := unhealthyAfter unh s.label
    match checkSnap c unh' out' prevIn s with
    | some bad => bad
    | none => verdictGo c ex unh' out' s.inflight rest

def verdict (c : Cfg) (ex : Expiry) (snaps : List Snap) : String :=
  verdictGo c ex c.unhealthy (List.replicate c.nHosts 0) (List.replicate c.nHosts 0) snaps

/-- The expiry property on three probes of the backend of a failure recorded at time t (max_fails 1):
inside [t, t + fail_timeout) the failure still counts and the backend is down; after
t + fail_timeout it does not and the backend is up — however long the request had been running
when it failed. -/
def verdictExpiry : List (Int × Bool) → String
  | [p1, p2, p3] =>
    if p1.1 < 1 || !p1.2 || p2.1 < 1 || !p2.2 then
      "bad:expired-early:a recorded failure stopped counting (or the backend was up again) before fail_timeout had passed since it was recorded"
    else if p3.1 != 0 || p3.2 then
      "bad:expired-late:a recorded failure still counts (or the backend is still down) well after fail_timeout"
    else "ok"
  | _ => "bad:unparsable:probes"

end Casket.AccountingSpec
