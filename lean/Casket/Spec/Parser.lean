import Casket.Model.Parser
/-
C10 as an executable predicate over an observed answer of `casketfile.Parse`
(the model driver applies it to what the REAL parser answered; Props/C10 proves the model's
answers satisfy it).

  total      : the call returned — server blocks, or an error that names a file and a line (≥ 1);
               it did not panic and did not run past the watchdog.
  round trip : for a configuration that was written out (any layout, inline / snippet / imported),
               the blocks returned are exactly the ones written.
-/
namespace Casket.ParserSpec
open Casket.Lexer Casket.Parser

/-- what a call of `Parse` can be observed to do -/
inductive Answer where
  | blocks (bs : List ServerBlock)
  | error (cls file : String) (line : Nat)
  | panic (msg : String)
  | timeout
deriving Repr, DecidableEq

def answerOf : Res (List ServerBlock) → Answer
  | .ok bs => .blocks bs
  | .err c f l => .error c f l
  | .panic m => .panic m
  | .timeout => .timeout

/-- The totality half of C10. -/
def total : Answer → Bool
  | .blocks _ => true
  | .error _ file line => file != "" && decide (1 ≤ line)
  | .panic _ => false
  | .timeout => false

def totalVerdictA : Answer → String
  | .blocks _ => "ok"
  | .error _ file line =>
    if file == "" then "bad:error-without-file:the error names no file"
    else if line == 0 then "bad:error-without-line:the error names no line"
    else "ok"
  | .panic _ => "bad:panic:Parse panicked"
  | .timeout => "bad:timeout:Parse did not return (loop)"

theorem totalVerdictA_ok_iff (a : Answer) : totalVerdictA a = "ok" ↔ total a = true := by
  cases a with
  | blocks bs => simp [totalVerdictA, total]
  | error c f l =>
    simp only [totalVerdictA, total]
    by_cases hf : f = "" <;> by_cases hl : l = 0 <;> simp [hf, hl] <;> omega
  | panic m => simp [totalVerdictA, total]
  | timeout => simp [totalVerdictA, total]

/-- blocks compared as the property states them: keys in order; per directive its tokens' texts
in order (and where each token came from) -/
def sameBlock (a b : ServerBlock) : Bool :=
  a.keys == b.keys && a.tokens.length == b.tokens.length &&
  a.tokens.all fun p => b.tokens.any fun q => p.1 == q.1 && p.2 == q.2

def sameBlocks : List ServerBlock → List ServerBlock → Bool
  | [], [] => true
  | a :: as, b :: bs => sameBlock a b && sameBlocks as bs
  | _, _ => false

/-- The structure-preservation half of C10 for a configuration whose written blocks are `expected`. -/
def roundTrip (expected : List ServerBlock) : Answer → Bool
  | .blocks bs => sameBlocks expected bs
  | _ => false

end Casket.ParserSpec
