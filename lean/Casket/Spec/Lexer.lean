import Casket.Model.Lexer
/-
What "written with arbitrary layout" means for the lexer part of C10: a text is a sequence of
written tokens, each preceded by a gap of insignificant layout (white space of any kind, comments,
blank lines, CR LF), and a final gap.  `render` produces the runes; `expected` the tokens (text and
line) the lexer must give back.
-/
namespace Casket.LexerSpec
open Casket.Lexer

def cpNL : Nat := 0x0A
def cpCR : Nat := 0x0D
def cpHash : Nat := 0x23
def cpQuote : Nat := 0x22
def cpBslash : Nat := 0x5C

def quoteChr : Chr := ⟨0x22, [0x22]⟩
def hashChr : Chr := ⟨0x23, [0x23]⟩
def nlChr : Chr := ⟨0x0A, [0x0A]⟩

/-- a piece of layout -/
inductive Gap where
  | ws (c : Chr)                    -- one white space rune (`unicode.IsSpace`), including `\n` and `\r`
  | comment (body : List Chr)       -- `#`, anything up to the end of the line, `\n`
deriving Repr, DecidableEq

def Gap.runes : Gap → List Chr
  | .ws c => [c]
  | .comment body => hashChr :: body ++ [nlChr]

def Gap.newlines : Gap → Nat
  | .ws c => if c.cp == cpNL then 1 else 0
  | .comment _ => 1

def Gap.WF : Gap → Prop
  | .ws c => isSpace c.cp = true
  | .comment body => ∀ c ∈ body, c.cp ≠ cpNL

/-- one unit between double quotes -/
inductive QUnit where
  | plain (c : Chr)       -- any rune but `\` and `"` (line breaks included)
  | escQuote              -- written `\"`, means `"`
  | escOther (c : Chr)    -- written `\c` (c ≠ `"`), means `\c`: only quotes can be escaped
deriving Repr

def QUnit.written : QUnit → List Chr
  | .plain c => [c]
  | .escQuote => [bslash, quoteChr]
  | .escOther c => [bslash, c]

def QUnit.value : QUnit → List Chr
  | .plain c => [c]
  | .escQuote => [quoteChr]
  | .escOther c => [bslash, c]

def QUnit.WF : QUnit → Prop
  | .plain c => c.cp ≠ cpBslash ∧ c.cp ≠ cpQuote
  | .escQuote => True
  | .escOther c => c.cp ≠ cpQuote

def QUnit.newlines : QUnit → Nat
  | .plain c => if c.cp == cpNL then 1 else 0
  | .escQuote => 0
  | .escOther c => if c.cp == cpNL then 1 else 0

/-- a token as written -/
inductive Written where
  | plain (w : List Chr)          -- unquoted word
  | quoted (us : List QUnit)      -- "…"
deriving Repr

def Written.runes : Written → List Chr
  | .plain w => w
  | .quoted us => quoteChr :: us.flatMap QUnit.written ++ [quoteChr]

def Written.value : Written → List Chr
  | .plain w => w
  | .quoted us => us.flatMap QUnit.value

def Written.newlines : Written → Nat
  | .plain _ => 0
  | .quoted us => (us.map QUnit.newlines).sum

/-- an unquoted word: not empty, no white space, no `#`, does not start with `"` -/
def plainWF (w : List Chr) : Prop :=
  w ≠ [] ∧ (∀ c ∈ w, isSpace c.cp = false ∧ c.cp ≠ cpHash) ∧ w.head?.map (·.cp) ≠ some cpQuote

def Written.WF : Written → Prop
  | .plain w => plainWF w
  | .quoted us => ∀ u ∈ us, u.WF

def Written.isPlain : Written → Bool
  | .plain _ => true
  | .quoted _ => false

/-- a gap that ends an unquoted word: it starts with white space other than `\r` -/
def endsWord : List Gap → Prop
  | .ws c :: _ => c.cp ≠ cpCR
  | _ => False

structure Item where
  gap : List Gap
  tok : Written
deriving Repr

def gapRunes (g : List Gap) : List Chr := g.flatMap Gap.runes
def gapNewlines (g : List Gap) : Nat := (g.map Gap.newlines).sum

/-- the runes of the text: gap₁ tok₁ gap₂ tok₂ … gapₙ tokₙ final -/
def render : List Item → List Gap → List Chr
  | [], final => gapRunes final
  | it :: rest, final => gapRunes it.gap ++ it.tok.runes ++ render rest final

/-- layout is insignificant only where it can not glue tokens together: after an unquoted word the next gap
(or the final one) must begin with white space other than `\r`, unless the text ends right there -/
def afterWordOK : List Item → List Gap → Prop
  | [], final => final = [] ∨ endsWord final
  | nxt :: _, _ => endsWord nxt.gap

def WF : List Item → List Gap → Prop
  | [], final => ∀ g ∈ final, g.WF
  | it :: rest, final =>
    (∀ g ∈ it.gap, g.WF) ∧ it.tok.WF ∧ (it.tok.isPlain = true → afterWordOK rest final) ∧ WF rest final

/-- the tokens that were written, with the line each starts on -/
def expected : List Item → Nat → List Token
  | [], _ => []
  | it :: rest, line =>
    let l := line + gapNewlines it.gap
    ⟨"", l, textOf it.tok.value⟩ :: expected rest (l + it.tok.newlines)


instance : (g : Gap) → Decidable g.WF
  | .ws c => inferInstanceAs (Decidable (isSpace c.cp = true))
  | .comment b => inferInstanceAs (Decidable (∀ c ∈ b, c.cp ≠ cpNL))

instance : (u : QUnit) → Decidable u.WF
  | .plain c => inferInstanceAs (Decidable (c.cp ≠ cpBslash ∧ c.cp ≠ cpQuote))
  | .escQuote => inferInstanceAs (Decidable True)
  | .escOther c => inferInstanceAs (Decidable (c.cp ≠ cpQuote))

instance (w : List Chr) : Decidable (plainWF w) := by unfold plainWF; exact inferInstance

instance : (t : Written) → Decidable t.WF
  | .plain w => inferInstanceAs (Decidable (plainWF w))
  | .quoted us => inferInstanceAs (Decidable (∀ u ∈ us, u.WF))

instance : (g : List Gap) → Decidable (endsWord g)
  | [] => inferInstanceAs (Decidable False)
  | .ws c :: _ => inferInstanceAs (Decidable (c.cp ≠ cpCR))
  | .comment _ :: _ => inferInstanceAs (Decidable False)

instance : (rest : List Item) → (final : List Gap) → Decidable (afterWordOK rest final)
  | [], final => inferInstanceAs (Decidable (final = [] ∨ endsWord final))
  | nxt :: _, _ => inferInstanceAs (Decidable (endsWord nxt.gap))

instance decWF : (items : List Item) → (final : List Gap) → Decidable (WF items final)
  | [], final => inferInstanceAs (Decidable (∀ g ∈ final, g.WF))
  | it :: rest, final =>
    have : Decidable (WF rest final) := decWF rest final
    inferInstanceAs (Decidable ((∀ g ∈ it.gap, g.WF) ∧ it.tok.WF ∧ (it.tok.isPlain = true → afterWordOK rest final) ∧ WF rest final))

end Casket.LexerSpec
