import Casket.Model.Dispenser
/-
C11 as executable predicates.

  * dispenser safety: after any sequence of Dispenser method calls the cursor lies in [-1, len]
    (so `Val`, `Line`, `File` and every guarded `tokens[cursor]` are defined) — `cursorOk`.
  * setup totality (judge of the search stream c11.setup): loading a configuration in validate mode and in
    start mode both RETURNED (success or error; no panic, no hang) and agree on accept/reject — `setupVerdict`.
-/
namespace Casket.DispenserSpec
open Casket.Lexer Casket.Dispenser

/-- the cursor invariant of `casketfile.Dispenser` -/
def cursorOk (d : Disp) : Prop := -1 ≤ d.cursor ∧ d.cursor ≤ d.len

instance (d : Disp) : Decidable (cursorOk d) := by unfold cursorOk; exact inferInstance

/-- how one generated configuration went through `ValidateAndExecuteDirectives` in both modes -/
inductive Outcome where
  | total      -- both modes returned and agree
  | panic
  | timeout
  | disagree
  | unreadable
deriving DecidableEq, Repr

def classify (out : String) : Outcome :=
  if out == "total" then .total
  else if out.startsWith "PANIC" then .panic
  else if out.startsWith "TIMEOUT" then .timeout
  else if out.startsWith "DISAGREE" then .disagree
  else .unreadable

def verdictOf : Outcome → String
  | .total => "ok"
  | .panic => "bad:panic:a directive's setup panicked"
  | .timeout => "bad:timeout:loading did not return (hang or deadlock)"
  | .disagree => "bad:disagree:validation and start do not agree on whether the directives are accepted"
  | .unreadable => "bad:unparsable:"

def setupVerdict (out : String) : String := verdictOf (classify out)


/-- "Validation and a real start agree": the setup calls a start makes are the setup calls validation makes, in the
same order, possibly cut short (only a start runs parsing callbacks, and one of them may fail); when no callback
fails the two agree on the outcome as well. `v`, `s` = the setup entries of the two traces. -/
def startAgrees {α : Type} [BEq α] (v s : List α) (vOk sOk : Bool) (callbackFailed : Bool) : Bool :=
  s.isPrefixOf v && (callbackFailed || (s == v && vOk == sOk))

end Casket.DispenserSpec
