import Casket.Model.FileServeSeq
import Casket.Spec.FileServe
/-
C02 for a running site whose file system changes between requests: EVERY answer must satisfy
the single-request predicate `FileServeSpec.verdict` with respect to the file system AS IT IS WHEN
THE REQUEST IS SERVED — the file that is hidden is the file the hide-list path names now, not the
one it named when the site was started or when the hide list was last consulted.

The predicate demands nothing about how quickly a change becomes visible beyond that: an answer
is judged only against the state of its own moment (the harness makes every change between two
requests of one connectionless client, so there is no overlap).
-/
namespace Casket.FileServeSeqSpec
open Casket.Path Casket.FS Casket.FileServe Casket.FileServeSeq Casket.FileServeSpec

/-- `n` counts the requests answered so far (for the message only). -/
def verdictSeq (site : Site) : Nat → FS → List Step → List Resp → String
  | _, _, [], [] => "ok"
  | _, _, [], _ :: _ => "bad:unparsable:more answers than requests"
  | n, fs, s :: rest, obs =>
    match s with
    | .get _ t ae =>
      match obs with
      | [] => "bad:unparsable:fewer answers than requests"
      | o :: os =>
        let v := verdict fs site t ae o
        if v = "ok" then verdictSeq site (n + 1) fs rest os
        else v ++ " [request " ++ toString (n + 1) ++ " of the script, judged against the file system of that moment]"
    | _ => verdictSeq site n (applyStep fs s) rest obs

end Casket.FileServeSeqSpec
