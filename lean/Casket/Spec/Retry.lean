import Casket.Model.Retry
/-
The retry half of C05 as an executable predicate over an observed run (final result and the
list of attempts with the body each one could read):

  * answered: retries enabled (try_duration > 0, fail_timeout > 0), some backend is healthy
    (up, below its connection cap, answering every attempt) from the arrival of the request to its
    end, the others only ever fail or answer — whatever state they are in on arrival and however
    that state changes while the request is served — and the failures fit the time budget
    ⇒  the request succeeds;
  * answered, when backends come back: retries enabled, the backends only ever fail or answer, the
    failures fit the (slightly stricter) time budget `budgetLate`, and once the attempts of the run
    have been made some backend that always answers is in rotation (in the state on arrival or
    the state the changes during those attempts have left it in)  ⇒  the request succeeded — the
    loop does not give up while a healthy backend is there and the duration is not spent;
  * every attempt receives the complete original body;
  * no backend is in rotation on arrival (so no attempt is made, and nothing changes)
    ⇒  502 without a single attempt.
-/
namespace Casket.RetrySpec
open Casket.Policy Casket.Retry

def isFull (c : Cfg) (h : HostCfg) : Bool := decide (c.maxConns > 0) && decide (h.conns ≥ c.maxConns)

def fullS (c : Cfg) (s : HostState) : Bool := decide (c.maxConns > 0) && decide (s.conns ≥ c.maxConns)

/-- in rotation, this request's own failures apart: not unhealthy, below the cap, fewer than max_fails failures -/
def upS (c : Cfg) (s : HostState) : Bool := !s.unhealthy && !fullS c s && decide (s.fails < c.maxFails)

def alwaysOk (h : HostCfg) : Bool := h.script.all (fun o => o == .ok)

/-- a healthy backend: in rotation when the request arrives (not marked unhealthy, below its cap,
fewer than max_fails recorded failures), answers every attempt -/
def good (c : Cfg) (h : HostCfg) : Bool := !h.unhealthy && !isFull c h && decide (h.fails < c.maxFails) && alwaysOk h

/-- no event changes the state of backend i -/
def untouched (c : Cfg) (i : Nat) : Bool := c.events.all fun e => e.host != i

/-- backend i is healthy on arrival and stays so -/
def stableGood (c : Cfg) (i : Nat) : Bool :=
  match c.hosts[i]? with
  | some h => good c h && untouched c i
  | none => false

def okOrFail : Outcome → Bool
  | .ok => true
  | .fail _ => true
  | _ => false

/-- no client cancellation, no over-long body: backends only answer or fail -/
def okFailOnly (c : Cfg) : Bool := c.hosts.all fun h => h.script.all okOrFail

def retriesEnabled (c : Cfg) : Bool := decide (c.tryDuration > 0) && decide (c.failTimeout > 0)

def badCount (c : Cfg) : Nat := (c.hosts.filter fun h => !good c h).length

/-- Timing side condition: all failures the other backends can produce before they are marked
down (max_fails each), each followed by one try_interval sleep, fit into try_duration, and a
recorded failure outlives the retry window. -/
def budget (c : Cfg) : Bool :=
  decide (c.interval ≥ 1) && decide (c.maxFails ≥ 1) &&
    decide (c.maxFails * badCount c * c.interval < c.tryDuration) && decide (c.failTimeout ≥ c.tryDuration)

def sized (c : Cfg) : Bool :=
  decide (c.hosts.length ≤ 2147483648) && (c.hosts.all fun h => decide (h.conns ≤ maxInt64)) &&
    c.events.all fun e => decide (e.state.conns ≤ maxInt64)

def mustSucceed (c : Cfg) : Bool :=
  retriesEnabled c && (List.range c.hosts.length).any (stableGood c) && okFailOnly c && budget c && sized c

/-- the state the events of the first `m` attempts have given the backends -/
def overAfter (c : Cfg) : Nat → (Nat → Option HostState)
  | 0 => fun _ => none
  | m + 1 => applyEvents c.events m (overAfter c m)

/-- backend i is healthy once `m` attempts have been made: it answers every attempt and is in
rotation in the state it arrived in or the events of those attempts have given it -/
def goodAfter (c : Cfg) (m i : Nat) : Bool :=
  match c.hosts[i]?, hostState c (overAfter c m) i with
  | some h, some s => alwaysOk h && upS c s
  | _, _ => false

/-- backends that can fail an attempt -/
def flakyCount (c : Cfg) : Nat := (c.hosts.filter fun h => !alwaysOk h).length

/-- Timing side condition when backends come and go: all failures the backends can produce before
they are marked down, each followed by one try_interval sleep, fit into try_duration, and a
recorded failure outlives the retry window and the last sleep. -/
def budgetLate (c : Cfg) : Bool :=
  decide (c.interval ≥ 1) && decide (c.maxFails ≥ 1) &&
    decide (c.maxFails * flakyCount c * c.interval < c.tryDuration) &&
    decide (c.failTimeout ≥ c.tryDuration + c.interval)

/-- after `m` attempts a healthy backend is there and the duration cannot be spent -/
def mustSucceedAfter (c : Cfg) (m : Nat) : Bool :=
  retriesEnabled c && okFailOnly c && budgetLate c && sized c && (List.range c.hosts.length).any (goodAfter c m)

/-- no backend is in rotation when the request arrives -/
def neverAvailable (c : Cfg) : Bool := c.hosts.all fun h => !upS c h.state

def bodiesComplete (c : Cfg) (attempts : List Attempt) : Bool :=
  attempts.all fun a => !c.hasBody || a.body == .full || a.body == .unread

def verdict (c : Cfg) (res : Result) (attempts : List Attempt) : String :=
  if mustSucceed c && res != .success then
    "bad:not-answered:a healthy backend exists and retries are enabled, yet the request failed"
  else if mustSucceedAfter c attempts.length && res != .success then
    "bad:not-answered:the request failed although a healthy backend was in rotation after the last attempt and try_duration was not spent"
  else if !bodiesComplete c attempts then
    "bad:body-incomplete:an attempt did not receive the complete original body"
  else if neverAvailable c && (res != .badGateway || !attempts.isEmpty) then
    "bad:no-502:no backend was ever available but the answer is not a plain 502"
  else "ok"

end Casket.RetrySpec
