import Casket.Model.VHostAuto
import Casket.Spec.VHost
import Casket.Spec.VHostStack
/-
Judge of stream c01.auto.  The property speaks about "the sites sharing a listener": the judge takes the
sites the real listener was OBSERVED to hold (declared and synthesised ones; address text of each) and demands
  * no two of them have the same routing address (host pattern, path) — otherwise "the one site whose
    address matches most specifically" does not exist and the declaration order decides;
  * the one site whose handlers ran (or 404/421 and none) is what the trie-free C01 specification says for
    these addresses.
Which sites a listener holds (bind grouping, redirect synthesis) is not demanded here — that part is
compared with the model only (and is C15's claim).
-/
namespace Casket.VHostAutoSpec
open Casket.VHost Casket.VHostAuto

def verdict (blocks : List Block) (r : Req) (o : AutoOutcome) : String :=
  if !(blocks.all fun b => Casket.AutoHTTPS.inAddrDomain b.addr) then "ok"
  else
    match o with
    | .served _ ms out =>
      let sites := ms.map Member.site
      if Casket.VHostStackSpec.hasDuplicateRouteKey (Casket.VHostSpec.entries sites) then
        "bad:duplicate-route-key:two sites of one listener (declared or synthesised) have the same routing address, the later shadows the earlier"
      else Casket.VHostSpec.verdict sites r out
    | _ => "ok"

end Casket.VHostAutoSpec
