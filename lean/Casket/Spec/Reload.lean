import Casket.Model.Reload
/-
C07 as executable predicates.

(1) `stepLaw` — over the observations of the sequential hand-over stream (c07.handover): after every reload, with
    or without a request in flight,
      * the outcome is the outcome of the configuration in this environment (a valid one loads, never times out);
      * after a successful reload every address of the new configuration answers a fresh connection with the NEW
        generation, holds exactly one listening descriptor, and — if the old configuration served it too — is still
        the SAME socket (handed over, not closed and rebound); addresses that were dropped are closed;
      * after a failed reload nothing changed: same sockets, same descriptors, same (old) answers;
      * the request that was in flight when the reload began gets a complete answer from the old generation — also
        when it outlives the graceful period and Restart returns before it completes —, and a fresh connection made
        after the old listener was closed is answered by the new one;
      * once Restart has returned casket runs exactly one instance.

(2) `stormLaw` — over the recorded trace of a reload storm under concurrent clients (c07.storm): every request made
    on a fresh connection got a complete answer (no transport error), from a generation that was loaded successfully,
    not older than the last reload that had returned successfully before the request started and not newer than the
    last one that had been called before the request ended.
-/
namespace Casket.ReloadSpec
open Casket.Reload

/-- the configuration loads in this environment -/
def valid (busy : List Nat) (c : Cfg) : Bool := !c.failSetup && c.addrs.all fun a => !busy.contains a

structure HLedger where
  /-- generation of the configuration in force -/
  gen : Nat
  /-- its addresses -/
  addrs : List Nat
  prev : HObs
  /-- generation the next operation creates -/
  next : Nat

def addrLaw (led : HLedger) (c : Cfg) (g a fd sk : Nat) (prevSk : Nat) (p : String) : Option String :=
  if c.addrs.contains a then
    if p != toString g then some "after-return-not-new"
    else if fd != 1 then some "listeners"
    else if led.addrs.contains a && sk != prevSk then some "socket-rebound"
    else if sk == 0 then some "listeners"
    else none
  else if p != "-" || fd != 0 || sk != 0 then some "address-left-open"
  else none

def stepLaw (busy : List Nat) (led : HLedger) (op : HOp) (o : HObs) : Option String :=
  let c := op.cfg
  let g := led.next
  if o.res == "timeout" then some "timeout" else
  let inflight : Option String :=
    match op with
    | .reload _ => if o.mid.isSome || o.str.isSome then some "shape" else none
    | .straddle _ =>
      -- the request in flight is answered completely by the configuration it reached
      if o.str != some (if led.addrs.contains 1 then toString led.gen else "-") then some "request-in-flight-dropped"
      else none
    | .longflight _ =>
      if o.mid.isSome then some "shape"
      else if o.str != some (if led.addrs.contains 1 then toString led.gen else "-") then some "request-in-flight-dropped"
      else none
  if inflight.isSome then inflight else
  -- after Restart returned (successfully or not) casket runs exactly one instance
  if o.ni != 1 then some "instance-list" else
  if valid busy c then
    if o.res != "ok" then some "valid-config-rejected"
    else match addrLaw led c g 1 o.fd1 o.sk1 led.prev.sk1 o.p1 with
      | some e => some e
      | none =>
        match addrLaw led c g 2 o.fd2 o.sk2 led.prev.sk2 o.p2 with
        | some e => some e
        | none =>
          match op with
          | .straddle _ =>
            if o.mid != some (if c.addrs.contains 1 then toString g else "-") then some "fresh-connection-not-new" else none
          | _ => none
  else
    if o.res != "err" then some "invalid-config-accepted"
    else if o.fd1 != led.prev.fd1 || o.fd2 != led.prev.fd2 || o.sk1 != led.prev.sk1 || o.sk2 != led.prev.sk2 then
      some "failed-reload-changed-sockets"
    else if o.p1 != led.prev.p1 || o.p2 != led.prev.p2 then some "failed-reload-changed-answers"
    else match op with
      | .straddle _ => if o.mid != some led.prev.p1 then some "failed-reload-changed-answers" else none
      | _ => none

def advance (busy : List Nat) (led : HLedger) (op : HOp) (o : HObs) : HLedger :=
  if valid busy op.cfg && o.res == "ok" then { gen := led.next, addrs := op.cfg.addrs, prev := o, next := led.next + 1 }
  else { led with prev := o, next := led.next + 1 }

def checkFrom (busy : List Nat) (led : HLedger) : List HOp → List HObs → Option String
  | [], [] => none
  | op :: ops, o :: rest =>
    match stepLaw busy led op o with
    | some e => some s!"bad:{e}:op {led.next - 1}"
    | none => checkFrom busy (advance busy led op o) ops rest
  | _, _ => some "bad:length:number of steps differs from the number of operations"

/-- the law of the initial Start -/
def startLaw (c : Cfg) (o : HObs) : Option String :=
  let led : HLedger := { gen := 0, addrs := [], prev := o, next := 1 }
  if o.res != "ok" then some "start-failed"
  else match addrLaw led c 1 1 o.fd1 o.sk1 0 o.p1 with
    | some e => some e
    | none => addrLaw led c 1 2 o.fd2 o.sk2 0 o.p2

def verdict (busy : List Nat) (c0 : Cfg) (ops : List HOp) (obs : List HObs) : String :=
  match obs with
  | [] => "bad:length:no observation"
  | o0 :: rest =>
    match startLaw c0 o0 with
    | some e => s!"bad:{e}:op 0"
    | none =>
      match checkFrom busy { gen := 1, addrs := c0.addrs, prev := o0, next := 2 } ops rest with
      | none => "ok"
      | some e => e

/-! ### servers of several kinds (c07.mixed) -/

/-- what socket `x` must look like when generation `g` with configuration `c` is in force -/
def expectedCell (c : Cfg) (g x : Nat) : Nat × String :=
  if c.addrs.contains x then (1, toString g) else (0, "-")

/-- the law of one reload of the mixed stream: a configuration valid for the environment loads and afterwards every socket it
names has exactly one descriptor and is answered by the new generation's server FOR THAT ADDRESS (an answer from a server of
another address is rendered `misrouted…` by the driver and never equals the expected answer), every other socket is closed;
an invalid one fails and changes nothing -/
def mixedStepLaw (busy codes : List Nat) (prev : List (Nat × String)) (c : Cfg) (g : Nat) (o : MObs) : Option String :=
  if o.mis then some "misrouted"
  else if valid busy c then
    if o.res != "ok" then some "valid-config-rejected"
    else if o.cells != codes.map (expectedCell c g) then some "wrong-sockets-or-answers"
    else none
  else
    if o.res != "err" then some "invalid-config-accepted"
    else if o.cells != prev then some "failed-reload-changed-state"
    else none

def mixedCheck (busy codes : List Nat) : List (Nat × String) → Nat → List Cfg → List MObs → Option String
  | _, _, [], [] => none
  | prev, g, c :: cs, o :: os =>
    match mixedStepLaw busy codes prev c g o with
    | some e => some s!"bad:{e}:op {g - 1}"
    | none => mixedCheck busy codes o.cells (g + 1) cs os
  | _, _, _, _ => some "bad:length:number of steps differs from the number of operations"

def mixedVerdict (busy codes : List Nat) (c0 : Cfg) (cs : List Cfg) (obs : List MObs) : String :=
  match obs with
  | [] => "bad:length:no observation"
  | o0 :: rest =>
    if o0.mis then "bad:misrouted:op 0"
    else if o0.res != "ok" || o0.cells != codes.map (expectedCell c0 1) then "bad:start:op 0"
    else match mixedCheck busy codes o0.cells 2 cs rest with
      | none => "ok"
      | some e => e

/-! ### storm traces -/

/-- one reload of a storm: logical times of call and return, generation, whether it succeeded -/
structure SReload where
  call : Nat
  ret : Nat
  gen : Nat
  ok : Bool
deriving DecidableEq, Repr

/-- one client request on a fresh connection: logical times of start and end, the generation that answered
(`none` = transport error or incomplete response) -/
structure SRequest where
  start : Nat
  stop : Nat
  answer : Option Nat
deriving DecidableEq, Repr

/-- generation in force once every reload that returned before `t` is taken into account (initially 1) -/
def lowerBound (rs : List SReload) (t : Nat) : Nat :=
  rs.foldl (fun acc r => if r.ok && r.ret < t && acc < r.gen then r.gen else acc) 1

/-- newest generation a reload called before `t` may have installed -/
def upperBound (rs : List SReload) (t : Nat) : Nat :=
  rs.foldl (fun acc r => if r.ok && r.call < t && acc < r.gen then r.gen else acc) 1

def requestLaw (rs : List SReload) (q : SRequest) : Option String :=
  match q.answer with
  | none => some "request-dropped"
  | some g =>
    if g < lowerBound rs q.start then some "answered-by-old-config-after-reload-returned"
    else if g > upperBound rs q.stop then some "answered-by-config-not-yet-loaded"
    else if g != 1 && !(rs.any fun r => r.ok && r.gen == g) then some "answered-by-failed-config"
    else none

def stormVerdict (rs : List SReload) (qs : List SRequest) : String :=
  match qs.findSome? (requestLaw rs) with
  | some e => s!"bad:{e}:"
  | none => "ok"

end Casket.ReloadSpec
