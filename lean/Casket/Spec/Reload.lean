import Casket.Model.Reload
namespace Casket.ReloadSpec
end Casket.ReloadSpec
