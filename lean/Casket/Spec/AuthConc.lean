import Casket.Model.AuthConc
/-
C03 under concurrency: however the requests in flight on one protected path interleave, a
request WITHOUT valid credentials is never served the protected content, and (the property's last
sentence) a request WITH valid credentials is.  "Valid" is a property of the request alone:
`ruleAccepts rule (user, password)`.

The observation is a tally over all requests of a concurrent phase.
-/
namespace Casket.AuthConcSpec
open Casket.Path Casket.Chain Casket.AuthConc

structure Obs where
  wrongServed : Nat     -- requests lacking valid credentials that were served
  validRefused : Nat    -- requests with valid credentials that got 401
deriving Repr, DecidableEq

def valid (rule : AuthRule) (c : Call) : Bool := ruleAccepts rule (some (c.user, c.pw))

/-- the decision serves a call that lacks valid credentials -/
def wrongServedP (rule : AuthRule) (calls : List Call) (d : Nat × Bool) : Bool :=
  match calls[d.1]? with
  | some c => d.2 && !valid rule c
  | none => d.2

/-- the decision refuses a call that has valid credentials -/
def validRefusedP (rule : AuthRule) (calls : List Call) (d : Nat × Bool) : Bool :=
  match calls[d.1]? with
  | some c => !d.2 && valid rule c
  | none => false

/-- tally of a list of (call number, authenticated?) decisions -/
def tally (rule : AuthRule) (calls : List Call) (ds : List (Nat × Bool)) : Obs :=
  { wrongServed := (ds.filter (wrongServedP rule calls)).length,
    validRefused := (ds.filter (validRefusedP rule calls)).length }

def verdict (o : Obs) : String :=
  if o.wrongServed ≠ 0 then
    "bad:disclosure-concurrent:a request without valid credentials was served the protected content while other requests were in flight on the same rule"
  else if o.validRefused ≠ 0 then
    "bad:valid-credentials-rejected-concurrent:a request with valid credentials got 401 while other requests were in flight on the same rule"
  else "ok"

end Casket.AuthConcSpec
