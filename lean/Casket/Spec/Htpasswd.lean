import Casket.Model.Htpasswd
/-
C03 for several sites with htpasswd files: a protected resource of a site is served only with
credentials that are valid FOR THAT SITE — the user of the site's rule with a password that the
site's own htpasswd file, as it was when the configuration was (re)loaded, accepts — and is served
whenever they are.  Which sites were loaded before, in which order, what other sites' files say and
what this file used to say must not matter.
-/
namespace Casket.HtpasswdSpec
open Casket.Path Casket.Htpasswd

def validFor (files : Files) (s : SiteCfg) (creds : Option (Bytes × Bytes)) : Bool :=
  match ownMatcher files s, creds with
  | some sec, some (u, pw) => decide (u = s.user) && sec.accepts pw
  | _, _ => false

/-- `files`, `served`: the files and sites of the last load -/
def verdict (files : Files) (served : List SiteCfg) (host path : Bytes) (creds : Option (Bytes × Bytes)) (obs : Answer) : String :=
  match served.find? (fun s => s.host = host), obs with
  | none, .noSite => "ok"
  | none, _ => "bad:wrong-site:an answer for a host no loaded site has"
  | some _, .noSite => "bad:wrong-site:the site was loaded but does not answer"
  | some s, .content root =>
    if root ≠ s.root then "bad:wrong-site:content of another site's root"
    else if pathMatches path (b! "/secret") && !validFor files s creds then
      "bad:disclosure-foreign-credentials:protected content served with credentials that are not valid for this site"
    else "ok"
  | some s, .unauthorized =>
    if !pathMatches path (b! "/secret") then "bad:unprotected-refused:401 for a path outside the protected scope"
    else if validFor files s creds then "bad:valid-credentials-rejected:401 although the site's own htpasswd file accepts the credentials"
    else "ok"

end Casket.HtpasswdSpec
