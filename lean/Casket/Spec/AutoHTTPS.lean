import Casket.Model.AutoHTTPSAddr
import Casket.Model.AutoHTTPSRedirect
/-
C15 as executable predicates — the judge the model driver applies to the IMPLEMENTATION's answers,
and what Props/C15.lean proves about the model.

The spec is written from the property text, not from the code: its own tables (internal-only
suffixes, private address ranges as numeric ranges, forbidden characters), its own reading of an
address text (`readAddr`), its own host classes.  It shares with the model only the library-level
functions `parseIP`, `to4`, `splitHostPort`, `toLower`, `unescapePath` (tied to Go by the streams).
Core Lean only.
-/
namespace Casket.AutoHTTPSSpec
open Casket.AutoHTTPS

/-! ## host classes -/

/-- internal-only name suffixes: .localhost .local .test .example .invalid of the property text, and .home.arpa (RFC 8375) -/
def internalSuffixes : List Bytes :=
  [b!".localhost", b!".local", b!".test", b!".example", b!".invalid", b!".home.arpa"]

/-- characters that cannot occur in a certificate subject (the list certmagic uses) -/
def forbiddenChars : Bytes := b!"()[]{}<> \t\n\"\\!@#$%^&|;'+="

/-- loopback address: 127.0.0.0/8 or ::1 (16-byte form) -/
def loopbackIP (ip : List UInt8) : Bool :=
  match to4 ip with
  | some v4 => v4.head? == some 127
  | none => ip == [0, 0, 0, 0, 0, 0, 0, 0, 0, 0, 0, 0, 0, 0, 0, 1]

/-- private address: 10/8, 172.16/12, 192.168/16, fc00::/7 — as numeric ranges -/
def privateIP (ip : List UInt8) : Bool :=
  match to4 ip with
  | some [a, b, _, _] => a == 10 || (a == 172 && 16 ≤ b && b ≤ 31) || (a == 192 && b == 168)
  | some _ => false
  | none => match ip.head? with
    | some x => ip.length == 16 && (x == 0xfc || x == 0xfd)
    | none => false

/-- a name that only resolves locally: localhost, or under an internal-only suffix (case-insensitive) -/
def internalName (h : Bytes) : Bool :=
  let x := toLower h
  x == b!"localhost" || internalSuffixes.any (hasSuffix x)

/-- wildcard rule: no '*' at all, or exactly one, as the whole left-most label, with at least three labels -/
def wildcardOK (h : Bytes) : Bool :=
  !hasByte h 42 || (countByte h 42 == 1 && hasPrefix h b!"*." && countByte h 46 ≥ 2)

/-- syntactically able to be a certificate subject -/
def certNameOK (h : Bytes) : Bool :=
  !allSpace h && !hasPrefix h b!"." && !hasSuffix h b!"." && !containsAny h forbiddenChars && wildcardOK h

inductive HostClass | empty | ip | internal | malformed | publicName
  deriving Repr, DecidableEq, Inhabited

def classify (h : Bytes) : HostClass :=
  if h.isEmpty then .empty
  else if (parseIP h).isSome then .ip
  else if internalName h then .internal
  else if !certNameOK h then .malformed
  else .publicName

/-- "a DNS name that can receive a public certificate" -/
def publicDNSName (h : Bytes) : Bool := classify h == .publicName

/-- a host (site host under on-demand TLS, or the `bind` host) that is loopback, private or internal-only:
brackets around an IPv6 literal are ignored, names compare case-insensitively; every textual form of an address in
127/8, ::1 or the private ranges counts; names: localhost, *.localhost and the four suffixes of the property text. -/
def localHost (h : Bytes) : Bool :=
  let x := trimCutset (toLower h) b!"[]"
  match parseIP x with
  | some ip => loopbackIP ip || privateIP ip
  | none => x == b!"localhost" || hasSuffix x b!".localhost" ||
            [b!".local", b!".test", b!".example", b!".invalid"].any (hasSuffix x)

/-! ## qualification -/

/-- what the tls directive says: managed TLS is not switched off (off / e-mail "off"), no own certificate
(manual, unless on-demand), not self-signed -/
def tlsAllowsManaged (c : Site) : Bool :=
  c.hasManager && c.email != b!"off" && !c.selfSigned && (!c.manual || c.onDemand)

/-- declared as plain HTTP: scheme http or port 80 -/
def declaredHTTP (P : Ports) (scheme port : Bytes) : Bool := scheme == b!"http" || port == P.http

/-- The site qualifies for managed HTTPS.  With on-demand TLS certificates are obtained during handshakes for
whatever name is asked, so the name itself need not be a public DNS name — it must still not be local. -/
def qualifies (P : Ports) (c : Site) : Bool :=
  (if c.onDemand then !localHost c.host else publicDNSName c.host) &&
  !localHost c.listen && !declaredHTTP P c.scheme c.port && tlsAllowsManaged c

/-- Hosts the qualification claim is made for — what standardizeAddress and Address.Normalize leave in Addr.Host:
lower case and without a port. -/
def hostInScope (h : Bytes) : Bool := h == toLower h && (splitHostPort h).isNone

/-- `bind` values the claim is made for: empty, or a host without port (a value with a port cannot be listened on). -/
def bindInScope (l : Bytes) : Bool := (splitHostPort l).isNone && (splitHostPort (toLower l)).isNone

def qualifyVerdict (P : Ports) (c : Site) (managed : Bool) : String :=
  if !hostInScope c.host || !bindInScope c.listen then "ok"
  else if qualifies P c && !managed then "bad:qualifies-but-unmanaged:the site qualifies for managed HTTPS but was not marked managed"
  else if !qualifies P c && managed then "bad:managed-but-unqualified:the site does not qualify for managed HTTPS but was marked managed"
  else "ok"

/-! ## reading an address text (spec level) -/

/-- `scheme://rest` → (scheme, rest); no "://" → ("", whole) -/
def splitScheme (a : Bytes) : Bytes × Bytes :=
  match indexSub a b!"://" 0 with
  | some i => (a.take i, a.drop (i + 3))
  | none => ([], a)

/-- `host:port`, `[v6]:port` → (host, port); otherwise the whole thing (brackets removed) and no port -/
def splitPort (hostport : Bytes) : Bytes × Bytes :=
  match splitHostPort hostport with
  | some (h, p) => (h, p)
  | none => (trimCutset hostport b!"[]", [])

/-- the service names http / https written as a port -/
def servicePort (p : Bytes) : Bytes := if p == b!"http" then b!"80" else if p == b!"https" then b!"443" else p

/-- scheme, host and port as written in a site address `[scheme://]host[:port][/path]`; IPv6 hosts in brackets
(or bare, when there is no port).  Lower-cased; the service names http/https count as 80/443; a missing port follows
from the scheme, a missing scheme from the port. -/
def readAddr (a : Bytes) : Bytes × Bytes × Bytes :=
  let sr := splitScheme (toLower a)
  let hp := splitPort (cutByte sr.2 47).1
  let port := servicePort hp.2
  let port := if !port.isEmpty then port else if sr.1 == b!"http" then b!"80" else if sr.1 == b!"https" then b!"443" else port
  let scheme := if !sr.1.isEmpty then sr.1 else if port == b!"80" then b!"http" else if port == b!"443" then b!"https" else sr.1
  (scheme, hp.1, port)

/-- `readAddr` with the configured HTTP / HTTPS ports: the service names and the scheme defaults mean those ports -/
def readAddrP (P : Ports) (a : Bytes) : Bytes × Bytes × Bytes :=
  let sr := splitScheme (toLower a)
  let hp := splitPort (cutByte sr.2 47).1
  let port := if hp.2 == b!"http" then P.http else if hp.2 == b!"https" then P.https else hp.2
  let port := if !port.isEmpty then port else if sr.1 == b!"http" then P.http else if sr.1 == b!"https" then P.https else port
  let scheme := if !sr.1.isEmpty then sr.1 else if port == P.http then b!"http" else if port == P.https then b!"https" else sr.1
  (scheme, hp.1, port)

/-- bytes of a host name as written in a site address: letters, digits, '-', '.', '_', '*' -/
def nameByteS (c : UInt8) : Bool := isAlpha c || isDigit c || c == 45 || c == 46 || c == 95 || c == 42

/-- the address text is exactly `[scheme://]host[:port]` with a scheme of letters, a host of name bytes (a name or an IPv4
literal) and a port of digits: taken apart and put together again it is the same text -/
def wellFormedAddr (a : Bytes) : Bool :=
  let sr := splitScheme a
  let hp := splitPort sr.2
  let hasPort := hasByte sr.2 58
  sr.1.all isAlpha && hp.1.all nameByteS && hp.2.all isDigit && (hasPort == !hp.2.isEmpty) &&
  a == (if sr.1.isEmpty then [] else sr.1 ++ b!"://") ++ hp.1 ++ (if hasPort then 58 :: hp.2 else [])

/-- The address-level part of the property ("declared with http:// or on the HTTP port"): what standardizeAddress + Normalize
made of a well-formed address — `none` = refused because scheme and port violate convention — against the spec's own reading
with the configured ports: a scheme-less address on the HTTP port IS an http address, on the HTTPS port an https address. -/
def addrVerdict (P : Ports) (a : Bytes) (observed : Option (Bytes × Bytes × Bytes)) : String :=
  if !wellFormedAddr a then "ok"
  else
    let (s, h, p) := readAddrP P a
    let conflict := (s == b!"http" && p == P.https) || (s == b!"https" && p == P.http)
    match observed with
    | none => if conflict then "ok" else "bad:address-refused:a well-formed address without scheme/port conflict was refused"
    | some o =>
      if conflict then "bad:address-conflict-accepted:scheme and port violate convention but the address was accepted"
      else if o == (s, h, p) then "ok"
      else "bad:address-reading:scheme, host or port differ from what the address says (configured HTTP/HTTPS ports)"

/-! ## which site an address text denotes (for the duplicate check of InspectServerBlocks) -/

/-- the path written in a site address (lower-cased, as paths are case-insensitive by default); "" if none -/
def readPath (a : Bytes) : Bytes :=
  let rest := (splitScheme (toLower a)).2
  match indexByte rest 47 with
  | some i => rest.drop i
  | none => []

/-- The site an address text denotes: scheme (http unless https is written or implied by port 443), host (IP literals in
canonical form), port (the default port 2015 if none is written or implied), path. -/
def denotes (a : Bytes) : Bytes × Bytes × Bytes × Bytes :=
  let (s, h, p) := readAddr a
  let h := canonHost h
  let p := if p.isEmpty then b!"2015" else p
  let s := if s.isEmpty then (if p == b!"443" then b!"https" else b!"http") else s
  (s, h, p, readPath a)

/-- spellings for which the "rejected ⇒ really the same site" direction is claimed: scheme none/http/https, host a name
or an IPv4 literal (for bracketed IPv6 literals Address.Key drops the port, see docs) -/
def spellingInScope (a : Bytes) : Bool :=
  let raw := (splitScheme (toLower a)).1
  (raw.isEmpty || raw == b!"http" || raw == b!"https") && !hasByte (readAddr a).2.1 58

/-- verdict on what InspectServerBlocks did with a list of address spellings: `accepted` = no duplicate error -/
def inspectVerdict (spellings : List Bytes) (accepted : Bool) : String :=
  let ds := spellings.map denotes
  if accepted then
    (if ds.Nodup then "ok" else "bad:duplicate-accepted:two spellings of the same site were both accepted")
  else
    (if !ds.Nodup || !spellings.all spellingInScope then "ok"
     else "bad:distinct-rejected:distinct sites were rejected as duplicates")

/-! ## reading the `tls` directives of a site block (spec level)

A site block may carry several `tls` directives (written one after the other, or spliced in from an imported snippet).
What the property text calls "its tls directive is off / manual / self-signed" is then read WITHOUT regard to order:
the site is off as soon as a directive says `off` (what is written after it does not count any more), it is manual as soon as
ANY directive that counts names a certificate (`tls cert key`, `tls { load dir }`), self-signed as soon as any says
`self_signed`; `no_redirect` and on-demand TLS likewise.  The e-mail is the last one written. -/

/-- the directives that count: up to and including the first `tls off` -/
def tlsRead : List TLSVariant → List TLSVariant
  | [] => []
  | v :: vs => if v.base == .off then [v] else v :: tlsRead vs

def tlsIsOff (v : TLSVariant) : Bool := v.base == .off
/-- a directive that really configures TLS (`none` stands for "no directive written") -/
def tlsActive (v : TLSVariant) : Bool := v.base != .none && v.base != .off
/-- the directive names the user's own certificate(s) -/
def tlsNamesCertificate (v : TLSVariant) : Bool := v.base == .manual || v.base == .load
def tlsSelfSigned (v : TLSVariant) : Bool := v.base == .selfSigned
/-- the single argument of the directive, which is stored as the ACME e-mail -/
def tlsEmailArg (v : TLSVariant) : Option Bytes :=
  match v.base with
  | .off => some b!"off"
  | .email => some testEmail
  | .selfSigned => some b!"self_signed"
  | _ => none

/-- the flags of a declared site as the spec reads them from the list of its `tls` directives -/
def readTLS (vs : List TLSVariant) (c : Site) : Site :=
  let r := tlsRead vs
  { c with
    enabled := if r.any tlsIsOff then false else if r.any tlsActive then true else c.enabled
    email := r.foldl (fun e v => (tlsEmailArg v).getD e) c.email
    manual := c.manual || r.any tlsNamesCertificate
    selfSigned := c.selfSigned || r.any tlsSelfSigned
    noRedirect := c.noRedirect || r.any (fun v => tlsActive v && v.noRedirect)
    onDemand := c.onDemand || r.any (fun v => tlsActive v && v.onDemand) }

/-! ## the site-set property -/

/-- what the judge knows about a declared site: from the INPUT the address text, bind and tls variant;
from the OBSERVED answer the Managed flag after marking and the final address and Enabled flag. -/
structure Observed where
  declared : Site            -- scheme/host/port as declared + flags of the tls variant
  managed : Bool
  ePort : Bytes              -- port after enableAutoHTTPS (what makePlaintextRedirects sees)
  fScheme : Bytes
  fHost : Bytes
  fPort : Bytes
  fEnabled : Bool
  deriving Repr, Inhabited

/-- a synthesised site as observed: final address, Enabled flag and the port its redirect sends clients to
(`none` = the Location does not have the expected shape at all) -/
structure ObservedRedirect where
  fHost : Bytes
  fPort : Bytes
  fEnabled : Bool
  target : Option Bytes      -- port of the Location ("" = none written, i.e. the HTTPS default)
  deriving Repr, Inhabited

def portSuffixOK (P : Ports) (target sitePort : Bytes) : Bool :=
  if sitePort == P.https then target.isEmpty else target == sitePort

/-- site `o` is served over HTTPS and wants a redirect -/
def obsWantsRedirect (o : Observed) : Bool := o.fEnabled && !o.declared.noRedirect

def hasPlainSite (P : Ports) (os : List Observed) (h : Bytes) : Bool := os.any fun o => o.fHost == h && o.fPort == P.http

/-! the single violations, as tests on one observed site / one observed redirect site -/

/-- P1 violated: in scope, and managed ≠ qualifies -/
def offQualify (P : Ports) (o : Observed) : Bool :=
  hostInScope o.declared.host && bindInScope o.declared.listen && qualifies P o.declared != o.managed
/-- P2a violated: marked managed but not served over TLS in the end -/
def offManagedTLS (o : Observed) : Bool := o.managed && !o.fEnabled
/-- P2b violated: declared as plain HTTP but TLS enabled in the end -/
def offHTTP (P : Ports) (o : Observed) : Bool := declaredHTTP P o.declared.scheme o.declared.port && o.fEnabled
/-- P3a violated: a synthesised site that is not a plain site on the HTTP port -/
def offPlain (P : Ports) (r : ObservedRedirect) : Bool := r.fEnabled || r.fPort != P.http
/-- the redirect of `r` goes to site `o`: same host, `o` served over HTTPS with no_redirect off, to `o`'s port -/
def targetsSite (P : Ports) (r : ObservedRedirect) (o : Observed) : Bool :=
  o.fHost == r.fHost && obsWantsRedirect o && match r.target with | some t => portSuffixOK P t o.fPort | none => false
/-- P4 violated for `o`: HTTPS site wanting a redirect, no plain site of its host on the HTTP port, no redirect site for its host -/
def offCover (P : Ports) (os : List Observed) (rs : List ObservedRedirect) (o : Observed) : Bool :=
  obsWantsRedirect o && !hasPlainSite P os o.fHost && !rs.any fun r => r.fHost == o.fHost

def sitesVerdict (P : Ports) (os : List Observed) (rs : List ObservedRedirect) : String :=
  -- P1 managed exactly when qualifying
  match os.find? (offQualify P) with
  | some o => if o.managed then "bad:managed-but-unqualified:" else "bad:qualifies-but-unmanaged:"
  | none =>
  -- P2 managed sites are really served over TLS; plain-HTTP declarations never are
  if os.any offManagedTLS then "bad:managed-without-tls:"
  else if os.any (offHTTP P) then "bad:http-site-with-tls:"
  -- P3 every synthesised site is a plain site on the HTTP port, for a host without plain site of its own, whose redirect
  --    goes to an HTTPS site of that host, to its port; at most one per host
  else if rs.any (offPlain P) then "bad:redirect-site-not-plain-http:"
  else if rs.any (fun r => hasPlainSite P os r.fHost) then "bad:redirect-shadows-plain-site:a redirect site was synthesised for a host that has its own site on the HTTP port"
  else if rs.any (fun r => !os.any (targetsSite P r))
    then "bad:redirect-target-not-https-site:a synthesised redirect does not point at an HTTPS site of its host (right port, TLS on, no_redirect off)"
  else if !(rs.map (·.fHost)).Nodup then "bad:duplicate-redirect-site:"
  -- P4 every HTTPS site (no_redirect off) without a plain site of its host on the HTTP port is covered by a redirect site
  else if os.any (offCover P os rs) then "bad:redirect-missing:an HTTPS site without plaintext site on the HTTP port has no redirect site"
  else "ok"

/-- what the model pipeline shows of a declared site `d` (the same fields the stream c15.sites reports) -/
def observeSite (P : Ports) (d : Site) : Observed :=
  let m := markOneP P d
  let e := enableOneP P m
  let f := defaultPortOne (makeServersOneP P e)
  { declared := d, managed := m.managed, ePort := e.port, fScheme := f.scheme, fHost := f.host, fPort := f.port, fEnabled := f.enabled }

/-- what the model pipeline shows of a synthesised site -/
def observeRedirect (r : Site) : ObservedRedirect :=
  { fHost := r.host, fPort := r.port, fEnabled := r.enabled, target := r.redir }

/-! ## the probe request sent to every synthesised site by stream c15.sites -/

def probeHost : Bytes := b!"probe.test"
def probeURI : Bytes := b!"/p?q=1"

/-- the port written in a Location of the form `https://probe.test[:port]/p?q=1` ("" = none written);
`none` = the Location does not have that form -/
def probeTarget (loc : Bytes) : Option Bytes :=
  let pre := b!"https://probe.test"
  if !hasPrefix loc pre then none
  else
    let rest := loc.drop pre.length
    if rest == probeURI then some []
    else if hasPrefix rest b!":" && hasSuffix rest probeURI then
      let p := (rest.drop 1).take (rest.length - 1 - probeURI.length)
      if p.all isDigit && !p.isEmpty then some p else none
    else none

/-! ## the redirect answer -/

/-- host part of a Host header: `name`, `name:port`, `[v6]`, `[v6]:port` → `name` / `[v6]` -/
def hostOnly (hdr : Bytes) : Bytes :=
  match splitHostPort hdr with
  | some (h, _) => if hasByte h 58 then b!"[" ++ h ++ b!"]" else h
  | none => hdr

/-- Host headers the redirect claim is made for: a name, or an IPv6 literal in brackets (something with a ':' inside),
optionally followed by a numeric port. -/
def hostHeaderInScope (hdr : Bytes) : Bool :=
  !hdr.isEmpty &&
  match splitHostPort hdr with
  | some (h, p) => !h.isEmpty && p.all isDigit && !hasByte h 91 && !hasByte h 93 && (hasByte h 58 || !hasPrefix hdr b!"[")
  | none => if hasPrefix hdr b!"[" then
              let inner := (hdr.drop 1).dropLast
              hasSuffix hdr b!"]" && hasByte inner 58 && !hasByte inner 91 && !hasByte inner 93
            else !hasByte hdr 58 && !hasByte hdr 91 && !hasByte hdr 93

/-- same path and query (`a` from the Location, `b` from the request): paths equal after %-decoding; the query byte for
byte, except that bytes ≥ 0x80 are %-escaped (a Location header is ASCII) -/
def sameURI (a b : Bytes) : Bool :=
  let (pa, qa, ha) := cutByte a 63
  let (pb, qb, hb) := cutByte b 63
  ha == hb && qa == hexEscapeNonASCII qb && (unescapePath pa).isSome && unescapePath pa == unescapePath pb

/-- The answer of a synthesised site to a request (Host header `hdr`, request target `target`), the site redirecting to
HTTPS port `port` ("" or 443 = default): status 301 and Location = https://<same host>[:port]<same path and query>. -/
def redirectVerdict (P : Ports) (port hdr target : Bytes) (status : Nat) (loc : Bytes) : String :=
  if !hostHeaderInScope hdr then "ok"
  else if status != 301 then "bad:redirect-status:not a permanent redirect"
  else
    let pre := hexEscapeNonASCII (b!"https://" ++ hostOnly hdr ++ (if port.isEmpty || port == P.https then [] else b!":" ++ port))
    if !hasPrefix loc pre then "bad:redirect-location:not https://<request host>[:port]…"
    else if target == b!"*" then (if loc.drop pre.length == b!"*" then "ok" else "bad:redirect-location:path")
    else if !sameURI (loc.drop pre.length) target then "bad:redirect-location:path or query differ from the request"
    else "ok"

end Casket.AutoHTTPSSpec
