import Casket.Model.Log
/-
C20, logging part, as an executable predicate over what was observed for ONE request:
the lines that appeared in each configured log and the response the client received.

For every `log` directive `i` of the server block (its own scope, its own `except` list):
  * request path in scope and not excepted  ⇒ exactly one line in log `i`,
  * otherwise                               ⇒ no line in log `i`;
and every line carries the status and the body size the client received.
The verdict classes name the way a directive was let down, so that the two behaviours recorded
as known findings can be told apart from anything new:
  shadowed-rule   a directive with another scope, written earlier, also matches (only the first
                  matching rule logs)
  panic-unlogged  the inner handler panicked (the server answers 500, no log line is written)
-/
namespace Casket.LogSpec
open Casket.Log

/-- does directive `d` ask for a line for this path? -/
def wants (m : PathB → PathB → Bool) (d : Directive) (path : PathB) : Bool :=
  m path d.scope && !(d.excepts.any fun exc => m path exc)

def countFor (lines : List Line) (i : Nat) : Nat := (lines.filter fun l => l.entry == i).length

/-- the scope of the first directive that matches the path, if any -/
def firstMatchingScope (m : PathB → PathB → Bool) (ds : List Directive) (path : PathB) : Option PathB :=
  (ds.find? fun d => m path d.scope).map (·.scope)

/-- directive `d` matches but a different scope, written earlier, matches too -/
def shadowed (m : PathB → PathB → Bool) (ds : List Directive) (d : Directive) (path : PathB) : Bool :=
  m path d.scope && firstMatchingScope m ds path != some d.scope

/-- verdict classes -/
inductive Verdict where
  | ok
  | duplicateLine
  | panicUnlogged
  | shadowedRule
  | missingLine
  | unwantedLine
  | statusMismatch
  | sizeMismatch
deriving DecidableEq, Repr

def Verdict.text : Verdict → String
  | .ok => "ok"
  | .duplicateLine => "bad:duplicate-line:more than one line for one request in one log"
  | .panicUnlogged => "bad:panic-unlogged:the handler panicked, the client got 500, no line was written"
  | .shadowedRule => "bad:shadowed-rule:an earlier log directive with another scope took the request"
  | .missingLine => "bad:missing-line:request in scope and not excepted, but no line"
  | .unwantedLine => "bad:unwanted-line:line written for a request out of scope or excepted"
  | .statusMismatch => "bad:status-mismatch:logged status differs from the status the client received"
  | .sizeMismatch => "bad:size-mismatch:logged size differs from the body bytes the client received"

/-- the two ways of failing that are recorded as known findings of the code -/
def Verdict.recorded : Verdict → Bool
  | .panicUnlogged => true
  | .shadowedRule => true
  | _ => false

/-- verdict for directive number `i` -/
def directiveVerdict (m : PathB → PathB → Bool) (ds : List Directive) (path : PathB) (panicked : Bool)
    (lines : List Line) (i : Nat) (d : Directive) : Verdict :=
  let n := countFor lines i
  if wants m d path then
    if n = 1 then .ok
    else if n > 1 then .duplicateLine
    else if panicked then .panicUnlogged
    else if shadowed m ds d path then .shadowedRule
    else .missingLine
  else if n = 0 then .ok
  else .unwantedLine

/-- `.ok` iff every verdict is `.ok`; otherwise a failing one, preferring a class that is not one
of the recorded findings so that a recorded failure never hides a new one in the same case -/
def firstBad (vs : List Verdict) : Verdict :=
  match vs.find? fun v => v != .ok && !v.recorded with
  | some v => v
  | none => (vs.find? fun v => v != .ok).getD .ok

def directivesVerdictGo (m : PathB → PathB → Bool) (ds : List Directive) (path : PathB) (panicked : Bool)
    (lines : List Line) : Nat → List Directive → List Verdict
  | _, [] => []
  | i, d :: rest => directiveVerdict m ds path panicked lines i d :: directivesVerdictGo m ds path panicked lines (i + 1) rest

/-- The property on one request. `panicked` is part of the case (the scripted handler), the
rest is observed. -/
def verdictClass (m : PathB → PathB → Bool) (ds : List Directive) (path : PathB) (panicked : Bool)
    (lines : List Line) (clientStatus clientSize : Nat) : Verdict :=
  let v := firstBad (directivesVerdictGo m ds path panicked lines 0 ds)
  if v ≠ .ok then v
  else if lines.any fun l => l.status != clientStatus then .statusMismatch
  else if lines.any fun l => l.size != clientSize then .sizeMismatch
  else .ok

def verdict (m : PathB → PathB → Bool) (ds : List Directive) (path : PathB) (panicked : Bool)
    (lines : List Line) (clientStatus clientSize : Nat) : String :=
  (verdictClass m ds path panicked lines clientStatus clientSize).text

end Casket.LogSpec
