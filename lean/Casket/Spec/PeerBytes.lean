import Casket.Model.Fault
/-
C19 as executable predicates over an observed outcome.

  * `totalVerdict r`  — the peer-facing parser produced a value (`r` is `.ok`), it did not panic.
  * `segVerdict split unsplit` — neither run panicked and what was recorded about the
    ClientHello when its bytes arrived in pieces equals what is recorded when they arrive at once.

The model driver applies them to the implementation's answers; Props/C19 proves the model's
answers always satisfy them.
-/
namespace Casket.PeerSpec
open Casket.Fault

def totalVerdict {α : Type} : R α → String
  | .ok _ => "ok"
  | .error f => "bad:panic:" ++ f.name

def segVerdict {α : Type} [DecidableEq α] : R α → R α → String
  | .ok a, .ok b =>
    if a = b then "ok" else "bad:segmentation:what is recorded depends on how the bytes were split across reads"
  | .error f, _ => "bad:panic:" ++ f.name
  | _, .error f => "bad:panic:" ++ f.name

end Casket.PeerSpec
