import Casket.Model.Policy
/-
The C05 selection property as an executable predicate over an observed choice:
  * a chosen backend is available                     (soundness)
  * if some backend is available, one is chosen       (completeness)
  * first picks the earliest, least_conn a least-loaded one
The same predicate is what the theorems in Props/C05 establish for the model.
-/
namespace Casket.PolicySpec
open Casket.Policy

def sound (p : Pool) (o : Option Nat) : Bool :=
  match o with
  | none => true
  | some i => availAt p i

def complete (p : Pool) (o : Option Nat) : Bool :=
  !(p.any Host.avail) || o.isSome

def connsAt (p : Pool) (i : Nat) : Nat := (p[i]?.map Host.conns).getD 0

def earliest (p : Pool) (o : Option Nat) : Bool :=
  match o with
  | none => true
  | some i => (List.range i).all fun j => !availAt p j

def leastLoaded (p : Pool) (o : Option Nat) : Bool :=
  match o with
  | none => true
  | some i => (List.range p.length).all fun j => !availAt p j || connsAt p i ≤ connsAt p j

def verdict (k : Kind) (p : Pool) (o : Option Nat) : String :=
  if !sound p o then "bad:unsound:chose an unavailable backend"
  else if !complete p o then "bad:incomplete:an available backend exists but none was chosen"
  else if k == .first && !earliest p o then "bad:first-not-earliest:"
  else if k == .leastConn && !leastLoaded p o then "bad:least-conn-not-minimal:"
  else "ok"

end Casket.PolicySpec
