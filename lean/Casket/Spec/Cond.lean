import Casket.Model.Cond
import Casket.Spec.FileServe
/-
C02 for conditional and range answers: a 304 / 206 / 416 / 200 answer of the static file server
identifies files through its ETag, Last-Modified, Content-Length, Content-Range and (partial)
body.  Every file so identified must be one the request is allowed to see — the named file, an
index page of it, or an accepted precompressed sibling; a regular file inside the root; not hidden.
-/
namespace Casket.CondSpec
open Casket.Path Casket.FS Casket.FileServe Casket.Cond Casket.FileServeSpec

/-- inodes an answer identifies -/
def mentioned : CondResp → List Nat
  | .plain _ => []
  | .notModified f => [f]
  | .full f _ d => [f, d]
  | .part f _ d _ _ => [f, d]
  | .unsatisfiable (some f) => [f]
  | .unsatisfiable none => []
  | .explored f d => [f, d]

def inoOk (fs : FS) (site : Site) (u : Url) (ae : Bytes) (ino : Nat) : Bool :=
  !hidden fs site ino && regularInRoot fs site ino && (allowedInos fs site u.path ae).contains ino

def verdict (fs : FS) (site : Site) (target ae : Bytes) (obs : CondResp) : String :=
  match obs with
  | .plain r => FileServeSpec.verdict fs site target ae r
  | _ =>
    match FileServeSpec.siteUrl site target with
    | none => "bad:cond-provenance:file metadata served for a request that names no resource of the site"
    | some u =>
      if (mentioned obs).all (inoOk fs site u ae) then "ok"
      else if (mentioned obs).any (hidden fs site) then "bad:cond-hidden:headers or partial body identify a hidden file"
      else "bad:cond-provenance:headers or partial body identify a file that is neither the named file, an index page of it, nor an accepted sibling"

end Casket.CondSpec
