import Casket.Model.VHost
/-
The C01 routing property as an executable specification, written without the trie:

  * a host spelling is normalised: ASCII lower case, one `:port` suffix dropped, the
    brackets of an IP literal dropped (`normHost`);
  * the host patterns that can serve a request host `h`, most specific first, are
    `h` itself, then `h` with its first 1, 2, … labels replaced by `*`, then the same
    for every catch-all / designated fallback host (`candidates`);
  * the FIRST candidate that some site declares is the chosen host pattern, and among
    the sites of exactly that pattern the one with the LONGEST path that is a prefix of
    the request path is the chosen site; if that host pattern has no such site the
    request is not served (no second try with a less specific host);
  * not served = 404, or 421 for HTTP/2 and later.

Declaration order enters in exactly one place, as a clause: plugin-designated fallback sites
(`FallbackSite`) are tried in the order they are declared; everything else depends on the set of
site addresses only (Props/C01: `C01_order_independent_given_fallback_order`).

`verdict` compares an observed outcome with this specification; it is what the
model driver applies to the implementation's answers, and Props/C01 proves that the
trie model always gets the verdict "ok".
-/
namespace Casket.VHostSpec
open Casket.VHost

/-- `normHost` on an already lower-cased spelling -/
def normLower (l : Bytes) : Bytes :=
  match l with
  | [] => []
  | c :: rest =>
    if c = cLbr then rest.takeWhile (· != cRbr)
    else if (c :: rest).count cColon = 1 then (c :: rest).takeWhile (· != cColon)
    else c :: rest

/-- host spelling ↦ host name: lower case, `[v6]…` ↦ `v6`, `name:port` ↦ `name`;
a bare IPv6 literal (two or more colons, no brackets) is left alone. -/
def normHost (s : Bytes) : Bytes := normLower (lower s)

/-- Host spellings for which the property is stated: no `/`; either no brackets at all,
or `[v]` / `[v]:port` with bracket-free `v` that is not itself of the form `name:port`
and a port free of `:`, `[`, `]`. -/
def wfHost (s : Bytes) : Bool :=
  !s.contains cSlash &&
  match s with
  | [] => true
  | c :: rest =>
    if c = cLbr then
      let v := rest.takeWhile (· != cRbr)
      !v.contains cLbr && v.count cColon != 1 &&
      match rest.dropWhile (· != cRbr) with
      | [] => false
      | _ :: after =>
        match after with
        | [] => true
        | d :: p => d = cColon && !p.contains cColon && !p.contains cLbr && !p.contains cRbr
    else !s.contains cLbr && !s.contains cRbr

structure Entry where
  host : Bytes
  path : Bytes
  idx : Nat
deriving Repr, DecidableEq

def keyHost (key : Bytes) : Bytes := key.takeWhile (· != cSlash)
def keyPath (key : Bytes) : Bytes := cSlash :: (key.dropWhile (· != cSlash)).drop 1

def entriesFrom : List Site → Nat → List Entry
  | [], _ => []
  | s :: rest, i => { host := normHost (keyHost (vhostOf s.key)), path := keyPath (vhostOf s.key), idx := i } :: entriesFrom rest (i + 1)

def entries (sites : List Site) : List Entry := entriesFrom sites 0

/-- catch-all hosts, in the order they are tried: `0.0.0.0`, `::`, the empty host -/
def catchAll : List Bytes := [[48, 46, 48, 46, 48, 46, 48], [58, 58], []]

def fallbacks (sites : List Site) : List Bytes :=
  catchAll ++ (sites.filter (·.fallback)).map (·.addrHost)

/-- host patterns able to serve host `h`, most specific first -/
def candidates (h : Bytes) (fbs : List Bytes) : List Bytes := (h :: fbs).flatMap hostCands

def declared (es : List Entry) (h : Bytes) : Bool := es.any (fun e => e.host == h)

/-- the non-empty prefixes of `p`, longest first -/
def prefixesDesc : Bytes → List Bytes
  | [] => []
  | c :: rest => (prefixesDesc rest).map (c :: ·) ++ [[c]]

/-- the site declared for exactly (host, path); with duplicate keys the later one
(duplicates are rejected before a server is built) -/
def lastWith (es : List Entry) (h k : Bytes) : Option Entry :=
  es.reverse.find? (fun e => e.host == h && e.path == k)

def specRoute (sites : List Site) (r : Req) : Outcome :=
  let es := entries sites
  match (candidates (normHost r.host) (fallbacks sites)).find? (declared es) with
  | none => .notFound (notFoundStatus r.protoMajor)
  | some c =>
    match (prefixesDesc r.path).findSome? (lastWith es c) with
    | none => .notFound (notFoundStatus r.protoMajor)
    | some e => .site e.idx e.path

/-- the address (host pattern, path) of the site `specRoute` chooses, without reference to
declaration positions -/
def chosenKey (sites : List Site) (r : Req) : Option (Bytes × Bytes) :=
  let es := entries sites
  match (candidates (normHost r.host) (fallbacks sites)).find? (declared es) with
  | none => none
  | some c =>
    ((prefixesDesc r.path).find? (fun k => es.any (fun e => e.host == c && e.path == k))).map (fun k => (c, k))

/-- `chosenKey` with the list of fallback hosts given: the only thing besides the SET of site
addresses that the choice depends on.  Clause of the specification: designated fallback hosts are
tried in the order their sites are declared ("among designated fallback sites the first declared
wins"); `fallbacks sites` is that order. -/
def chosenKeyWith (fbs : List Bytes) (sites : List Site) (r : Req) : Option (Bytes × Bytes) :=
  let es := entries sites
  match (candidates (normHost r.host) fbs).find? (declared es) with
  | none => none
  | some c =>
    ((prefixesDesc r.path).find? (fun k => es.any (fun e => e.host == c && e.path == k))).map (fun k => (c, k))

def isFallbackSite (sites : List Site) (i : Nat) : Bool :=
  match sites[i]? with
  | some s => s.fallback
  | none => false

/-- the domain of the property: well-formed host spellings, origin-form request path -/
def inDomain (sites : List Site) (r : Req) : Bool :=
  wfHost (lower r.host) && r.path.head? == some cSlash && sites.all (fun s => wfHost (lower (keyHost (vhostOf s.key))))

/-- `/.well-known/acme-challenge/` -/
def acmePrefix : Bytes := [47, 46, 119, 101, 108, 108, 45, 107, 110, 111, 119, 110, 47, 97, 99, 109, 101, 45, 99, 104, 97, 108, 108, 101, 110, 103, 101, 47]

def asciiOnly (s : Bytes) : Bool := s.all (· < 128)

/-- Where the property is judged on the implementation's answers: the domain of the refinement
theorem, and in addition
  * ASCII host spellings only — the model lower-cases ASCII letters, Go's `strings.ToLower` also maps
    non-ASCII letters (and replaces invalid UTF-8), so hosts with bytes ≥ 0x80 are outside the model.
    Only the HOST part of a site address is restricted: `splitHostPath` lower-cases nothing but the host,
    the path of a site address and the request path are compared byte by byte, so paths with multi-byte
    UTF-8 characters (`example.com/café`) are inside the judged domain;
  * not an ACME HTTP-challenge request: `serveHTTP` hands `/.well-known/acme-challenge/…` to the
    certificate issuer before (and instead of) the site's handlers; that interception is out of scope. -/
def judged (sites : List Site) (r : Req) : Bool :=
  inDomain sites r && asciiOnly r.host && sites.all (fun s => asciiOnly (keyHost (vhostOf s.key))) && !acmePrefix.isPrefixOf r.path

def verdict (sites : List Site) (r : Req) (o : Outcome) : String :=
  if !judged sites r then "ok"
  else
    match specRoute sites r, o with
    | .site i p, .site j q =>
      if i != j then
        if isFallbackSite sites i && isFallbackSite sites j then
          s!"bad:fallback-order:designated fallback site {j} ran although the earlier declared fallback site {i} matches"
        else s!"bad:wrong-site:site {j} ran, the most specific match is site {i}"
      else if p != q then "bad:wrong-prefix:the right site ran with another path prefix"
      else "ok"
    | .site i _, .notFound st => s!"bad:not-served:answered {st}, but site {i} matches"
    | .notFound _, .site j _ => s!"bad:served-unmatched:site {j} ran, but no site matches"
    | .notFound a, .notFound b =>
      if a != b then s!"bad:wrong-status:answered {b}, expected {a}" else "ok"

end Casket.VHostSpec
