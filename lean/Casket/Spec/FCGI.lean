import Casket.Model.FCGI
/-
C13 as executable predicates: the *reference decoder* — what a standard-conforming FastCGI
responder reads off the connection (FastCGI 1.0 §3.3 records, §3.4 name-value pairs, §6.2
Responder: one BeginRequest, the Params stream ended by an empty record, the Stdin stream
ended by an empty record) — and the verdicts built on it.

The decoder is written independently of the encoder in Model/FCGI (it shares only the
record-type numbers).  Props/C13 proves decoder ∘ encoder = identity; the model driver runs
the decoder on the bytes the real client wrote.
-/
namespace Casket.FCGISpec
open Casket.Fault Casket.FCGI

/-- one record off the wire: (type, request id, content) and the remaining bytes -/
def decodeRecord (w : Bytes) : Option (Rec × Bytes) :=
  match w with
  | ver :: typ :: idHi :: idLo :: clHi :: clLo :: pl :: _reserved :: rest =>
    let clen := clHi.toNat * 256 + clLo.toNat
    if ver ≠ 1 then none
    else if rest.length < clen + pl.toNat then none
    else some ({ typ := typ.toNat, id := idHi.toNat * 256 + idLo.toNat, content := rest.take clen },
               rest.drop (clen + pl.toNat))
  | _ => none

/-- records of type `t` for request `id` up to and including the first empty one:
the stream's bytes and what follows -/
def readStream (t id : Nat) : Nat → Bytes → Option (Bytes × Bytes)
  | 0, _ => none
  | fuel + 1, w =>
    match decodeRecord w with
    | none => none
    | some (rec, rest) =>
      if rec.typ ≠ t ∨ rec.id ≠ id then none
      else if rec.content.isEmpty then some ([], rest)
      else
        match readStream t id fuel rest with
        | none => none
        | some (s, rest') => some (rec.content ++ s, rest')

/-- a name or value length: one byte below 128, else four bytes with the top bit set -/
def decodeSize (s : Bytes) : Option (Nat × Bytes) :=
  match s with
  | [] => none
  | b :: rest =>
    if b.toNat < 128 then some (b.toNat, rest)
    else
      match rest with
      | b1 :: b2 :: b3 :: rest' =>
        some ((b.toNat - 128) * 16777216 + b1.toNat * 65536 + b2.toNat * 256 + b3.toNat, rest')
      | _ => none

def decodePairs : Nat → Bytes → Option (List Pair)
  | 0, _ => none
  | fuel + 1, s =>
    if s.isEmpty then some [] else
    match decodeSize s with
    | none => none
    | some (nl, s1) =>
      match decodeSize s1 with
      | none => none
      | some (vl, s2) =>
        if s2.length < nl + vl then none else
        match decodePairs fuel (s2.drop (nl + vl)) with
        | none => none
        | some ps => some ((s2.take nl, (s2.drop nl).take vl) :: ps)

/-- what the responder has received when the client is done writing -/
structure Received where
  id     : Nat
  role   : Nat
  flags  : Nat
  params : List Pair
  stdin  : Bytes
deriving Repr, DecidableEq

def received (wire : Bytes) : Option Received :=
  match decodeRecord wire with
  | none => none
  | some (b, r1) =>
    if b.typ ≠ typeBeginRequest then none else
    match b.content with
    | [roleHi, roleLo, flags, _, _, _, _, _] =>
      match readStream typeParams b.id (wire.length + 1) r1 with
      | none => none
      | some (ps, r2) =>
        match decodePairs (ps.length + 1) ps with
        | none => none
        | some pairs =>
          match readStream typeStdin b.id (wire.length + 1) r2 with
          | none => none
          | some (body, r3) =>
            if r3.isEmpty then
              some { id := b.id, role := roleHi.toNat * 256 + roleLo.toNat, flags := flags.toNat,
                     params := pairs, stdin := body }
            else none
    | _ => none

/-- a pair fits a single record the way `writePairs` counts: 8 + len(name) + len(value) ≤ 65500 -/
def fits (p : Pair) : Bool := 8 + p.1.length + p.2.length ≤ maxWrite

def count (p : Pair) (l : List Pair) : Nat := (l.filter (· == p)).length

/-- same pairs with the same multiplicities, in any order (a Go map has no order) -/
def samePairs (a b : List Pair) : Bool :=
  a.length == b.length && a.all fun p => count p a == count p b

/-- The property for the request direction, on the bytes observed on the wire:
a conforming responder decodes them; it gets request id and Responder role; the body is exactly
the request body; when every pair fits a record the parameters are exactly the given ones;
pairs that fit always arrive intact. -/
def wireVerdict (id : Nat) (pairs : List Pair) (body : Bytes) (wire : Bytes) : String :=
  match received wire with
  | none => "bad:malformed:a conforming responder cannot decode what the client wrote"
  | some r =>
    if r.id ≠ id || r.role ≠ roleResponder then "bad:begin:request id or role differ"
    else if r.stdin ≠ body then "bad:body:the responder does not receive exactly the request body"
    else if pairs.all fits then
      if samePairs r.params pairs then "ok"
      else "bad:params:the responder does not receive exactly the parameters"
    else if (pairs.filter fits).all (fun p => count p r.params == count p pairs) then "ok"
    else "bad:params:a parameter that fits a record does not arrive intact"

/-! ### response direction -/

/-- The property for the response direction: the responder meant to send the CGI response
`out` (header block, blank line, body) on stdout and `err` on stderr, framed in any way.  The
client must end up with exactly that status, those headers and that body, read to a clean end,
and with `err` — all of it, nothing else — in the error-log buffer. -/
def respVerdict (out err : Bytes) (observed : ViewResult) : String :=
  match parseResponse out with
  | .resp r =>
    match observed with
    | .view v =>
      if v.status ≠ r.status || v.statusText ≠ r.statusText then "bad:status:the client sees another status than the responder sent"
      else if v.headers ≠ sortHeaders r.headers then "bad:headers:the client sees other headers than the responder sent"
      else if v.body ≠ r.body then "bad:body:the client does not receive exactly the responder's body"
      else if v.stderr ≠ err then "bad:stderr:the error log does not hold exactly the responder's stderr"
      else if v.fin ≠ .eof then "bad:end:the response does not end cleanly"
      else "ok"
    | _ => "bad:response:the client got no response"
  | _ => "bad:case:intended response outside the modelled grammar"

/-! ### the io.Reader contract of the response stream -/

/-- empty data records (any type but stderr, no content) in the responder's bytes, as the
reference decoder sees them, up to EndRequest or the first record it cannot decode.  A conforming
responder sends exactly one: the empty stdout record that closes the stream. -/
def emptyDataRecords : Nat → Bytes → Nat
  | 0, _ => 0
  | f + 1, w =>
    match decodeRecord w with
    | none => 0
    | some (rec, rest) =>
      if rec.typ = typeEndRequest then 0
      else (if rec.typ != typeStderr && rec.content.isEmpty then 1 else 0) + emptyDataRecords f rest

/-- The property for single `Read` calls on the response stream: with a non-empty buffer a call
returns data or an error; it may return (0, nil) only when it has just taken an empty data record
off the connection.  So over a whole conversation the calls without progress are at most the empty
data records — however many stderr records the responder interleaves.  `zero…`: observed numbers of
(0, nil) returns when the connection delivers the bytes in pieces and at once; `same`: both
conversations delivered the same stdout, stderr and end. -/
def readsVerdict (raw : Bytes) (zeroSplit zeroWhole : Nat) (same : Bool) : String :=
  let allowed := emptyDataRecords (raw.length + 1) raw
  if zeroSplit > allowed || zeroWhole > allowed then
    "bad:no-progress:a Read with a non-empty buffer returned 0 bytes and no error without having consumed an empty data record"
  else if !same then "bad:segmentation:the stream read depends on how the connection delivered the bytes"
  else "ok"

/-! ### a connection that stops accepting writes -/

/-- the wire cut into the byte strings of its records (reference decoder); `none` if it is not a
sequence of whole records -/
def splitRecords : Nat → Bytes → Option (List Bytes)
  | 0, _ => none
  | f + 1, w =>
    if w.isEmpty then some [] else
    match decodeRecord w with
    | none => none
    | some (_, rest) =>
      match splitRecords f rest with
      | none => none
      | some rs => some (w.take (w.length - rest.length) :: rs)

/-- When the connection fails a `Write` and every later one, what it accepted before must be the
first records of the intended conversation, whole and in order — never part of a record, never
anything after the failure. `intended`: what `Do` writes on a healthy connection. -/
def brokenConnVerdict (intended accepted : Bytes) (failAt : Nat) : String :=
  match splitRecords (intended.length + 1) intended with
  | none => "bad:case:intended wire is not a record sequence"
  | some rs =>
    if accepted = (rs.take (failAt - 1)).flatten then "ok"
    else "bad:broken-conn:what a failing connection accepted is not the whole records written before the failure"

end Casket.FCGISpec
