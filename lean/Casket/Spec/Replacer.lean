import Casket.Model.Replacer
/-
C20, expansion part, as an executable predicate.

A log format denotes a sequence of segments that is fixed by the format text alone
(`parseFmt` never sees the request): literal text and placeholder keys.  The only correct
output for a request is the concatenation of the literals and of each key's value
(`render`): a value is inserted exactly as it is and nothing that was inserted is looked at
again.  `verdict` applies this to an observed output of the real `Replace`.

`parseFmt` states the brace/escape grammar the code implements (first unescaped `{`, first
unescaped `}` after it, `\{` `\}` unescaped in literals and keys, one leading backslash of a
literal in front of a placeholder dropped, an unpaired brace makes the rest literal).
-/
namespace Casket.ReplacerSpec
open Casket.Replacer

inductive Seg where
  | lit (b : Bytes)
  | ph (key : Bytes)
deriving DecidableEq, Repr

/-- segments of a format; `none` only when the fuel runs out (never: `Props/C20.lean`) -/
def parseGo : Nat → Bytes → Option (List Seg)
  | 0, _ => none
  | fuel + 1, s =>
    match splitUnesc lbr false s with
    | none => some [.lit (unescapeBraces s)]
    | some (pre, afterOpen) =>
      match splitUnesc rbr false afterOpen with
      | none => some [.lit (unescapeBraces s)]
      | some (inner, rest) =>
        match parseGo fuel rest with
        | none => none
        | some segs =>
          some (.lit (trimBsl (unescapeBraces pre)) :: .ph (unescapeBraces (lbr :: (inner ++ [rbr]))) :: segs)

def parseFmt (s : Bytes) : Option (List Seg) :=
  if hasBrace s then parseGo (s.length + 1) s else some [.lit s]

/-- value of one segment; `none` = the lookup panics -/
def segValue (σ : Env) : Seg → Option Bytes
  | .lit b => some b
  | .ph k => subst σ k

/-- concatenation of the segment values, left to right -/
def render (σ : Env) : List Seg → Except Fail Bytes
  | [] => .ok []
  | seg :: rest =>
    match segValue σ seg with
    | none => .error .panic
    | some v =>
      match render σ rest with
      | .ok out => .ok (v ++ out)
      | .error e => .error e

/-- what a single-pass expansion of `fmt` must produce -/
def expected (σ : Env) (fmt : Bytes) : Except Fail Bytes :=
  match parseFmt fmt with
  | none => .error .fuel
  | some segs => render σ segs

/-- the observed answer of an implementation: its output bytes, or a panic -/
inductive Observed where
  | out (b : Bytes)
  | panic
deriving DecidableEq, Repr

/-- how an answer of the model (or of the code) is observed -/
def observe : Except Fail Bytes → Observed
  | .ok b => .out b
  | .error _ => .panic

/-- expanding once more changes the text: some inserted value carries placeholder syntax -/
def reexpanded (σ : Env) (b : Bytes) : Option Bytes :=
  match replace σ b with
  | .ok b' => some b'
  | .error _ => none

def hasLineBreak (b : Bytes) : Bool := b.any fun x => x == 10 || x == 13

/-- the format's own literal text contains a line break (an operator may write a multi-line format) -/
def litsHaveLineBreak (fmt : Bytes) : Bool :=
  match parseFmt fmt with
  | none => true
  | some segs => segs.any fun s => match s with
    | .lit b => hasLineBreak b
    | .ph k => hasLineBreak k

/-- some text that net/http delivers undecoded (and therefore free of CR/LF on a real connection)
or that the operator controls nevertheless contains one -/
def pairHasLineBreak (o : Option (Bytes × Bytes)) : Bool :=
  match o with
  | some (a, b) => hasLineBreak a || hasLineBreak b
  | none => false

def hdrHasLineBreak (h : List (Bytes × List Bytes)) : Bool := h.any fun p => p.2.any hasLineBreak

/-- keys whose value is outside the model -/
def extKeys : List String := opaqueKeys ++ latencyKeys ++ tlsKeys ++ certKeys

def envHasLineBreak (σ : Env) : Bool :=
  hasLineBreak σ.empty || hdrHasLineBreak σ.reqHdr || hdrHasLineBreak (σ.respHdr.getD []) ||
  σ.cookies.any (fun p => hasLineBreak p.2) || σ.osEnv.any (fun p => hasLineBreak p.2) ||
  hasLineBreak σ.method || hasLineBreak σ.host || hasLineBreak σ.proto || hasLineBreak σ.remoteAddr ||
  pairHasLineBreak σ.hostSplit || pairHasLineBreak σ.remoteSplit ||
  hasLineBreak σ.origRawQuery || hasLineBreak σ.origURI || hasLineBreak σ.curURI || hasLineBreak σ.requestID ||
  extKeys.any fun k => hasLineBreak (σ.ext (asc k))

def verdict (σ : Env) (fmt : Bytes) (o : Observed) : String :=
  match o with
  | .panic => "bad:panic:Replace panicked"
  | .out b =>
    match expected σ fmt with
    | .error _ => "bad:spec-undefined:the single-pass rendering is undefined for this format"
    | .ok want =>
      if hasLineBreak b && !(litsHaveLineBreak fmt) && !(envHasLineBreak σ) then
        "bad:line-split:a value put a CR or LF into the output although neither the format nor any header, cookie or host text has one"
      else if b = want then "ok"
      else if some b = reexpanded σ want then "bad:rescanned:inserted request text was expanded again"
      else "bad:not-single-pass:output differs from literals ++ values"

end Casket.ReplacerSpec
