import Casket.Model.VHostStack
import Casket.Spec.VHost
/-
Judge of the full-stack C01 stream: what the loader must reject, and how the request must be
routed among the sites that share the listener.
-/
namespace Casket.VHostStackSpec
open Casket.VHost Casket.VHostStack

/-- the normalised site key of an address text (`standardizeAddress` → `Normalize` → `Key`) -/
def normKey (k : Casket.AutoHTTPS.Bytes) : Option Casket.AutoHTTPS.Bytes :=
  match Casket.AutoHTTPS.standardizeAddress k with
  | .ok a => some a.normalize.key
  | .error _ => none

/-- two of the addresses have the same normalised key -/
def hasDuplicateKey : List Casket.AutoHTTPS.Bytes → Bool
  | [] => false
  | k :: rest =>
    (match normKey k with
     | some x => rest.any (fun k' => normKey k' == some x)
     | none => false) || hasDuplicateKey rest

/-- two entries route identically (same host pattern and path): the later would shadow the earlier -/
def hasDuplicateRouteKey : List Casket.VHostSpec.Entry → Bool
  | [] => false
  | e :: rest => rest.any (fun e' => e'.host == e.host && e'.path == e.path) || hasDuplicateRouteKey rest

def indexIn (g : List (Casket.AutoHTTPS.Address × Nat)) (i : Nat) : Option Nat :=
  g.findIdx? (fun p => p.2 == i)

def verdict (addrs : List Casket.AutoHTTPS.Bytes) (port : Casket.AutoHTTPS.Bytes) (r : Req) (o : StackOutcome) : String :=
  if !addrs.all Casket.AutoHTTPS.inAddrDomain then "ok"
  else if hasDuplicateKey addrs then
    match o with
    | .loadError _ => "ok"
    | _ => "bad:duplicate-key-accepted:two site addresses with the same normalised key were accepted"
  else
    match o with
    | .loadError _ => "ok"
    | .noListener => "ok"
    | _ =>
      match Casket.AutoHTTPS.inspect addrs with
      | .error _ => "ok"
      | .ok as =>
        let g := groupOf as port 0
        let sites := g.map (fun p => siteOfAddr p.1)
        if hasDuplicateRouteKey (Casket.VHostSpec.entries sites) then
          "bad:duplicate-route-key:two accepted site addresses of one listener route identically, the later shadows the earlier"
        else
          match o with
          | .site i pfx =>
            match indexIn g i with
            | some j => Casket.VHostSpec.verdict sites r (.site j pfx)
            | none => "bad:foreign-site:a site of another listener served the request"
          | .notFound st => Casket.VHostSpec.verdict sites r (.notFound st)
          | _ => "ok"

end Casket.VHostStackSpec
