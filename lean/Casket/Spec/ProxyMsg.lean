import Casket.Model.ProxyMsg
import Casket.Model.Path
/-
C04 as an executable predicate over what was observed at the backend transport (request side)
and at the client (response side).  Everything is stated per header name, declaratively:

  request   value list of name k at the backend =
              rules( xff( if k is hop-by-hop or named in Connection then [] else client's list ) )
  response  value list of name k at the client  =
              merge with what the ResponseWriter already held
                ( rules( if k is hop-by-hop or named in Connection then [] else backend's list ) )

and method, body, Content-Length unchanged; path = base joined with exactly one slash to the
request path minus the `without` prefix; query = target query & request query; status and
trailers unchanged.  `Props/C04.lean` proves that the model's answers always satisfy these
predicates; the driver applies the same predicates to the implementation's answers.
-/
namespace Casket.ProxyMsgSpec
open Casket.ProxyMsg

/-- The names the proxy treats as hop-by-hop (the RFC 7230 §6.1 set, `Proxy-Connection`, and the two
alternative-service advertisements, which are specific to one connection too). -/
def specHop : List Str := [
  /- Alt-Svc -/ [65, 108, 116, 45, 83, 118, 99],
  /- Alternate-Protocol -/ [65, 108, 116, 101, 114, 110, 97, 116, 101, 45, 80, 114, 111, 116, 111, 99, 111, 108],
  /- Connection -/ [67, 111, 110, 110, 101, 99, 116, 105, 111, 110],
  /- Keep-Alive -/ [75, 101, 101, 112, 45, 65, 108, 105, 118, 101],
  /- Proxy-Authenticate -/ [80, 114, 111, 120, 121, 45, 65, 117, 116, 104, 101, 110, 116, 105, 99, 97, 116, 101],
  /- Proxy-Authorization -/ [80, 114, 111, 120, 121, 45, 65, 117, 116, 104, 111, 114, 105, 122, 97, 116, 105, 111, 110],
  /- Proxy-Connection -/ [80, 114, 111, 120, 121, 45, 67, 111, 110, 110, 101, 99, 116, 105, 111, 110],
  /- Te -/ [84, 101],
  /- Trailer -/ [84, 114, 97, 105, 108, 101, 114],
  /- Transfer-Encoding -/ [84, 114, 97, 110, 115, 102, 101, 114, 45, 69, 110, 99, 111, 100, 105, 110, 103],
  /- Upgrade -/ [85, 112, 103, 114, 97, 100, 101]]

/-- RFC 7230 §6.1 / RFC 2616 §13.5.1: must never be forwarded. -/
def rfcHop : List Str := [
  /- Connection -/ [67, 111, 110, 110, 101, 99, 116, 105, 111, 110],
  /- Keep-Alive -/ [75, 101, 101, 112, 45, 65, 108, 105, 118, 101],
  /- Proxy-Authenticate -/ [80, 114, 111, 120, 121, 45, 65, 117, 116, 104, 101, 110, 116, 105, 99, 97, 116, 101],
  /- Proxy-Authorization -/ [80, 114, 111, 120, 121, 45, 65, 117, 116, 104, 111, 114, 105, 122, 97, 116, 105, 111, 110],
  /- Te -/ [84, 101],
  /- Trailer -/ [84, 114, 97, 105, 108, 101, 114],
  /- Transfer-Encoding -/ [84, 114, 97, 110, 115, 102, 101, 114, 45, 69, 110, 99, 111, 100, 105, 110, 103],
  /- Upgrade -/ [85, 112, 103, 114, 97, 100, 101]]

/-- `skipHeaders`: a value the ResponseWriter already holds wins over the backend's. -/
def specSkip : List Str := [
  /- Content-Type -/ [67, 111, 110, 116, 101, 110, 116, 45, 84, 121, 112, 101],
  /- Content-Disposition -/ [67, 111, 110, 116, 101, 110, 116, 45, 68, 105, 115, 112, 111, 115, 105, 116, 105, 111, 110],
  /- Accept-Ranges -/ [65, 99, 99, 101, 112, 116, 45, 82, 97, 110, 103, 101, 115],
  /- Set-Cookie -/ [83, 101, 116, 45, 67, 111, 111, 107, 105, 101],
  /- Cache-Control -/ [67, 97, 99, 104, 101, 45, 67, 111, 110, 116, 114, 111, 108],
  /- Expires -/ [69, 120, 112, 105, 114, 101, 115]]

/-- is `k` hop-by-hop for this message: on the list, or named by one of its `Connection` lines -/
def isHop (hop : List Str) (h : Hdr) (k : Str) : Bool :=
  hop.contains k || ((connListed h).map canon).contains k

/-! ### header rules, per name -/

/-- the header a rule field acts on -/
def ruleTarget (field : Str) : Str :=
  match field with
  | c :: rest => if c == plus || c == minus then canon rest else canon field
  | [] => canon []

/-- what one rule makes of the value list of its target -/
def ruleOn (repl : Str → Str) (rule : Str × List Str) (old : List Str) : List Str :=
  let setLast :=
    match rule.2.getLast? with
    | some v => if repl v != [] then [repl v] else old
    | none => old
  match rule.1 with
  | c :: _ =>
    if c == plus then old ++ (rule.2.map repl).filter (fun v => v != [])
    else if c == minus then []
    else setLast
  | [] => setLast

/-- the value list of `k` after the rules: only the rule aimed at `k` matters -/
def ruleEffect (repl : Str → Str) (rules : Rules) (k : Str) (old : List Str) : List Str :=
  match rules.find? (fun r => ruleTarget r.1 == k) with
  | some r => ruleOn repl r old
  | none => old

def nodupB : List Str → Bool
  | [] => true
  | x :: xs => !xs.contains x && nodupB xs

/-- No two rules aim at the same header.  (Go iterates the rules map in random order; rules on
the same header do not commute, so such configurations have no single meaning.) -/
def nonInterfering (rules : Rules) : Bool := nodupB (rules.map fun r => ruleTarget r.1)

/-! ### request side -/

def dropTrailingSlash (a : Str) : Str := if endsWithSlash a then a.dropLast else a
def dropLeadingSlash (b : Str) : Str := if startsWithSlash b then b.drop 1 else b

/-- base and path joined by exactly one slash (an empty path adds nothing) -/
def joinOneSlash (a b : Str) : Str :=
  if b == [] then a else dropTrailingSlash a ++ [slash] ++ dropLeadingSlash b

def expectPath (t : URL) (without path : Str) : Str := joinOneSlash t.path (trimPrefix path without)

/-- the encoded path: absent when neither side has one, else the join of the escaped forms
(`EscapedPath()`: the RawPath when it still is an encoding of the Path, else the escaped Path) -/
def expectRawPath (t : URL) (without : Str) (u : URL) : Str :=
  let raw1 := if u.rawPath != [] then trimPrefix u.rawPath without else []
  if raw1 == [] && t.rawPath == [] then []
  else joinOneSlash (escapedOf t.path t.rawPath) (escapedOf (trimPrefix u.path without) raw1)

def expectQuery (t : URL) (q : Str) : Str :=
  if t.rawQuery == [] then q else if q == [] then t.rawQuery else t.rawQuery ++ [38] ++ q

/-- the header a replacement acts on -/
def replTargets (repls : Repls) : List Str := repls.map fun fr => canon fr.1

/-- no two replacement entries act on the same header (they are the keys of a Go map) -/
def replsDistinct (repls : Repls) : Bool := nodupB (replTargets repls)

/-- the value list of `k` after the replacements: the pairs configured for `k`, in order -/
def replEffect (repl : Str → Str) (repls : Repls) (k : Str) (old : List Str) : List Str :=
  match repls.find? (fun fr => canon fr.1 == k) with
  | some fr => fr.2.foldl (replOn repl) old
  | none => old

/-- upstream credentials: used only when the request has no Authorization value of its own -/
def credEffect (cred : Option Str) (k : Str) (old : List Str) : List Str :=
  match cred with
  | some c => if k == sAuthorization && old.headD [] == [] then [c] else old
  | none => old

def expectReqVals (hop : List Str) (repl : Str → Str) (u : Upstream) (r : Request) (k : Str) : List Str :=
  let s1 := if isHop hop r.header k then [] else r.header.vals k
  let s2 :=
    if k == sXFF then
      match splitHostPort r.remoteAddr with
      | some (ip, _) => [if s1 != [] then joinCommaSpace s1 ++ commaSpace ++ ip else ip]
      | none => s1
    else s1
  replEffect repl u.upRepls k (ruleEffect repl u.upRules k (credEffect u.cred k s2))

/-- `outreq.Host`: the backend's host, unless the rules produce a Host header (its last value wins) -/
def expectHost (hop : List Str) (repl : Str → Str) (u : Upstream) (r : Request) : Str :=
  match (expectReqVals hop repl u r sHost).getLast? with
  | some v => v
  | none => u.target.host

def bodyBytes : Option Str → Str
  | some b => b
  | none => []

def reqKeys (hop : List Str) (u : Upstream) (r o : Request) : List Str :=
  r.header.keys ++ o.header.keys ++ (u.upRules.map fun x => ruleTarget x.1) ++ [sXFF, sAuthorization] ++ hop
    ++ (connListed r.header).map canon ++ replTargets u.upRepls

def reqHeaderClass (hop : List Str) (u : Upstream) (r : Request) (k : Str) : String :=
  if isHop hop r.header k then "hop-leaked"
  else if (u.upRules.map fun x => ruleTarget x.1).contains k then "upstream-rule"
  else if (replTargets u.upRepls).contains k then "upstream-replacement"
  else if k == sAuthorization then "upstream-credentials"
  else if k == sXFF then "x-forwarded-for"
  else "end-to-end-header"

/-- the request-side property on an observed outgoing request `o` -/
def verdictReq (hop : List Str) (repl : Str → Str) (u : Upstream) (r o : Request) : String :=
  if o.method != r.method then "bad:method:changed"
  else if o.url.path != expectPath u.target u.without r.url.path then "bad:path:not base + (path minus without)"
  else if o.url.rawPath != expectRawPath u.target u.without r.url then "bad:rawpath:encoded path not the join of the encoded forms"
  else if o.url.rawQuery != expectQuery u.target r.url.rawQuery then "bad:query:changed"
  else if o.contentLength != r.contentLength then "bad:content-length:changed"
  else if bodyBytes o.body != bodyBytes r.body then "bad:body:changed"
  else if o.host != expectHost hop repl u r then "bad:host:Host sent to the backend is neither the backend's nor the configured one"
  else
    match (reqKeys hop u r o).find? (fun k => o.header.vals k != expectReqVals hop repl u r k) with
    | some k => "bad:" ++ reqHeaderClass hop u r k ++ ":" ++ String.ofList (k.map fun c => Char.ofNat c.toNat)
    | none => "ok"

/-! ### the encoded path names the same path as the decoded one -/

/-- `raw` is absent, or an encoding of `path` (net/url: `unescape(RawPath) = Path`) -/
def rawOK (path raw : Str) : Bool := raw == [] || Casket.Path.unescape false raw == some path

/-- what net/http and url.Parse guarantee about the URLs the proxy starts from -/
def inputsConsistent (t u : URL) : Bool := rawOK t.path t.rawPath && rawOK u.path u.rawPath

/-- the request path after `without` has been trimmed from Path and from RawPath (each on its own) -/
def trimmedPath (u : Upstream) (r : Request) : Str := trimPrefix r.url.path u.without
def trimmedRaw (u : Upstream) (r : Request) : Str :=
  if r.url.rawPath != [] then trimPrefix r.url.rawPath u.without else []

/-- At the joint between base path and request path the encoded forms have a slash exactly where
the decoded forms have one (no `%2F` right at the joint), and the encoded request part is empty
exactly when the decoded one is. -/
def jointAgree (u : Upstream) (r : Request) : Bool :=
  endsWithSlash (escapedOf u.target.path u.target.rawPath) == endsWithSlash u.target.path &&
  startsWithSlash (escapedOf (trimmedPath u r) (trimmedRaw u r)) == startsWithSlash (trimmedPath u r) &&
  ((escapedOf (trimmedPath u r) (trimmedRaw u r) == []) == (trimmedPath u r == []))

/-- Whenever the outgoing RawPath is set it must decode to the outgoing Path; otherwise net/url
discards it when the request is written and the client's spelling of the path (e.g. an escaped
slash) is lost although the configuration did not ask for that. -/
def verdictRawPath (u : Upstream) (r o : Request) : String :=
  if inputsConsistent u.target r.url && !rawOK o.url.path o.url.rawPath then
    if jointAgree u r then "bad:rawpath-inconsistent:the encoded path sent to the backend does not decode to the path"
    else "bad:rawpath-joint-escaped-slash:an escaped slash at the joint of base path and request path, the encoded path does not decode to the path"
  else "ok"

/-! ### response side -/

def sameMembers (a b : List Str) : Bool := a.all b.contains && b.all a.contains && a.length == b.length

def expectRespVals (hop skip : List Str) (repl : Str → Str) (down : Rules) (dr : Repls) (pre : Hdr) (res : Response) (k : Str) : List Str :=
  let s1 := if isHop hop res.header k then [] else res.header.vals k
  let s2 := replEffect repl dr k (ruleEffect repl down k s1)
  if pre.has k then
    if s2 == [] then pre.vals k
    else if skip.contains k then pre.vals k
    else if k == sServer then pre.vals k ++ s2
    else s2
  else s2

def respKeys (hop : List Str) (down : Rules) (dr : Repls) (pre : Hdr) (res : Response) (obs : Hdr) : List Str :=
  res.header.keys ++ obs.keys ++ pre.keys ++ (down.map fun x => ruleTarget x.1) ++ hop
    ++ (connListed res.header).map canon ++ replTargets dr

def respHeaderClass (hop : List Str) (down : Rules) (dr : Repls) (res : Response) (k : Str) : String :=
  if isHop hop res.header k then "hop-leaked"
  else if (down.map fun x => ruleTarget x.1).contains k then "downstream-rule"
  else if (replTargets dr).contains k then "downstream-replacement"
  else "end-to-end-header"

/-- status and header part of the response-side property -/
def verdictRespHead (hop skip : List Str) (repl : Str → Str) (down : Rules) (dr : Repls) (pre : Hdr) (res : Response)
    (status : Nat) (hdr : Hdr) : String :=
  if status != res.status then "bad:status:changed"
  else
    match (respKeys hop down dr pre res hdr).find? (fun k =>
        if k == sTrailer && res.announced.length > 0 then !sameMembers (hdr.vals k) res.announced
        else hdr.vals k != expectRespVals hop skip repl down dr pre res k) with
    | some k => "bad:" ++ respHeaderClass hop down dr res k ++ ":" ++ String.ofList (k.map fun c => Char.ofNat c.toNat)
    | none => "ok"

/-- trailer part: the client receives exactly the backend's trailers -/
def verdictRespTrailers (res : Response) (trailers : Hdr) : String :=
  match (res.trailer.keys ++ trailers.keys).find? (fun k => trailers.vals k != res.trailer.vals k) with
  | some k => "bad:trailer:" ++ String.ofList (k.map fun c => Char.ofNat c.toNat)
  | none => "ok"

/-- the response-side property on what the client observed: status, header map, trailers -/
def verdictResp (hop skip : List Str) (repl : Str → Str) (down : Rules) (dr : Repls) (pre : Hdr) (res : Response)
    (status : Nat) (hdr trailers : Hdr) : String :=
  let v := verdictRespHead hop skip repl down dr pre res status hdr
  if v != "ok" then v else verdictRespTrailers res trailers

end Casket.ProxyMsgSpec
