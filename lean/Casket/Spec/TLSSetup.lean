import Casket.Model.TLSSetup
/-
The documented meaning of the `tls` block, as a judge over the Config that `setupTLS` produced:

  * `protocols a b` (the last such line) yields min = a, max = b; `protocols a` yields min = max = a;
    a block that is silent about protocols gets the defaults TLS 1.2 … TLS 1.3
  * `clients request|require|verify_if_given|<CA files>` (the last such line) maps to
    RequestClientCert | RequireAnyClientCert | VerifyClientCertIfGiven | RequireAndVerifyClientCert with the
    CA files listed after the mode word (all arguments in the last form); silent: NoClientCert
  * a block silent about ciphers / curves gets the default lists; TLS_FALLBACK_SCSV always comes first
  * server cipher preference is on.

Judged for blocks in which the flag subdirectives stand alone on their lines (`plain`).
-/
namespace Casket.TLSSetupSpec
open Casket.TLSSetup Casket.TLSGroup
open Casket.VHost (Bytes lower)

/-- what a line says about the protocol range -/
def protoOf (l : Line) : Option (Nat × Nat) :=
  if l.name = kProtocols then
    match l.args with
    | [] => none
    | [a] => (lookup protocolTable (lower a)).map (fun v => (v, v))
    | a :: b :: _ =>
      match lookup protocolTable (lower a), lookup protocolTable (lower b) with
      | some v, some w => some (v, w)
      | _, _ => none
  else none

/-- what a line says about client certificates -/
def clientsOf (l : Line) : Option (Nat × List Bytes) :=
  if l.name = kClients then
    match clients l.args with
    | .ok p => some p
    | .error _ => none
  else none

def lastSome {α : Type} (f : Line → Option α) : List Line → Option α
  | [] => none
  | l :: rest =>
    match lastSome f rest with
    | some x => some x
    | none => f l

def mentions (name : Bytes) (block : List Line) : Bool := block.any (fun l => l.name == name)

def plain (block : List Line) : Bool := block.all (fun l => !isFlag l.name || l.args.isEmpty)

def verdict (aesni : Bool) (block : List Line) (o : Except SetupErr Final) : String :=
  if !plain block then "ok"
  else
    match o with
    | .error _ => "ok"
    | .ok f =>
      let c := f.cfg
      let wantProto := (lastSome protoOf block).getD (tls12, tls13)
      let wantClients := (lastSome clientsOf block).getD (0, [])
      if (c.minV, c.maxV) != wantProto then
        (if mentions kProtocols block then "bad:protocols-mapping:`protocols a b` must yield min = a, max = b"
         else "bad:default-protocols:a block silent about protocols must get TLS 1.2 .. TLS 1.3")
      else if (c.clientAuth, f.clientCerts) != wantClients then
        "bad:client-auth-mapping:the clients line does not map to the documented ClientAuth mode / CA list"
      else if c.ciphers.head? != some scsv then "bad:scsv-not-first:TLS_FALLBACK_SCSV is not the first cipher"
      else if !mentions kCiphers block && c.ciphers != scsv :: preferredDefaultCiphers aesni then
        "bad:default-ciphers:a block silent about ciphers must get the default list"
      else if !mentions kCurves block && c.curves != defaultCurves then
        "bad:default-curves:a block silent about curves must get the default list"
      else if !c.preferServer then "bad:prefer-server:server cipher preference must be on"
      else "ok"

end Casket.TLSSetupSpec
