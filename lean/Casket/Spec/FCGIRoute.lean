import Casket.Model.FCGIRoute
/-
C13, routing and environment part, as executable predicates.

  * `mustBeSent`: the request is for an existing regular file that carries the extension of a
    rule (in any letter case) under that rule's path and is not excepted.  Such a request must
    reach a responder (`routeVerdict`): it must never fall through to the static file server.
  * `envVerdict`: what the responder received — every request header as HTTP_* and no HTTP_*
    variable that is not a header of this request, script name and path info split at the split
    string, every configured env entry, exactly the body.
-/
namespace Casket.FCGIRouteSpec
open Casket.Fault Casket.FCGIRoute

def ruleCovers (cs : Bool) (fs : FS) (urlPath : Bytes) (rule : Rule) : Bool :=
  !rule.ext.isEmpty && pathMatches cs urlPath rule.path && allowedPath cs rule urlPath &&
  isFile fs urlPath && urlPath.getLast? != some slash &&
  hasSuffix (toLower urlPath) (toLower rule.ext)

def mustBeSent (cs : Bool) (fs : FS) (urlPath : Bytes) (rules : List Rule) : Bool :=
  rules.any (ruleCovers cs fs urlPath)

def routeVerdict (cs : Bool) (fs : FS) (urlPath : Bytes) (rules : List Rule) (o : Outcome) : String :=
  match o with
  | .sent _ _ => "ok"
  | .unmodelled => "ok"
  | _ =>
    if mustBeSent cs fs urlPath rules then
      "bad:static:an existing file with the rule's extension is not sent to the responder"
    else "ok"

def lookup (env : List (Bytes × Bytes)) (k : Bytes) : Option Bytes :=
  (env.find? (fun kv => kv.1 == k)).map (·.2)

/-- the CGI names two different headers are mapped to do not collide, nor with a configured entry,
and the configuration does not itself override DOCUMENT_URI / PATH_INFO -/
def distinct : List Bytes → Bool
  | [] => true
  | x :: xs => !xs.contains x && distinct xs

def noCollisions (r : Req) (rule : Rule) : Bool :=
  let names := r.headers.map (fun h => envName h.1)
  distinct names && rule.env.all (fun kv => !names.contains kv.1) &&
  distinct (rule.env.map (·.1)) &&
  rule.env.all (fun kv => kv.1 != bytes "DOCUMENT_URI" && kv.1 != bytes "PATH_INFO")

/-- the script paths the request can stand for: its path without trailing dots and spaces, or
an index file of the rule below it -/
def scriptCandidates (r : Req) (rule : Rule) : List Bytes :=
  let f := trimRightSpDot r.path
  f :: rule.index.map (join2 (if f.isEmpty then [slash] else f))

/-- a variable name this request may carry: anything outside the `HTTP_` namespace (which CGI reserves
for the request's header fields), `HTTP_HOST`, a configured entry, or the name of one of the
request's own headers -/
def ownVar (r : Req) (rule : Rule) (k : Bytes) : Bool :=
  !hasPrefix k (bytes "HTTP_") || k == bytes "HTTP_HOST" || rule.env.any (fun kv => kv.1 == k) ||
  r.headers.any (fun h => envName h.1 == k)

/-- what the responder received (`env`, `stdin`) for request `r` routed by `rule` -/
def envVerdict (cs : Bool) (r : Req) (rule : Rule) (env : List (Bytes × Bytes)) (stdin : Bytes) : String :=
  if !noCollisions r rule then "ok" else
  if !r.headers.all (fun h => lookup env (envName h.1) == some (joinComma h.2)) then
    "bad:headers:a request header does not arrive as HTTP_*"
  else if !env.all (fun kv => ownVar r rule kv.1) then
    "bad:headers:the responder receives an HTTP_* variable that no header of this request stands for"
  else if !rule.env.all (fun kv => lookup env kv.1 == some kv.2 ||
      [bytes "REQUEST_METHOD", bytes "CONTENT_LENGTH", bytes "CONTENT_TYPE"].contains kv.1) then
    "bad:env:a configured env entry does not arrive"
  else
    match lookup env (bytes "DOCUMENT_URI"), lookup env (bytes "PATH_INFO") with
    | some doc, some info =>
      if !(scriptCandidates r rule).contains (doc ++ info) then
        "bad:split:script name and path info do not add up to the requested path"
      else if (splitPos cs rule (doc ++ info)).map (· + rule.split.length) != some doc.length then
        "bad:split:the path is not split at the first occurrence of the split string"
      else if stdin ≠ r.body then "bad:body:the responder does not receive exactly the request body"
      else "ok"
    | _, _ => "bad:split:DOCUMENT_URI or PATH_INFO missing"

end Casket.FCGIRouteSpec
