import Casket.Model.Middleware
/-
The C12 property as an executable predicate over what the connection-level ResponseWriter
observed for ONE request (`Resp`), given what the innermost handler did (`Inner`) and the
`errors` configuration of the site:

  * handler returned an error status without writing  ⇒ exactly one header commit, that status,
    and an error body: the configured page if one is configured for the status, otherwise the
    default text (or the debug text under `errors visible` when an error value came with it);
  * handler wrote a response ⇒ exactly one commit, its status, its body and nothing else
    (the body may be gzip-coded as a whole: "configured encoding change"; a template body arrives
    rendered when `templates` applies, and a template that fails is a 500 error response);
  * well-formed: a Content-Length committed with the header describes exactly the body sent;
  * handler panicked before writing ⇒ exactly one commit, 500, an error body;
  * handler panicked after it started writing ⇒ the status it wrote and its bytes come first
    (a further commit attempt is tolerated here, and only here) — unless a buffering wrapper
    still held them, in which case the client sees the panic-before-writing response;
  * nothing written, status < 400 ⇒ at most one commit and an empty body (net/http sends 200).
The follow-up request ("the server keeps serving") is judged by the driver from the stream's
answer.
-/
namespace Casket.MwSpec
open Casket.Mw

def chunks (r : Resp) : List Chunk := r.body.map (·.1)

/-- the whole body went through the same coding -/
def uniformEnc (r : Resp) : Bool :=
  match r.body with
  | [] => true
  | (_, e) :: rest => rest.all (fun x => x.2 == e)

/-- acceptable error bodies for status `s` -/
def errorBodyOK (m : Option ErrMode) (s : Nat) (withErr : Bool) (c : Chunk) : Bool :=
  if m = some .page404 ∧ s = 404 then c == .custom 404
  else c == .errText s || (m == some .visible && withErr && c == .debugErr)

def panicBodyOK (m : Option ErrMode) (c : Chunk) : Bool :=
  if m = some .visible then c == .debugPanic else c == .errText 500

def oneChunk (p : Chunk → Bool) : List Chunk → Bool
  | [c] => p c
  | _ => false

def firstChunkIs (c : Chunk) : List Chunk → Bool
  | x :: _ => x == c
  | [] => false

/-- what a written response must look like at the client.  `tpl`: the request is rendered by
`templates` (directive present and template extension).  Rendering is the one configured content
change: a body that is a template arrives rendered; a template that does not parse or fails while
executing makes `templates` report 500 without writing, which must then be a proper error response. -/
def writtenOK (tpl : Bool) (m : Option ErrMode) (s : Option Nat) (b : Bytes) (e : Bool) (k : BodyKind)
    (r : Resp) : Bool :=
  if tpl && !e then
    match k with
    | .plain => r.status == statusOf s && chunks r == [.inner b]
    | .tplOK => r.status == statusOf s && chunks r == [.rendered b]
    | .tplParse => r.status == 500 && oneChunk (errorBodyOK m 500 true) (chunks r)
    | .tplExec => r.status == 500 && oneChunk (errorBodyOK m 500 true) (chunks r)
  else r.status == statusOf s && chunks r == [.inner b]

/-- the property for one request (without the well-formedness of Content-Length) -/
def goodCore (tpl : Bool) (m : Option ErrMode) (i : Inner) (r : Resp) : Bool :=
  match i with
  | .ret s e =>
    if s ≥ 400 then r.commits == 1 && r.status == s && oneChunk (errorBodyOK m s e) (chunks r)
    else decide (r.commits ≤ 1) && (r.status == 0 || r.status == 200) && (chunks r).isEmpty
  | .write s b e k _ => r.commits == 1 && writtenOK tpl m s b e k r
  | .panicBefore => r.commits == 1 && r.status == 500 && oneChunk (panicBodyOK m) (chunks r)
  | .panicAfter s b =>
    -- either the bytes had reached the client (status and bytes first; a further commit attempt
    -- is tolerated), or they were still buffered by a wrapper and the client sees a panic before
    -- anything was written
    (r.commits == 1 && r.status == 500 && oneChunk (panicBodyOK m) (chunks r)) ||
    (r.commits != 0 && r.status == statusOf s && firstChunkIs (.inner b) (chunks r))

/-- … and the response is well formed: a declared Content-Length describes exactly the body sent -/
def good (tpl : Bool) (m : Option ErrMode) (i : Inner) (r : Resp) : Bool := goodCore tpl m i r && clOK r

/-- which clause failed (only consulted when `good` is false) -/
def diagnose (i : Inner) (r : Resp) : String :=
  if !clOK r then "bad:content-length:the declared Content-Length does not describe the body sent"
  else
  match i with
  | .ret s _ =>
    if s ≥ 400 then
      if r.commits != 1 then "bad:commits:error response not committed exactly once"
      else if r.status != s then "bad:status:client did not receive the reported error status"
      else "bad:error-body:wrong or missing error body for the status"
    else
      if r.commits > 1 then "bad:commits:more than one header commit"
      else if !(chunks r).isEmpty then "bad:body:body invented"
      else "bad:status:status invented"
  | .write _ _ _ _ _ =>
    if r.commits != 1 then "bad:commits:written response not committed exactly once"
    else "bad:body:written status or body altered (beyond rendering by templates)"
  | .panicBefore =>
    if r.commits != 1 then "bad:commits:panic response not committed exactly once"
    else if r.status != 500 then "bad:status:panic before writing did not give 500"
    else "bad:error-body:wrong or missing body after a panic"
  | .panicAfter s _ =>
    if r.commits = 0 then "bad:commits:nothing committed"
    else if r.status != statusOf s then "bad:status:written status altered"
    else "bad:body:written bytes do not come first"

/-- the commit and status clauses of `goodCore`, without the body -/
def statusOK (tpl : Bool) (m : Option ErrMode) (i : Inner) (r : Resp) : Bool :=
  match i with
  | .ret s _ =>
    if s ≥ 400 then r.commits == 1 && r.status == s
    else decide (r.commits ≤ 1) && (r.status == 0 || r.status == 200)
  | .write s _ e k _ =>
    r.commits == 1 &&
      (if tpl && !e && (k == .tplParse || k == .tplExec) then r.status == 500 else r.status == statusOf s)
  | .panicBefore => r.commits == 1 && r.status == 500
  | .panicAfter s _ => (r.commits == 1 && r.status == 500) || (r.commits != 0 && r.status == statusOf s)

/-- the property for what is on the wire: for a HEAD request and for the statuses 204 and 304
net/http sends no body, so what remains is: committed once, the right status, no body, no
Content-Length on 204/304; otherwise `good`. -/
def goodWire (head : Bool) (tpl : Bool) (m : Option ErrMode) (i : Inner) (r : Resp) : Bool :=
  if bodiless head r.status then
    statusOK tpl m i r && r.body.isEmpty && (!(r.status == 204 || r.status == 304) || r.cl.isNone)
  else good tpl m i r

def verdict (head : Bool) (tpl : Bool) (m : Option ErrMode) (i : Inner) (r : Resp) : String :=
  if goodWire head tpl m i r then "ok"
  else if bodiless head r.status then
    (if !r.body.isEmpty then "bad:body:a response that must not have a body carries one"
     else if !statusOK tpl m i r then "bad:status:wrong status or not committed exactly once (bodiless response)"
     else "bad:content-length:Content-Length on a 204/304")
  else diagnose i r

/-- handlers the property quantifies over: an error value without a status (0, err) is only
returned by a handler that has written; a non-error status comes without an error value -/
def Inner.ok : Inner → Bool
  | .ret s e => s ≥ 400 || (!e && (s = 0 || s ≥ 100))
  | .write s _ _ _ _ => match s with
    | some c => c ≥ 100
    | none => true
  | .panicBefore => true
  | .panicAfter s _ => match s with
    | some c => c ≥ 100
    | none => true

end Casket.MwSpec
