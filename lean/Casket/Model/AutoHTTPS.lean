import Casket.Model.AutoHTTPSNet
import Casket.Generated.AutoHTTPS
/-
Model of casket's automatic-HTTPS decision logic, as the code is:

  casket.go                          IsLoopback, IsInternal
  certmagic (module cache)           SubjectQualifiesForCert, SubjectIsInternal, SubjectIsIP, SubjectQualifiesForPublicCert
  caskettls/tls.go                   QualifiesForManagedTLS
  caskettls/setup.go                 setupTLS — only the flags C15 talks about (Enabled, Manual, SelfSigned, NoRedirect, ACMEEmail, on-demand)
  caskethttp/httpserver/https.go     markQualifiedForAutoHTTPS, enableAutoHTTPS, makePlaintextRedirects, hostHasOtherPort, redirPlaintextHost
  caskethttp/httpserver/plugin.go    MakeServers (TLS-off rule, scheme/port defaults), groupSiteConfigsByListenAddr (default port)

The tables and constants come from Casket/Generated/AutoHTTPS.lean (regenerated from the sources on every run).
Core Lean only.
-/
namespace Casket.AutoHTTPS
open Casket.Generated

/-! ## casket.IsLoopback / casket.IsInternal -/

/-- casket.IsLoopback: the address is lower-cased, a port and the brackets of an IPv6 literal are dropped;
IP literals are decided by value (net.IP.IsLoopback), names by `localhost` / `.localhost`. -/
def isLoopback (addr : Bytes) : Bool :=
  let addr := toLower addr
  let host := match splitHostPort addr with
    | some (h, _) => h
    | none => addr
  let host := trimCutset host loopbackTrimCutset
  match parseIP host with
  | some ip => ipIsLoopback ip
  | none => host == loopbackName || hasSuffix host loopbackSuffix

/-- casket.IsInternal -/
def isInternal (addr : Bytes) : Bool :=
  let host := match splitHostPort addr with
    | some (h, _) => h
    | none => trimCutset addr internalTrimCutset
  let host := toLower host
  privateTLDs.any (hasSuffix host) ||
    match parseIP host with
    | none => false
    | some ip => privateNetworks.any fun n => netContains n ip

/-! ## certmagic -/

def isAsciiSpace (c : UInt8) : Bool := c == 9 || c == 10 || c == 11 || c == 12 || c == 13 || c == 32

/-- `strings.TrimSpace(s) == ""`: s consists of white space only (ASCII white space and the UTF-8 encodings of
U+0085, U+00A0, U+1680, U+2000–U+200A, U+2028, U+2029, U+202F, U+205F, U+3000, i.e. unicode.IsSpace). -/
def allSpace : Bytes → Bool
  | [] => true
  | 0xC2 :: 0x85 :: t => allSpace t
  | 0xC2 :: 0xA0 :: t => allSpace t
  | 0xE1 :: 0x9A :: 0x80 :: t => allSpace t
  | 0xE2 :: 0x80 :: c :: t => ((0x80 ≤ c && c ≤ 0x8A) || c == 0xA8 || c == 0xA9 || c == 0xAF) && allSpace t
  | 0xE2 :: 0x81 :: 0x9F :: t => allSpace t
  | 0xE3 :: 0x80 :: 0x80 :: t => allSpace t
  | c :: t => isAsciiSpace c && allSpace t

/-- certmagic.SubjectQualifiesForCert -/
def subjectQualifiesForCert (subj : Bytes) : Bool :=
  !allSpace subj &&
  !hasPrefix subj b!"." && !hasSuffix subj b!"." &&
  (!hasByte subj 42 || hasPrefix subj b!"*." || subj == b!"*") &&
  !containsAny subj certForbiddenChars

/-- certmagic.SubjectIsInternal -/
def subjectIsInternal (subj : Bytes) : Bool :=
  certInternalNames.contains subj || certInternalSuffixes.any (hasSuffix subj)

/-- certmagic.SubjectIsIP -/
def subjectIsIP (subj : Bytes) : Bool := (parseIP subj).isSome

/-- certmagic.SubjectQualifiesForPublicCert -/
def subjectQualifiesForPublicCert (subj : Bytes) : Bool :=
  subjectQualifiesForCert subj && !subjectIsInternal subj && !subjectIsIP subj &&
  (!hasByte subj 42 ||
    (countByte subj 42 == 1 && countByte subj 46 > 1 && subj.length > 2 && hasPrefix subj b!"*."))

/-! ## site configurations -/

/-- The part of a `SiteConfig` C15 talks about. `redir = some p` marks a site synthesised by
`redirPlaintextHost`, `p` being the `redirPort` captured by its handler. -/
structure Site where
  scheme : Bytes := []
  host : Bytes := []
  port : Bytes := []
  listen : Bytes := []
  enabled : Bool := false
  managed : Bool := false
  manual : Bool := false
  selfSigned : Bool := false
  noRedirect : Bool := false
  onDemand : Bool := false
  hasManager : Bool := true
  email : Bytes := []
  redir : Option Bytes := none
  deriving Repr, DecidableEq, Inhabited

/-- The configured HTTP and HTTPS ports: strconv.Itoa(certmagic.HTTPPort) and strconv.Itoa(certmagic.HTTPSPort), which the
flags -http-port / -https-port move.  Every function below whose Go original reads them takes them as parameter `P`
(suffix `P`); the function without suffix is the same at the default ports `Ports.std` (regenerated: 80 / 443). -/
structure Ports where
  http : Bytes
  https : Bytes
  deriving Repr, DecidableEq, Inhabited

/-- certmagic's defaults (regenerated from its source) -/
def Ports.std : Ports := { http := httpPort, https := httpsPort }

@[simp] theorem Ports.std_http : Ports.std.http = httpPort := rfl
@[simp] theorem Ports.std_https : Ports.std.https = httpsPort := rfl

/-- caskettls.QualifiesForManagedTLS (for a non-nil config holder with a non-nil TLS config): the port must not be the
configured HTTP port -/
def qualifiesForManagedTLSP (P : Ports) (c : Site) : Bool :=
  c.hasManager &&
  ((!c.manual || c.onDemand) && !c.selfSigned && c.port != P.http && c.email != unmanagedEmail &&
    (subjectQualifiesForPublicCert c.host || c.onDemand))

/-- the condition of markQualifiedForAutoHTTPS -/
def qualifiesP (P : Ports) (c : Site) : Bool :=
  !isLoopback c.host && !isLoopback c.listen && !isInternal c.host && !isInternal c.listen &&
  qualifiesForManagedTLSP P c && c.scheme != b!"http"

def markOneP (P : Ports) (c : Site) : Site := if qualifiesP P c then { c with managed := true } else c

/-- markQualifiedForAutoHTTPS -/
def markQualifiedP (P : Ports) (cs : List Site) : List Site := cs.map (markOneP P)

/-- one iteration of enableAutoHTTPS(configs, false): a managed, not on-demand site gets TLS enabled, scheme https and,
if it has no port (and is not manual, and is not `localhost`), the HTTPS port -/
def enableOneP (P : Ports) (c : Site) : Site :=
  if !c.managed || !c.hasManager || c.onDemand then c
  else
    { c with enabled := true, scheme := b!"https",
             port := if c.port.isEmpty && (!c.manual || c.onDemand) && c.host != b!"localhost" then P.https else c.port }

def enableAutoHTTPSP (P : Ports) (cs : List Site) : List Site := cs.map (enableOneP P)

/-- hostHasOtherPort(allConfigs, thisConfigIdx, otherPort); `none` = index out of range (the Go code would panic) -/
def hostHasOtherPort (all : List Site) (idx : Nat) (other : Bytes) : Option Bool :=
  match all[idx]? with
  | none => none
  | some this =>
    some ((List.range all.length).any fun i =>
      i != idx && match all[i]? with
        | some o => o.host == this.host && o.port == other
        | none => false)

/-- what the redirect handler captures for an HTTPS site served on `port`: the HTTPS port is not written into URLs -/
def capturedPortP (P : Ports) (port : Bytes) : Bytes := if port == P.https then [] else port

/-- redirPlaintextHost: the plaintext site (on the HTTP port) that redirects to `c`.  The captured `redirPort` is the port `c`
will be served on: its explicit port, else the default port when `c` brings its own or a self-signed certificate and is not
on-demand (MakeServers leaves such a site on the default port), else empty; the HTTPS port is written as empty. -/
def redirPlaintextHostP (P : Ports) (c : Site) : Site :=
  let rp := if c.port.isEmpty && (c.manual || c.selfSigned) && !(c.hasManager && c.onDemand) then defaultPort else c.port
  { host := c.host, port := P.http, listen := c.listen, hasManager := c.hasManager,
    redir := some (capturedPortP P rp) }

/-- what makePlaintextRedirects requires of a site by itself: TLS on, no_redirect off, not declared as plain HTTP -/
def wantsRedirectP (P : Ports) (c : Site) : Bool :=
  c.enabled && !c.noRedirect && c.scheme != b!"http" && c.port != P.http

/-- hostHasRedirectingSiteOnPort: like hostHasOtherPort, but the other site must want a redirect itself -/
def hostHasRedirectingSiteOnPortP (P : Ports) (all : List Site) (idx : Nat) (other : Bytes) : Option Bool :=
  match all[idx]? with
  | none => none
  | some this =>
    some ((List.range all.length).any fun i =>
      i != idx && match all[i]? with
        | some o => o.host == this.host && o.port == other && wantsRedirectP P o
        | none => false)

/-- the loop of makePlaintextRedirects: `i` runs over the ORIGINAL configs (`todo`), while
hostHasOtherPort looks at the list as grown so far (`all`) — the append-while-ranging behaviour of the Go code. -/
def redirectsGoP (P : Ports) : List Site → Nat → List Site → List Site
  | [], _, all => all
  | c :: todo, i, all =>
    let want := wantsRedirectP P c &&
      hostHasOtherPort all i P.http == some false &&
      (c.port == P.https || hostHasRedirectingSiteOnPortP P all i P.https == some false)
    redirectsGoP P todo (i + 1) (if want then all ++ [redirPlaintextHostP P c] else all)

/-- makePlaintextRedirects -/
def makePlaintextRedirectsP (P : Ports) (cs : List Site) : List Site := redirectsGoP P cs 0 cs

/-- the per-site loop body of MakeServers (first loop), for configs with a certmagic manager: a TLS site declared as plain
HTTP (HTTP port or scheme http) gets TLS switched off, otherwise an empty scheme becomes https; then an empty port becomes
the HTTPS port unless the site brings its own or a self-signed certificate (and is not on-demand) -/
def makeServersOneP (P : Ports) (c : Site) : Site :=
  if !c.enabled then c
  else
    let plain := c.port == P.http || c.scheme == b!"http"
    { c with enabled := !plain,
             scheme := if !plain && c.scheme.isEmpty then b!"https" else c.scheme,
             port := if c.port.isEmpty && ((!c.manual && !c.selfSigned) || c.onDemand) then P.https else c.port }

/-- groupSiteConfigsByListenAddr's side effect: an empty port becomes the default port -/
def defaultPortOne (c : Site) : Site := if c.port.isEmpty then { c with port := defaultPort } else c

/-- MakeServers as far as the site configs are concerned -/
def makeServersP (P : Ports) (cs : List Site) : List Site := (cs.map (makeServersOneP P)).map defaultPortOne

/-- the pure stages of activateHTTPS followed by MakeServers -/
def pipelineP (P : Ports) (cs : List Site) : List Site :=
  makeServersP P (makePlaintextRedirectsP P (enableAutoHTTPSP P (markQualifiedP P cs)))

/-! the same at the default ports (the names these functions had before the ports became a parameter) -/

def qualifiesForManagedTLS : Site → Bool := qualifiesForManagedTLSP Ports.std
def qualifies : Site → Bool := qualifiesP Ports.std
def markOne : Site → Site := markOneP Ports.std
def markQualified : List Site → List Site := markQualifiedP Ports.std
def enableOne : Site → Site := enableOneP Ports.std
def enableAutoHTTPS : List Site → List Site := enableAutoHTTPSP Ports.std
def capturedPort : Bytes → Bytes := capturedPortP Ports.std
def redirPlaintextHost : Site → Site := redirPlaintextHostP Ports.std
def wantsRedirect : Site → Bool := wantsRedirectP Ports.std
def hostHasRedirectingSiteOnPort : List Site → Nat → Bytes → Option Bool := hostHasRedirectingSiteOnPortP Ports.std
def redirectsGo : List Site → Nat → List Site → List Site := redirectsGoP Ports.std
def makePlaintextRedirects : List Site → List Site := makePlaintextRedirectsP Ports.std
def makeServersOne : Site → Site := makeServersOneP Ports.std
def makeServers : List Site → List Site := makeServersP Ports.std
def pipeline : List Site → List Site := pipelineP Ports.std

/-! ## the tls directive (flags only) -/

inductive TLSBase | none | off | email | selfSigned | manual | block | load
  deriving Repr, DecidableEq, Inhabited

structure TLSVariant where
  base : TLSBase := .none
  noRedirect : Bool := false
  onDemand : Bool := false
  deriving Repr, DecidableEq, Inhabited

/-- the e-mail the harness writes for the `email` variant -/
def testEmail : Bytes := b!"admin@verif.test"

/-- setupTLS: what a `tls` directive of the given shape does to the flags of a fresh config -/
def applyTLS (v : TLSVariant) (c : Site) : Site :=
  match v.base with
  | .none => c
  | .off => { c with email := b!"off", enabled := false }          -- returns before the block is read
  | b =>
    let c := { c with enabled := true }
    let c := match b with
      | .email => { c with email := testEmail }
      | .selfSigned => { c with email := b!"self_signed", selfSigned := true }
      | .manual => { c with manual := true }                       -- `tls cert key`
      | .load => { c with manual := true }                         -- `tls { load dir }`
      | _ => c
    { c with noRedirect := c.noRedirect || v.noRedirect, onDemand := c.onDemand || v.onDemand }

/-- setupTLS on a site block with SEVERAL `tls` directives (written one after the other, or spliced in by `import`): the
setup function runs once, its `for c.Next()` loop takes the directives in order on the SAME config — a flag set by an earlier
directive stays set (there is no assignment of `false` to Manual, SelfSigned, NoRedirect anywhere in the loop) — and
`tls off` returns from the function at once, so directives after it are not read. -/
def applyTLSs : List TLSVariant → Site → Site
  | [], c => c
  | v :: vs, c => if v.base == .off then applyTLS v c else applyTLSs vs (applyTLS v c)

end Casket.AutoHTTPS
