import Casket.Model.Fault
/-
Model of caskethttp/fastcgi/fastcgi.go: which requests `Handler.ServeHTTP` sends to the
responder (rule matching, ignored paths, index files, split, the extension test) and the
CGI environment `buildEnv` + `Get/Head/Options/Post` derive from the request.

Bytes are ASCII here: `strings.ToLower/ToUpper` are modelled on ASCII only, and the file
system is an oracle (set of regular files; directories are their ancestors).  Paths with `..`
segments or non-ASCII bytes are reported as `unmodelled`.

CORE LEAN ONLY.
-/
namespace Casket.FCGIRoute
open Casket.Fault

def lowerB (b : UInt8) : UInt8 := if 0x41 ≤ b && b ≤ 0x5a then b + 32 else b
def upperB (b : UInt8) : UInt8 := if 0x61 ≤ b && b ≤ 0x7a then b - 32 else b
def toLower (s : Bytes) : Bytes := s.map lowerB
def toUpper (s : Bytes) : Bytes := s.map upperB

def hasPrefix (s p : Bytes) : Bool := p.isPrefixOf s
def hasSuffix (s p : Bytes) : Bool := p.reverse.isPrefixOf s.reverse

def slash : UInt8 := 0x2f
def dot : UInt8 := 0x2e

/-! ### `path.Clean`, `path.Join` -/

/-- process the segments left to right with a stack (top first) -/
def cleanSegs (rooted : Bool) : List Bytes → List Bytes → List Bytes
  | [], st => st.reverse
  | seg :: rest, st =>
    if seg.isEmpty || seg == [dot] then cleanSegs rooted rest st
    else if seg == [dot, dot] then
      match st with
      | top :: st' => if top == [dot, dot] then cleanSegs rooted rest (seg :: st) else cleanSegs rooted rest st'
      | [] => if rooted then cleanSegs rooted rest [] else cleanSegs rooted rest [seg]
    else cleanSegs rooted rest (seg :: st)

def joinSlash : List Bytes → Bytes
  | [] => []
  | [s] => s
  | s :: rest => s ++ [slash] ++ joinSlash rest

/-- `path.Clean` -/
def clean (p : Bytes) : Bytes :=
  if p.isEmpty then [dot] else
  let rooted := p.head? == some slash
  let segs := cleanSegs rooted (splitByte slash p) []
  let body := joinSlash segs
  if rooted then slash :: body else if body.isEmpty then [dot] else body

/-- `path.Join(a, b)` (also `filepath.Join` on a slash-separated system) -/
def join2 (a b : Bytes) : Bytes :=
  if a.isEmpty && b.isEmpty then []
  else if a.isEmpty then clean b
  else if b.isEmpty then clean a
  else clean (a ++ [slash] ++ b)

/-- `httpserver.Path(p).Matches(base)`; `cs` = CaseSensitivePath -/
def pathMatches (cs : Bool) (p base : Bytes) : Bool :=
  if base == [slash] || base.isEmpty then true else
  let p' := clean p ++ (if p.getLast? == some slash then [slash] else [])
  let b' := clean base ++ (if base.getLast? == some slash then [slash] else [])
  if cs then hasPrefix p' b' else hasPrefix (toLower p') (toLower b')

/-! ### rules and the file system oracle -/

structure Rule where
  path   : Bytes
  ext    : Bytes
  split  : Bytes
  index  : List Bytes := []
  except : List Bytes := []
  env    : List (Bytes × Bytes) := []
  root   : Bytes := []          -- rule.Root (absolute)
deriving Repr, DecidableEq

/-- regular files below the site root, as clean absolute URL paths (`/a/b.php`) -/
abbrev FS := List Bytes

def segsOf (p : Bytes) : List Bytes := (splitByte slash p).filter (fun s => !s.isEmpty && s != [dot])

def isFile (fs : FS) (p : Bytes) : Bool := fs.any (fun f => segsOf f == segsOf p)

/-- some file lies strictly below `p` (or `p` is the root) -/
def isDir (fs : FS) (p : Bytes) : Bool :=
  (segsOf p).isEmpty || fs.any (fun f => (segsOf p).isPrefixOf (segsOf f) && (segsOf p).length < (segsOf f).length)

def hasDotDot (p : Bytes) : Bool := (splitByte slash p).any (· == [dot, dot])
def isAscii (p : Bytes) : Bool := p.all (· < 0x80)

/-- `os.Stat(root + fpath)` succeeds -/
def statOK (fs : FS) (fpath : Bytes) : Bool :=
  if fpath.getLast? == some slash || fpath.isEmpty then isDir fs fpath
  else isFile fs fpath || isDir fs fpath

/-- `httpserver.IndexFile(FileSys, fpath, indexFiles)` -/
def indexFile (fs : FS) (fpath : Bytes) (index : List Bytes) : Option Bytes :=
  let fpath := if fpath.isEmpty then [slash] else fpath
  if fpath.getLast? != some slash then none else
  (index.map (join2 fpath)).find? fun fp => isFile fs fp || isDir fs fp

/-- `strings.TrimRight(s, " .")` -/
def trimRightSpDot (s : Bytes) : Bytes := (s.reverse.dropWhile (fun b => b == 0x20 || b == dot)).reverse

/-- `Rule.splitPos` -/
def splitPos (cs : Bool) (rule : Rule) (p : Bytes) : Option Nat :=
  if cs then
    match indexOf p rule.split with
    | some i => some i
    | none => indexOf (toLower p) (toLower rule.split)   -- exact spelling absent: any letter case
  else indexOf (toLower p) (toLower rule.split)

/-- `Rule.AllowedPath` -/
def allowedPath (cs : Bool) (rule : Rule) (reqPath : Bytes) : Bool :=
  !rule.except.any fun ig => pathMatches cs (clean reqPath) (join2 rule.path ig)

inductive RuleResult where
  | cont                     -- `continue`: try the next rule
  | err500                   -- ErrIndexMissingSplit
  | sent (fpath : Bytes)     -- the request goes to the responder with this script path
deriving Repr, DecidableEq

/-- the rule's base path matches (also with a leading slash supplied) and the path is not excepted -/
def ruleApplies (cs : Bool) (urlPath : Bytes) (rule : Rule) : Bool :=
  (if pathMatches cs urlPath rule.path then true
   else if hasPrefix urlPath [slash] then false
   else pathMatches cs (slash :: urlPath) rule.path) && allowedPath cs rule urlPath

/-- `fpath`: the request path without trailing dots and spaces, or the rule's first index file
that exists below it; and whether it is an index file -/
def scriptPath (fs : FS) (urlPath : Bytes) (rule : Rule) : Bytes × Bool :=
  match indexFile fs (trimRightSpDot urlPath) rule.index with
  | some idx => (idx, true)
  | none => (trimRightSpDot urlPath, false)

/-- `canSplit`, then `!exists || ends in "/" || has the extension (any case)` -/
def decideScript (cs : Bool) (fs : FS) (rule : Rule) (p : Bytes) (fromIndex : Bool) : RuleResult :=
  if (splitPos cs rule p).isNone then (if fromIndex then .err500 else .cont)
  else if !statOK fs p || hasSuffix p [slash] || hasSuffix (toLower p) (toLower rule.ext) then .sent p
  else .cont

/-- body of the loop over the rules in `ServeHTTP`, up to the decision to contact the responder -/
def tryRule (cs : Bool) (fs : FS) (urlPath : Bytes) (rule : Rule) : RuleResult :=
  if !ruleApplies cs urlPath rule then .cont
  else decideScript cs fs rule (scriptPath fs urlPath rule).1 (scriptPath fs urlPath rule).2

inductive Outcome where
  | next                                   -- `h.Next.ServeHTTP`: e.g. the static file server
  | err500
  | sent (rule : Nat) (fpath : Bytes)
  | unmodelled
deriving Repr, DecidableEq

def routeFrom (cs : Bool) (fs : FS) (urlPath : Bytes) : List Rule → Nat → Outcome
  | [], _ => .next
  | r :: rest, i =>
    match tryRule cs fs urlPath r with
    | .cont => routeFrom cs fs urlPath rest (i + 1)
    | .err500 => .err500
    | .sent f => .sent i f

/-- A path with non-ASCII bytes is inside the model when Go's Unicode-aware `strings.ToLower`
cannot matter: every rule is a catch-all without exceptions (no prefix comparison of lowered
text), nothing is trimmed, and the bytes the extension is compared with are ASCII.  (`splitPos`
itself lowers ASCII letters only, like the code.) -/
def nonAsciiModelled (urlPath : Bytes) (rules : List Rule) : Bool :=
  trimRightSpDot urlPath == urlPath &&
  rules.all fun r => (r.path == [slash] || r.path.isEmpty) && r.except.isEmpty &&
    isAscii (urlPath.reverse.take r.ext.length)

/-- `Handler.ServeHTTP`: which rule, if any, sends the request to its responder -/
def route (cs : Bool) (fs : FS) (urlPath : Bytes) (rules : List Rule) : Outcome :=
  if (!isAscii urlPath && !nonAsciiModelled urlPath rules) || hasDotDot urlPath ||
      (!urlPath.isEmpty && urlPath.head? != some slash) then .unmodelled
  else routeFrom cs fs urlPath rules 0

/-! ### the environment -/

structure Req where
  method        : Bytes
  proto         : Bytes := bytes "HTTP/1.1"
  host          : Bytes
  path          : Bytes
  rawQuery      : Bytes := []
  remoteAddr    : Bytes
  headers       : List (Bytes × List Bytes) := []   -- canonical name, values
  contentLength : Nat := 0                          -- r.ContentLength when positive, else 0
  body          : Bytes := []
deriving Repr, DecidableEq

structure Server where
  name     : Bytes
  port     : Bytes
  software : Bytes       -- SoftwareName ++ "/" ++ SoftwareVersion
deriving Repr, DecidableEq

/-- `strings.LastIndex(s, ":")` -/
def lastColon (s : Bytes) : Option Nat :=
  match indexOf s.reverse [0x3a] with
  | none => none
  | some i => some (s.length - 1 - i)

/-- `strings.Replace(s, string(c), "", 1)` -/
def removeFirst (c : UInt8) : Bytes → Bytes
  | [] => []
  | b :: rest => if b == c then rest else b :: removeFirst c rest

def headerGet (hs : List (Bytes × List Bytes)) (name : String) : Bytes :=
  match hs.find? (fun h => h.1 == bytes name) with
  | some (_, v :: _) => v
  | _ => []

/-- `strings.Join(vals, ", ")` -/
def joinComma : List Bytes → Bytes
  | [] => []
  | [v] => v
  | v :: rest => v ++ [0x2c, 0x20] ++ joinComma rest

/-- `headerNameReplacer.Replace(strings.ToUpper(field))` -/
def envName (field : Bytes) : Bytes :=
  bytes "HTTP_" ++ (toUpper field).map fun b => if b == 0x20 || b == 0x2d then 0x5f else b

/-- `m[k] = v` on an association list kept in insertion order -/
def setVar (k v : Bytes) : List (Bytes × Bytes) → List (Bytes × Bytes)
  | [] => [(k, v)]
  | (k', v') :: rest => if k == k' then (k, v) :: rest else (k', v') :: setVar k v rest

def natToBytes (n : Nat) : Bytes := bytes (toString n)

/-- decimal `strconv.ParseInt(s, 10, 64)`, 0 on error (plain digits only are modelled) -/
def parseLen (s : Bytes) : Nat :=
  if !s.isEmpty && s.length ≤ 18 && s.all (fun b => 0x30 ≤ b && b ≤ 0x39)
  then s.foldl (fun a d => a * 10 + (d.toNat - 0x30)) 0 else 0

/-- bytes `url.URL.EscapedPath` leaves alone -/
def pathSafe (b : UInt8) : Bool :=
  (0x30 ≤ b && b ≤ 0x39) || (0x41 ≤ b && b ≤ 0x5a) || (0x61 ≤ b && b ≤ 0x7a) ||
  "-_.~$&+,/:;=@".toList.any (fun c => c.toNat.toUInt8 == b)

def hexDigitB (n : Nat) : UInt8 := if n < 10 then UInt8.ofNat (0x30 + n) else UInt8.ofNat (0x41 + n - 10)

/-- `url.URL.EscapedPath()` for a path without RawPath -/
def escapePath (p : Bytes) : Bytes :=
  p.flatMap fun b => if pathSafe b then [b] else [0x25, hexDigitB (b.toNat / 16), hexDigitB (b.toNat % 16)]

/-- the map literal of `buildEnv` -/
def baseEnv (srv : Server) (r : Req) (rule : Rule) (fpath : Bytes) (sp : Nat) : List (Bytes × Bytes) :=
  let (ip, port) := match lastColon r.remoteAddr with
    | some i => (r.remoteAddr.take i, r.remoteAddr.drop (i + 1))
    | none => (r.remoteAddr, [])
  let ip := removeFirst 0x5d (removeFirst 0x5b ip)
  let docURI := fpath.take (sp + rule.split.length)
  let pathInfo := fpath.drop (sp + rule.split.length)
  let scriptName := if pathInfo.isEmpty then fpath else
    (if hasSuffix fpath pathInfo then fpath.take (fpath.length - pathInfo.length) else fpath)
  let requestURI := (if r.path.isEmpty then [slash] else escapePath r.path) ++
    (if r.rawQuery.isEmpty then [] else 0x3f :: r.rawQuery)
  [ (bytes "AUTH_TYPE", []),
    (bytes "CONTENT_LENGTH", headerGet r.headers "Content-Length"),
    (bytes "CONTENT_TYPE", headerGet r.headers "Content-Type"),
    (bytes "GATEWAY_INTERFACE", bytes "CGI/1.1"),
    (bytes "PATH_INFO", pathInfo),
    (bytes "QUERY_STRING", r.rawQuery),
    (bytes "REMOTE_ADDR", ip),
    (bytes "REMOTE_HOST", ip),
    (bytes "REMOTE_PORT", port),
    (bytes "REMOTE_IDENT", []),
    (bytes "REMOTE_USER", []),
    (bytes "REQUEST_METHOD", r.method),
    (bytes "REQUEST_SCHEME", bytes "http"),
    (bytes "SERVER_NAME", srv.name),
    (bytes "SERVER_PORT", srv.port),
    (bytes "SERVER_PROTOCOL", r.proto),
    (bytes "SERVER_SOFTWARE", srv.software),
    (bytes "DOCUMENT_ROOT", rule.root),
    (bytes "DOCUMENT_URI", docURI),
    (bytes "HTTP_HOST", r.host),
    (bytes "REQUEST_URI", requestURI),
    (bytes "SCRIPT_FILENAME", join2 rule.root scriptName),
    (bytes "SCRIPT_NAME", join2 [] scriptName) ]

/-- `if env["PATH_INFO"] != "" { env["PATH_TRANSLATED"] = … }` -/
def pathTranslatedEnv (rule : Rule) (fpath : Bytes) (sp : Nat) (env : List (Bytes × Bytes)) : List (Bytes × Bytes) :=
  let pathInfo := fpath.drop (sp + rule.split.length)
  if pathInfo.isEmpty then env else setVar (bytes "PATH_TRANSLATED") (join2 rule.root pathInfo) env

/-- `for _, envVar := range rule.EnvVars` -/
def ruleEnv (rule : Rule) (env : List (Bytes × Bytes)) : List (Bytes × Bytes) :=
  rule.env.foldl (fun e kv => setVar kv.1 kv.2 e) env

/-- `for field, val := range r.Header` -/
def headersEnv (r : Req) (env : List (Bytes × Bytes)) : List (Bytes × Bytes) :=
  r.headers.foldl (fun e h => setVar (envName h.1) (joinComma h.2) e) env

/-- what `Head` / `Get` / `Options` / `Post` put over it (ServeHTTP computes `contentLength`) -/
def methodEnv (r : Req) (env : List (Bytes × Bytes)) : List (Bytes × Bytes) :=
  let cl := if r.contentLength > 0 then r.contentLength else parseLen (headerGet r.headers "Content-Length")
  if r.method == bytes "HEAD" || r.method == bytes "OPTIONS" then
    setVar (bytes "CONTENT_LENGTH") (bytes "0") (setVar (bytes "REQUEST_METHOD") r.method env)
  else if r.method == bytes "GET" then
    setVar (bytes "CONTENT_LENGTH") (natToBytes cl) (setVar (bytes "REQUEST_METHOD") r.method env)
  else
    let m := toUpper r.method
    let m := if m.isEmpty || m == bytes "GET" then bytes "POST" else m
    let ct := headerGet r.headers "Content-Type"
    let ct := if ct.isEmpty then bytes "application/x-www-form-urlencoded" else ct
    setVar (bytes "CONTENT_TYPE") ct (setVar (bytes "CONTENT_LENGTH") (natToBytes cl) (setVar (bytes "REQUEST_METHOD") m env))

/-- `buildEnv(r, rule, fpath)` followed by the `REQUEST_METHOD` / `CONTENT_LENGTH` /
`CONTENT_TYPE` adjustments of `Get`, `Head`, `Options`, `Post`; plain HTTP (no TLS), no
path prefix, no authenticated user.  `none`: `splitPos` is -1 (excluded by `canSplit`). -/
def buildEnv (cs : Bool) (srv : Server) (r : Req) (rule : Rule) (fpath : Bytes) : Option (List (Bytes × Bytes)) :=
  match splitPos cs rule fpath with
  | none => none
  | some sp =>
    some (methodEnv r (headersEnv r (ruleEnv rule (pathTranslatedEnv rule fpath sp (baseEnv srv r rule fpath sp)))))

/-- the request body the client sends on stdin: `Head` and `Options` pass no body reader -/
def stdinOf (r : Req) : Bytes :=
  if r.method == bytes "HEAD" || r.method == bytes "OPTIONS" then [] else r.body

end Casket.FCGIRoute
