import Casket.Model.Limits
/-
Model of caskethttp/gzip (gzip.go: Gzip.ServeHTTP, gzipResponseWriter; responsefilter.go:
ResponseFilterWriter, SkipCompressedFilter, LengthFilter; requestfilter.go: ExtFilter,
PathFilter; setup.go: the filters a `gzip` block produces) and of the precompressed-sibling
selection of caskethttp/staticfiles/fileserver.go:serveFile.

Codecs are abstract: a body is a `Term`, a tower of coding layers over raw bytes; applying a
coding adds a layer, decoding removes the matching outer layer (so `dec c (enc c b) = b` holds
by construction).  What is modelled is the *decision logic*: which requests and responses are
compressed, when the decision is taken (at header time), how the header is rewritten and what
reaches the underlying ResponseWriter for every sequence of WriteHeader / Write / Flush calls.

CORE LEAN ONLY: this file is linked into the model driver.
-/
namespace Casket.Gzip
open Casket.Limits (Bytes pathMatches slash dot)

inductive Coding where
  | gzip | zstd | br
deriving Repr, DecidableEq

def Coding.name : Coding → Bytes
  | .gzip => [103, 122, 105, 112]
  | .zstd => [122, 115, 116, 100]
  | .br => [98, 114]

/-- a response body as it travels: raw bytes, the server's plain-text error page for a status,
or a coding applied to a body -/
inductive Term where
  | raw (b : Bytes)
  | errPage (status : Nat)
  | layer (c : Coding) (t : Term)
  | cut (c : Coding) (t : Term)   -- a stream of coding `c` over `t` that was started and never
                                  -- terminated: buffered data and trailer missing, not decodable
deriving Repr, DecidableEq

/-! ### request side -/

def isSubAt : Bytes → Bytes → Bool
  | [], _ => true
  | _ :: _, [] => false
  | a :: as, b :: bs => a == b && isSubAt as bs

/-- `strings.Contains(hay, needle)` -/
def containsSub (hay needle : Bytes) : Bool :=
  match hay with
  | [] => needle.isEmpty
  | _ :: rest => isSubAt needle hay || containsSub rest needle

def splitOn (sep : UInt8) : Bytes → List Bytes
  | [] => [[]]
  | c :: cs =>
    match splitOn sep cs with
    | [] => [[c]]
    | s :: ss => if c = sep then [] :: s :: ss else (c :: s) :: ss

def isSpace (b : UInt8) : Bool := b = 32 || b = 9 || b = 10 || b = 13 || b = 11 || b = 12

def trimLeft : Bytes → Bytes
  | [] => []
  | c :: cs => if isSpace c then trimLeft cs else c :: cs

/-- `strings.TrimSpace` (ASCII) -/
def trimSpace (s : Bytes) : Bytes := (trimLeft (trimLeft s).reverse).reverse

def lowerByte (b : UInt8) : UInt8 := if 65 ≤ b ∧ b ≤ 90 then b + 32 else b

/-- a `q=` parameter whose value is zero: q=0, q=0., q=0.0, q=0.00, q=0.000 -/
def isZeroQ (param : Bytes) : Bool :=
  match (trimSpace param).map lowerByte with
  | 113 :: 61 :: v => !v.isEmpty && v.all (fun c => c = 48 || c = 46) && v.head? = some 48
  | _ => false

/-- `acceptsGzip(r.Header.Get("Accept-Encoding"))`: some element's coding contains "gzip" and
none of its parameters is a zero quality value -/
def acceptsGzip (ae : Bytes) : Bool :=
  (splitOn 44 ae).any fun elem =>
    match splitOn 59 elem with
    | [] => false
    | coding :: params => containsSub coding Coding.gzip.name && !(params.any isZeroQ)

/-- Go `path.Ext` -/
def pathExtGo : Bytes → Bytes → Bytes
  | [], _ => []
  | c :: cs, acc =>
    if c = slash then [] else if c = dot then dot :: acc else pathExtGo cs (c :: acc)

def pathExt (p : Bytes) : Bytes := pathExtGo p.reverse []

/-- one `gzip { … }` block -/
structure Block where
  exts   : List Bytes   -- `ext` arguments; empty = the default extension list
  nots   : List Bytes   -- `not` paths
  minLen : Nat          -- `min_length`, 0 = not configured
deriving Repr, DecidableEq

/-- `defaultExtensions` of requestfilter.go (tied to the source by a regenerated fact) -/
def defaultExtensions : List String :=
  ["", ".txt", ".htm", ".html", ".css", ".php", ".js", ".json", ".md", ".mdown", ".xml", ".svg", ".go",
   ".cgi", ".py", ".pl", ".aspx", ".asp", ".m3u", ".m3u8", ".wasm"]

def strBytes (s : String) : Bytes := s.toUTF8.toList

def starB : Bytes := [42]

/-- request filters of a block: PathFilter (if any `not`), then ExtFilter -/
def requestPasses (b : Block) (path : Bytes) : Bool :=
  let exts := if b.exts.isEmpty then defaultExtensions.map strBytes else b.exts
  !(b.nots.any fun n => pathMatches false path n) && (exts.contains starB || exts.contains (pathExt path))

/-! ### response side -/

inductive ETag where
  | none | strong | weak
deriving Repr, DecidableEq

/-- the response header fields the property speaks about -/
structure Hdr where
  ce     : Bytes          -- Content-Encoding ("" = absent)
  cl     : Option Nat     -- Content-Length
  varyAE : Bool           -- a Vary value equal to "Accept-Encoding" is present
  etag   : ETag
deriving Repr, DecidableEq

def identityB : Bytes := [105, 100, 101, 110, 116, 105, 116, 121]

/-- `SkipCompressedFilter.ShouldCompress`: only responses without a content coding -/
def skipFilter (h : Hdr) : Bool := h.ce = [] || h.ce = identityB

/-- `LengthFilter.ShouldCompress` -/
def lengthFilter (min : Nat) (h : Hdr) : Bool :=
  match h.cl with
  | none => false
  | some l => l != 0 && min != 0 && min ≤ l

def responsePasses (b : Block) (h : Hdr) : Bool :=
  skipFilter h && (b.minLen = 0 || lengthFilter b.minLen h)

/-- `gzipResponseWriter.WriteHeader`'s header rewriting -/
def rewrite (h : Hdr) : Hdr :=
  { ce := Coding.gzip.name, cl := none, varyAE := true,
    etag := match h.etag with
      | .strong => .weak
      | e => e }

inductive Op where
  | hdr (code : Nat)   -- w.WriteHeader(code)
  | write              -- w.Write(chunk)
  | flush              -- w.(http.Flusher).Flush()
deriving Repr, DecidableEq

/-- what the next handler does: the header fields it sets first, the body it writes (already
in its physical, possibly pre-encoded form; `plen` = its length in bytes), its calls on the
ResponseWriter, and what it returns: a status and an error (`err` = the error is non-nil; a
handler may return one next to a status below 400 after its whole body is out -- fastcgi does
when the backend wrote to stderr -- it is meant for the log) -/
structure Inner where
  hdr  : Hdr
  body : Term
  plen : Nat
  ops  : List Op
  ret  : Nat
  err  : Bool := false
deriving Repr, DecidableEq

/-- the underlying ResponseWriter (what the client gets) -/
structure Under where
  committed : Option (Nat × Hdr)
  wrote     : Bool
deriving Repr, DecidableEq

/-- state of ResponseFilterWriter + gzipResponseWriter over the underlying writer -/
structure W where
  live    : Hdr            -- the header map
  decided : Option Bool    -- statusCodeWritten, shouldCompress
  under   : Under
deriving Repr, DecidableEq

/-- an informational header (1xx other than 101 Switching Protocols): net/http sends it at once
and keeps waiting for the response header proper -/
def isInfo (code : Nat) : Bool := 100 ≤ code && code ≤ 199 && code != 101

def commit (u : Under) (code : Nat) (h : Hdr) : Under :=
  if isInfo code then u
  else match u.committed with
    | some _ => u
    | none => { u with committed := some (code, h) }

/-- `ResponseFilterWriter.WriteHeader(code)` -/
def wWriteHeader (b : Block) (w : W) (code : Nat) : W :=
  if w.decided.isSome then w   -- the decision is taken once; later calls are ignored
  else if isInfo code then w   -- passed on; the decision waits for the response header proper
  else if code != 204 && responsePasses b w.live then   -- a 204 has no content to encode
    let h := rewrite w.live
    { live := h, decided := some true, under := commit w.under code h }
  else { w with decided := some false, under := commit w.under code w.live }

def wEnsureHeader (b : Block) (w : W) : W :=
  match w.decided with
  | some _ => w
  | none => wWriteHeader b w 200

def wStep (b : Block) (w : W) : Op → W
  | .hdr code => wWriteHeader b w code
  | .write =>
    let w1 := wEnsureHeader b w
    -- a Write on a ResponseWriter without a committed header commits 200 (net/http, httptest)
    { w1 with under := { (commit w1.under 200 w1.live) with wrote := true } }
  | .flush =>
    let w1 := wEnsureHeader b w
    { w1 with under := commit w1.under 200 w1.live }

/-- what the client receives; `blen` = length of the body on the wire where the model knows it
(not for a body compressed by the middleware, nor for the error page) -/
structure Resp where
  status : Nat
  hdr    : Hdr
  body   : Term
  blen   : Option Nat
deriving Repr, DecidableEq

def emptyHdr : Hdr := { ce := [], cl := none, varyAE := false, etag := .none }

/-- the response recorded by the underlying writer once the handler chain has returned `ret`
(`httpserver.DefaultErrorFunc` writes the error page for `ret ≥ 400` when nothing was written) -/
def finish (u : Under) (live : Hdr) (body : Term) (blen : Option Nat) (ret : Nat) : Resp :=
  match u.committed with
  | some (code, h) => { status := code, hdr := h, body := body, blen := blen }
  | none =>
    if ret ≥ 400 then { status := ret, hdr := live, body := .errPage ret, blen := none }
    else { status := 200, hdr := live, body := body, blen := blen }

/-- the chain without the gzip middleware: the same calls go straight to the ResponseWriter -/
def plainStep (u : Under) (live : Hdr) : Op → Under
  | .hdr code => commit u code live
  | .write => { (commit u 200 live) with wrote := true }
  | .flush => commit u 200 live

def plainRun (i : Inner) : Resp :=
  let u := i.ops.foldl (fun u op => plainStep u i.hdr op) { committed := none, wrote := false }
  if u.wrote then finish u i.hdr i.body (some i.plen) i.ret
  else finish u i.hdr (.raw []) (some 0) i.ret

/-- the `gzip.Writer` of one response (`gzipResponseWriter.internalWriter`): set up, and open,
once the decision is "compress"; `Close` writes out the deflate data still buffered (for a small
body: everything but the 10-byte member header) and the CRC/size trailer -/
inductive GzW where
  | absent | opened | closed
deriving Repr, DecidableEq

/-- the deferred cleanup of `Gzip.ServeHTTP`: `putWriter` closes the writer if one was set up.
It runs on every return path and looks neither at the status nor at the error the next handler
returned. -/
def cleanup (_ret : Nat) (_err : Bool) : GzW → GzW
  | .opened => .closed
  | s => s

/-- what is on the wire of a body `t` that went through the writer -/
def streamBody : GzW → Term → Term
  | .closed, t => .layer .gzip t
  | .opened, t => .cut .gzip t
  | .absent, t => t

/-- `Gzip.ServeHTTP` around `i` for a request to `path` with Accept-Encoding `ae` -/
def gzipRun (blocks : List Block) (path ae : Bytes) (i : Inner) : Resp :=
  if !acceptsGzip ae then plainRun i
  else
    match blocks.find? (fun b => requestPasses b path) with
    | none => plainRun i
    | some b =>
      let w := i.ops.foldl (wStep b) { live := i.hdr, decided := none, under := { committed := none, wrote := false } }
      let inner := if w.under.wrote then i.body else .raw []
      let ilen := if w.under.wrote then i.plen else 0
      -- the compressing writer is set up iff the decision was "compress"; the next handler
      -- returns (i.ret, i.err); then the deferred cleanup runs
      let gzw := cleanup i.ret i.err (if w.decided = some true then .opened else .absent)
      if gzw = .absent then finish w.under w.live inner (some ilen) i.ret
      else finish w.under w.live (streamBody gzw inner) none i.ret

/-! ### what net/http puts on the wire (trusted, as documented)

No body for a HEAD request and for the statuses 204 and 304 (1xx are informational and never the
response status here); Content-Length is not sent with 204 and 304, it is kept for HEAD. -/

def bodiless (head : Bool) (status : Nat) : Bool := head || status = 204 || status = 304

def wire (head : Bool) (r : Resp) : Resp :=
  if bodiless head r.status then
    { r with body := .raw [], blen := some 0,
             hdr := if r.status = 204 || r.status = 304 then { r.hdr with cl := none } else r.hdr }
  else r

/-! ### precompressed siblings (staticfiles) -/

/-- `staticEncodingPriority` (tied to the source by a regenerated fact) -/
def staticPriority : List Coding := [.zstd, .br, .gzip]

/-- the client lists the coding verbatim: `strings.TrimSpace(acc) == encoding.name` -/
def listsCoding (ae : Bytes) (c : Coding) : Bool :=
  (splitOn 44 ae).any fun acc => trimSpace acc = c.name

/-- which file `serveFile` serves for `f` given the sibling codings present on disk -/
def pickSibling (siblings : List Coding) (ae : Bytes) : Option Coding :=
  staticPriority.find? fun c => listsCoding ae c && siblings.contains c

/-- the file server's response for an existing regular file with content `content` -/
def staticInner (siblings : List Coding) (ae : Bytes) (content : Bytes) (plen : Nat) : Inner :=
  match pickSibling siblings ae with
  | some c =>
    { hdr := { ce := c.name, cl := some plen, varyAE := true, etag := .strong },
      body := .layer c (.raw content), plen := plen, ops := [.hdr 200, .write], ret := 200 }
  | none =>
    { hdr := { ce := [], cl := some content.length, varyAE := false, etag := .strong },
      body := .raw content, plen := content.length, ops := [.hdr 200, .write], ret := 200 }

/-- the file server's answer to a satisfiable single-range request: 206 with `sendSize` bytes of
the representation it picked; http.ServeContent (Go 1.23) overwrites Content-Length with the
length of the part, also for a sibling. -/
def rangeInner (siblings : List Coding) (ae : Bytes) (sendSize : Nat) : Inner :=
  match pickSibling siblings ae with
  | some c =>
    { hdr := { ce := c.name, cl := some sendSize, varyAE := true, etag := .strong },
      body := .layer c (.raw []), plen := sendSize, ops := [.hdr 206, .write], ret := 200 }
  | none =>
    { hdr := { ce := [], cl := some sendSize, varyAE := false, etag := .strong },
      body := .raw [], plen := sendSize, ops := [.hdr 206, .write], ret := 200 }

end Casket.Gzip
