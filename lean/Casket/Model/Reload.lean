/-
Protocol model of a zero-downtime reload (casket.go: Instance.Restart, startWithListenerFds,
startServers, Instance.Stop; caskethttp/httpserver/server.go: Listen, Serve, Stop,
tcpKeepAliveListener.File) interleaved with clients.

`Restart` is cut into the atomic steps the code performs one after the other, so that client
steps can be interleaved anywhere between them:

  begin g c   Restart is called with a configuration that will be generation g (OnRestart callbacks ran)
  setup       parse + directives + MakeServers + OnStartup callbacks of the new configuration: ok or fail
  listen      first loop of startServers, one server per step: an address the old instance holds a listener for
              is taken over by duplicating the descriptor (cannot fail), any other address needs net.Listen
              (fails if the address is in use); on failure the descriptors obtained so far are closed again
  serve       second loop of startServers: every server of the new instance accepts
  stopOld     Instance.Stop of the old instance begins
  stop        … one server per step: its listener is closed (it stops accepting) — whether or not the drain of that
              server's connections completes within the graceful period: `Shutdown` returning `context deadline exceeded`
              is logged by `Instance.Stop` and the loop goes on to the remaining servers
  finish      Restart returns the new instance

Clients:  connect a     a fresh connection to address a: refused iff no socket is bound (no descriptor open);
                        otherwise it waits in the accept queue of the socket
          accept g a    the instance of generation g, accepting on a, takes the first waiting connection
          respond id    the owner of the connection answers it (with its own configuration = its generation)

A socket lives as long as some descriptor of it is open (`fds a > 0`); when the last one is closed the connections
still waiting in its queue are dropped.  An accepted connection is always answered by its owner — the old
instance keeps serving what it accepted while it shuts down (graceful stop; the drain timeout is not modelled).
An action that is not enabled in the current state changes nothing, so every list of actions is a schedule.
-/
namespace Casket.Reload

structure Cfg where
  addrs : List Nat
  failSetup : Bool
deriving DecidableEq, Repr

structure Inst where
  gen : Nat
  addrs : List Nat
  /-- holds an open listener for the address -/
  holds : Nat → Bool
  /-- its Serve loop accepts on the address -/
  accepts : Nat → Bool

def Inst.none : Inst := { gen := 0, addrs := [], holds := fun _ => false, accepts := fun _ => false }

inductive Phase where
  | idle
  | loading (g : Nat) (c : Cfg)
  | listening (todo : List Nat)
  | listened
  | started
  | stopping (todo : List Nat)
deriving DecidableEq, Repr

structure Conn where
  id : Nat
  addr : Nat
  /-- generation of the current instance when the connection was made: the last reload that had returned -/
  minGen : Nat
  owner : Option Nat
  answered : Option Nat
deriving DecidableEq, Repr

inductive Ev where
  | refused (a : Nat)
  | dropped (a id : Nat)
  | reloadOk (gen : Nat)
  | reloadFailed
deriving DecidableEq, Repr

inductive Act where
  | begin (g : Nat) (c : Cfg)
  | setup
  | listen
  | serve
  | stopOld
  | stop
  | finish
  | connect (a : Nat)
  | accept (g a : Nat)
  | respond (id : Nat)
deriving DecidableEq, Repr

structure M where
  /-- addresses in use by other processes -/
  busy : List Nat
  /-- open descriptors of the socket bound at each address -/
  fds : Nat → Nat
  /-- identity of the socket bound at each address -/
  sock : Nat → Nat
  nextSock : Nat
  queue : Nat → List Nat
  cur : Inst
  new : Inst
  phase : Phase
  conns : List Conn
  nextConn : Nat
  /-- generations whose servers were started (initial instance and every `serve` step) -/
  served : List Nat
  events : List Ev

def set (f : Nat → Bool) (a : Nat) (v : Bool) : Nat → Bool := fun x => if x = a then v else f x
def upd {α : Type} (f : Nat → α) (a : Nat) (v : α) : Nat → α := fun x => if x = a then v else f x

/-- a process started on `addrs`: generation 1 holds one listener per address and accepts on it -/
def M.init (busy addrs : List Nat) : M :=
  { busy := busy
    fds := fun a => if addrs.contains a then 1 else 0
    sock := fun a => a
    nextSock := 1000
    queue := fun _ => []
    cur := { gen := 1, addrs := addrs, holds := fun a => addrs.contains a, accepts := fun a => addrs.contains a }
    new := Inst.none
    phase := .idle
    conns := []
    nextConn := 1
    served := [1]
    events := [] }

/-- close one descriptor of the socket at `a`; the last one takes the waiting connections with it -/
def closeFd (m : M) (a : Nat) : M :=
  if m.fds a = 1 then
    { m with fds := upd m.fds a 0, queue := upd m.queue a [], events := m.events ++ (m.queue a).map (.dropped a) }
  else { m with fds := upd m.fds a (m.fds a - 1) }

/-- error path of startServers: every listener the new instance obtained so far is closed -/
def closeHeld (m : M) : M :=
  { m with
    fds := fun a => if m.new.holds a then m.fds a - 1 else m.fds a
    queue := fun a => if m.new.holds a && m.fds a == 1 then [] else m.queue a
    events := m.events ++ (m.new.addrs.filter fun a => m.new.holds a && m.fds a == 1).flatMap
                fun a => (m.queue a).map (.dropped a) }

def setOwner (cs : List Conn) (id g : Nat) : List Conn :=
  cs.map fun c => if c.id = id then { c with owner := some g } else c

def setAnswered (cs : List Conn) (id : Nat) : List Conn :=
  cs.map fun c => if c.id = id then { c with answered := c.owner } else c

def step (m : M) : Act → M
  | .begin g c =>
    match m.phase with
    | .idle => if m.cur.gen < g then { m with phase := .loading g c } else m
    | _ => m
  | .setup =>
    match m.phase with
    | .loading g c =>
      if c.failSetup then { m with phase := .idle, events := m.events ++ [.reloadFailed] }
      else { m with phase := .listening c.addrs,
                    new := { gen := g, addrs := c.addrs, holds := fun _ => false, accepts := fun _ => false } }
    | _ => m
  | .listen =>
    match m.phase with
    | .listening [] => { m with phase := .listened }
    | .listening (a :: todo) =>
      if m.new.holds a then { m with phase := .listening todo }   -- one server per address
      else if m.cur.holds a then
        { m with fds := upd m.fds a (m.fds a + 1), new := { m.new with holds := set m.new.holds a true },
                 phase := .listening todo }
      else if m.busy.contains a || m.fds a > 0 then
        let m' := closeHeld m
        { m' with new := Inst.none, phase := .idle, events := m'.events ++ [.reloadFailed] }
      else
        { m with fds := upd m.fds a 1, sock := upd m.sock a m.nextSock, nextSock := m.nextSock + 1,
                 new := { m.new with holds := set m.new.holds a true }, phase := .listening todo }
    | _ => m
  | .serve =>
    match m.phase with
    | .listened => { m with new := { m.new with accepts := m.new.holds }, phase := .started, served := m.served ++ [m.new.gen] }
    | _ => m
  | .stopOld =>
    match m.phase with
    | .started => { m with phase := .stopping m.cur.addrs }
    | _ => m
  | .stop =>
    match m.phase with
    | .stopping (a :: todo) =>
      if m.cur.holds a then
        let m' := closeFd m a
        { m' with cur := { m.cur with holds := set m.cur.holds a false, accepts := set m.cur.accepts a false },
                  phase := .stopping todo }
      else { m with phase := .stopping todo }
    | _ => m
  | .finish =>
    match m.phase with
    | .stopping [] => { m with cur := m.new, new := Inst.none, phase := .idle, events := m.events ++ [.reloadOk m.new.gen] }
    | _ => m
  | .connect a =>
    if m.fds a > 0 then
      { m with queue := upd m.queue a (m.queue a ++ [m.nextConn]), nextConn := m.nextConn + 1,
               conns := m.conns ++ [{ id := m.nextConn, addr := a, minGen := m.cur.gen, owner := none, answered := none }] }
    else { m with events := m.events ++ [.refused a] }
  | .accept g a =>
    match m.queue a with
    | [] => m
    | id :: rest =>
      if (g = m.cur.gen && m.cur.accepts a) || (g = m.new.gen && m.new.accepts a) then
        { m with queue := upd m.queue a rest, conns := setOwner m.conns id g }
      else m
  | .respond id => { m with conns := setAnswered m.conns id }

def run (m : M) : List Act → M
  | [] => m
  | a :: rest => run (step m a) rest

/-! ### sequential schedules (what the hand-over stream runs) -/

/-- observation after one operation of the hand-over stream -/
structure HObs where
  res : String
  fd1 : Nat
  fd2 : Nat
  sk1 : Nat
  sk2 : Nat
  p1 : String
  p2 : String
  /-- length of casket's instance list -/
  ni : Nat
  mid : Option String
  str : Option String
deriving DecidableEq, Repr

inductive HOp where
  | reload (c : Cfg)
  | straddle (c : Cfg)
  /-- a reload while a request on address 1 stays in flight longer than the graceful period: the drain of that server times
  out, `Restart` returns, the request completes afterwards -/
  | longflight (c : Cfg)
deriving DecidableEq, Repr

def HOp.cfg : HOp → Cfg
  | .reload c => c
  | .straddle c => c
  | .longflight c => c

/-- `Restart` up to (not including) its return, with no client step in between -/
def reloadHead (g : Nat) (m : M) (c : Cfg) : List Act :=
  [.begin g c, .setup] ++ List.replicate (c.addrs.length + 1) .listen ++ [.serve, .stopOld]
    ++ List.replicate m.cur.addrs.length .stop

/-- what the client of the `idx`-th connection got: the generation that answered, `hang` if nobody did, `-` if there is
no such connection (it was refused) -/
def connAnswer (m : M) (idx : Nat) : String :=
  match m.conns[idx]? with
  | some c => (match c.answered with | some k => toString k | none => "hang")
  | none => "-"

/-- a fresh connection to `a`, accepted by whoever accepts there now, and answered -/
def probe (m : M) (a : Nat) : M × String :=
  let g := if m.new.accepts a then m.new.gen else m.cur.gen
  let m' := run m [.connect a, .accept g a, .respond m.nextConn]
  (m', connAnswer m' m.conns.length)

/-- position of a socket identity in the list of those seen so far -/
def pos : List Nat → Nat → Option Nat
  | [], _ => none
  | y :: ys, x => if y = x then some 0 else (pos ys x).map (· + 1)

/-- socket identities renamed in order of first appearance; 0 = no socket -/
def rename (seen : List Nat) (m : M) (a : Nat) : List Nat × Nat :=
  if m.fds a = 0 then (seen, 0)
  else match pos seen (m.sock a) with
    | some i => (seen, i + 1)
    | none => (seen ++ [m.sock a], seen.length + 1)

/-- instances in casket's list: the current one, and the one being started while a reload is under way -/
def instCount (m : M) : Nat :=
  match m.phase with
  | .idle => 1
  | .loading _ _ => 1
  | _ => 2

def observe (seen : List Nat) (m : M) (res : String) (mid str : Option String) : M × List Nat × HObs :=
  let r1 := rename seen m 1
  let r2 := rename r1.1 m 2
  let q1 := probe m 1
  let q2 := probe q1.1 2
  (q2.1, r2.1, { res := res, fd1 := m.fds 1, fd2 := m.fds 2, sk1 := r1.2, sk2 := r2.2, p1 := q1.2, p2 := q2.2,
                 ni := instCount m, mid := mid, str := str })

/-- `Restart` returned the instance of generation `g` -/
def resOf (m : M) (g : Nat) : String := if m.cur.gen = g then "ok" else "err"

def runOp (g : Nat) (seen : List Nat) (m : M) : HOp → M × List Nat × HObs
  | .reload c =>
    let m1 := run m (reloadHead g m c ++ [.finish])
    observe seen m1 (resOf m1 g) none none
  | .straddle c =>
    let sidx := m.conns.length
    let m0 := run m [.connect 1, .accept m.cur.gen 1]
    let connected := m0.conns.length != sidx
    let m1 := run m0 (reloadHead g m0 c)
    let q := probe m1 1
    let m2 := if connected then step q.1 (.respond m.nextConn) else q.1
    let str := if connected then connAnswer m2 sidx else "-"
    let m3 := step m2 .finish
    observe seen m3 (resOf m3 g) (some q.2) (some str)
  | .longflight c =>
    let sidx := m.conns.length
    let m0 := run m [.connect 1, .accept m.cur.gen 1]
    let connected := m0.conns.length != sidx
    let m1 := run m0 (reloadHead g m0 c ++ [.finish])
    let m2 := if connected then step m1 (.respond m.nextConn) else m1
    let str := if connected then connAnswer m2 sidx else "-"
    observe seen m2 (resOf m2 g) none (some str)

def runOps : Nat → List Nat → M → List HOp → List HObs
  | _, _, _, [] => []
  | g, seen, m, op :: rest =>
    let r := runOp g seen m op
    r.2.2 :: runOps (g + 1) r.2.1 r.1 rest

/-- the model's observations of a hand-over case: start on `c0.addrs`, then the operations -/
def handoverRun (busy : List Nat) (c0 : Cfg) (hops : List HOp) : List HObs :=
  let r := observe [] (M.init busy c0.addrs) "ok" none none
  r.2.2 :: runOps 2 r.2.1 r.1 hops

/-! ### servers of several kinds (stream c07.mixed)

casket hands sockets over per ADDRESS and per KIND: the listener of the old server for an address goes to the new server for
that address, and so does its packet conn.  In this machine a socket is identified by a number; the TCP listener of address
`a` is socket `2a`, its packet conn is socket `2a+1`, so the two kinds of one address are handed over independently and
nothing is ever handed over across addresses (the listen step for `x` only looks at what the old instance holds for `x`). -/

inductive MKind where
  | t | u | b
deriving DecidableEq, Repr

structure MSrv where
  kind : MKind
  addr : Nat
deriving DecidableEq, Repr

def MSrv.codes (s : MSrv) : List Nat :=
  match s.kind with
  | .t => [2 * s.addr]
  | .u => [2 * s.addr + 1]
  | .b => [2 * s.addr, 2 * s.addr + 1]

/-- the sockets a list of servers needs, in the order in which `startServers` obtains them -/
def mixedCfg (srvs : List MSrv) (fail : Bool) : Cfg := { addrs := srvs.flatMap MSrv.codes, failSetup := fail }

/-- descriptors and answer of a fresh connection (datagram), for every observed socket -/
def observeCells (m : M) : List Nat → M × List (Nat × String)
  | [] => (m, [])
  | x :: xs =>
    let q := probe m x
    let r := observeCells q.1 xs
    (r.1, (m.fds x, q.2) :: r.2)

structure MObs where
  res : String
  cells : List (Nat × String)
  /-- some socket was answered by the server of ANOTHER address, or by two different servers (never in the model) -/
  mis : Bool
deriving DecidableEq, Repr

def mixedOps (codes : List Nat) : Nat → M → List Cfg → List MObs
  | _, _, [] => []
  | g, m, c :: rest =>
    let m1 := run m (reloadHead g m c ++ [.finish])
    let r := observeCells m1 codes
    { res := resOf m1 g, cells := r.2, mis := false } :: mixedOps codes (g + 1) r.1 rest

def mixedRun (busy codes : List Nat) (c0 : Cfg) (cs : List Cfg) : List MObs :=
  let r := observeCells (M.init busy c0.addrs) codes
  { res := "ok", cells := r.2, mis := false } :: mixedOps codes 2 r.1 cs

end Casket.Reload
