import Casket.Model.TLSGroup
/-
Model of the directive → Config mapping of caskettls/setup.go:setupTLS for

    tls self_signed {
        <subdirective> <args…>      (one per line)
    }

restricted to the subdirectives that set handshake parameters: protocols, ciphers, curves, clients,
alpn, insecure_disable_sni_matching, plus the flags must_staple and no_redirect as no-ops
(ca, key_type, load, max_certs, ask, dns, wildcard: outside the model, answered `unknown`), followed by
SetDefaultTLSParams (the `setDefaults` of Model/TLSGroup).  Names are byte strings; `strings.ToLower`
/`ToUpper` on ASCII.  Quirk kept: `insecure_disable_sni_matching` does not consume the rest of its
line, so further tokens on that line are read as the next subdirective.

CORE LEAN ONLY: linked into the model driver.
-/
namespace Casket.TLSSetup
open Casket.TLSGroup
open Casket.VHost (Bytes lower)

def upperByte (b : Nat) : Nat := if 97 ≤ b ∧ b ≤ 122 then b - 32 else b
def upper (s : Bytes) : Bytes := s.map upperByte

def str (s : String) : Bytes := s.toList.map Char.toNat

/-- `SupportedProtocols` (keys are lower case); regenerated and compared in Props/C06 -/
def protocolTable : List (Bytes × Nat) :=
  [(/- tls1.0 -/ [116, 108, 115, 49, 46, 48], 0x0301), (/- tls1.1 -/ [116, 108, 115, 49, 46, 49], 0x0302), (/- tls1.2 -/ [116, 108, 115, 49, 46, 50], 0x0303), (/- tls1.3 -/ [116, 108, 115, 49, 46, 51], 0x0304)]

/-- `SupportedCiphersMap` (keys are upper case) -/
def cipherTable : List (Bytes × Nat) :=
  [(/- ECDHE-ECDSA-AES256-GCM-SHA384 -/ [69, 67, 68, 72, 69, 45, 69, 67, 68, 83, 65, 45, 65, 69, 83, 50, 53, 54, 45, 71, 67, 77, 45, 83, 72, 65, 51, 56, 52], 0xc02c), (/- ECDHE-RSA-AES256-GCM-SHA384 -/ [69, 67, 68, 72, 69, 45, 82, 83, 65, 45, 65, 69, 83, 50, 53, 54, 45, 71, 67, 77, 45, 83, 72, 65, 51, 56, 52], 0xc030),
   (/- ECDHE-ECDSA-AES128-GCM-SHA256 -/ [69, 67, 68, 72, 69, 45, 69, 67, 68, 83, 65, 45, 65, 69, 83, 49, 50, 56, 45, 71, 67, 77, 45, 83, 72, 65, 50, 53, 54], 0xc02b), (/- ECDHE-RSA-AES128-GCM-SHA256 -/ [69, 67, 68, 72, 69, 45, 82, 83, 65, 45, 65, 69, 83, 49, 50, 56, 45, 71, 67, 77, 45, 83, 72, 65, 50, 53, 54], 0xc02f),
   (/- ECDHE-ECDSA-WITH-CHACHA20-POLY1305 -/ [69, 67, 68, 72, 69, 45, 69, 67, 68, 83, 65, 45, 87, 73, 84, 72, 45, 67, 72, 65, 67, 72, 65, 50, 48, 45, 80, 79, 76, 89, 49, 51, 48, 53], 0xcca9), (/- ECDHE-RSA-WITH-CHACHA20-POLY1305 -/ [69, 67, 68, 72, 69, 45, 82, 83, 65, 45, 87, 73, 84, 72, 45, 67, 72, 65, 67, 72, 65, 50, 48, 45, 80, 79, 76, 89, 49, 51, 48, 53], 0xcca8),
   (/- ECDHE-RSA-AES256-CBC-SHA -/ [69, 67, 68, 72, 69, 45, 82, 83, 65, 45, 65, 69, 83, 50, 53, 54, 45, 67, 66, 67, 45, 83, 72, 65], 0xc014), (/- ECDHE-RSA-AES128-CBC-SHA -/ [69, 67, 68, 72, 69, 45, 82, 83, 65, 45, 65, 69, 83, 49, 50, 56, 45, 67, 66, 67, 45, 83, 72, 65], 0xc013),
   (/- ECDHE-ECDSA-AES256-CBC-SHA -/ [69, 67, 68, 72, 69, 45, 69, 67, 68, 83, 65, 45, 65, 69, 83, 50, 53, 54, 45, 67, 66, 67, 45, 83, 72, 65], 0xc00a), (/- ECDHE-ECDSA-AES128-CBC-SHA -/ [69, 67, 68, 72, 69, 45, 69, 67, 68, 83, 65, 45, 65, 69, 83, 49, 50, 56, 45, 67, 66, 67, 45, 83, 72, 65], 0xc009),
   (/- RSA-AES256-CBC-SHA -/ [82, 83, 65, 45, 65, 69, 83, 50, 53, 54, 45, 67, 66, 67, 45, 83, 72, 65], 0x0035), (/- RSA-AES128-CBC-SHA -/ [82, 83, 65, 45, 65, 69, 83, 49, 50, 56, 45, 67, 66, 67, 45, 83, 72, 65], 0x002f),
   (/- ECDHE-RSA-3DES-EDE-CBC-SHA -/ [69, 67, 68, 72, 69, 45, 82, 83, 65, 45, 51, 68, 69, 83, 45, 69, 68, 69, 45, 67, 66, 67, 45, 83, 72, 65], 0xc012), (/- RSA-3DES-EDE-CBC-SHA -/ [82, 83, 65, 45, 51, 68, 69, 83, 45, 69, 68, 69, 45, 67, 66, 67, 45, 83, 72, 65], 0x000a)]

/-- `supportedCurvesMap` (keys are upper case) -/
def curveTable : List (Bytes × Nat) :=
  [(/- X25519 -/ [88, 50, 53, 53, 49, 57], 29), (/- P256 -/ [80, 50, 53, 54], 23), (/- P384 -/ [80, 51, 56, 52], 24), (/- P521 -/ [80, 53, 50, 49], 25)]

def lookup (t : List (Bytes × Nat)) (k : Bytes) : Option Nat :=
  match t with
  | [] => none
  | (k', v) :: rest => if k' = k then some v else lookup rest k

inductive SetupErr where
  | argCount        -- c.ArgErr()
  | badProtocol
  | badCipher
  | badCurve
  | minGtMax
  | unknown         -- a subdirective outside the model (or not a subdirective at all)
deriving Repr, DecidableEq

/-- the handshake-parameter fields of `caskettls.Config` while the block is read -/
structure Raw where
  minV : Nat := 0
  maxV : Nat := 0
  ciphers : List Nat := []
  curves : List Nat := []
  clientAuth : Nat := 0
  clientCerts : List Bytes := []
  alpn : List Bytes := []
  disableSNI : Bool := false
deriving Repr, DecidableEq

def mapNames (t : List (Bytes × Nat)) (e : SetupErr) : List Bytes → Except SetupErr (List Nat)
  | [] => .ok []
  | a :: rest =>
    match lookup t (upper a) with
    | none => .error e
    | some v =>
      match mapNames t e rest with
      | .error e' => .error e'
      | .ok vs => .ok (v :: vs)

def kProtocols : Bytes := /- protocols -/ [112, 114, 111, 116, 111, 99, 111, 108, 115]
def kCiphers : Bytes := /- ciphers -/ [99, 105, 112, 104, 101, 114, 115]
def kCurves : Bytes := /- curves -/ [99, 117, 114, 118, 101, 115]
def kClients : Bytes := /- clients -/ [99, 108, 105, 101, 110, 116, 115]
def kAlpn : Bytes := /- alpn -/ [97, 108, 112, 110]
def kDisableSNI : Bytes := /- insecure_disable_sni_matching -/ [105, 110, 115, 101, 99, 117, 114, 101, 95, 100, 105, 115, 97, 98, 108, 101, 95, 115, 110, 105, 95, 109, 97, 116, 99, 104, 105, 110, 103]
def kMustStaple : Bytes := /- must_staple -/ [109, 117, 115, 116, 95, 115, 116, 97, 112, 108, 101]
def kNoRedirect : Bytes := /- no_redirect -/ [110, 111, 95, 114, 101, 100, 105, 114, 101, 99, 116]
def kRequest : Bytes := /- request -/ [114, 101, 113, 117, 101, 115, 116]
def kRequire : Bytes := /- require -/ [114, 101, 113, 117, 105, 114, 101]
def kVerifyIfGiven : Bytes := /- verify_if_given -/ [118, 101, 114, 105, 102, 121, 95, 105, 102, 95, 103, 105, 118, 101, 110]

/-- the `clients` subdirective: (ClientAuth, ClientCerts) -/
def clients (args : List Bytes) : Except SetupErr (Nat × List Bytes) :=
  match args with
  | [] => .error .argCount
  | m :: rest =>
    if m = kRequest then .ok (1, rest)                 -- tls.RequestClientCert
    else if m = kRequire then .ok (2, rest)            -- tls.RequireAnyClientCert
    else if m = kVerifyIfGiven then
      (if rest.isEmpty then .error .argCount else .ok (3, rest))   -- tls.VerifyClientCertIfGiven
    else .ok (4, m :: rest)                            -- tls.RequireAndVerifyClientCert, every argument a CA file

/-- a subdirective other than `insecure_disable_sni_matching` with the remaining tokens of its line -/
def applyOther (c : Raw) (name : Bytes) (args : List Bytes) : Except SetupErr Raw :=
  if name = kProtocols then
    match args with
    | [] => .error .argCount
    | [a] =>
      match lookup protocolTable (lower a) with
      | none => .error .badProtocol
      | some v => .ok { c with minV := v, maxV := v }
    | a :: b :: _ =>
      match lookup protocolTable (lower a) with
      | none => .error .badProtocol
      | some v =>
        match lookup protocolTable (lower b) with
        | none => .error .badProtocol
        | some w => if v > w then .error .minGtMax else .ok { c with minV := v, maxV := w }
  else if name = kCiphers then
    match mapNames cipherTable .badCipher args with
    | .error e => .error e
    | .ok vs => .ok { c with ciphers := c.ciphers ++ vs }
  else if name = kCurves then
    match mapNames curveTable .badCurve args with
    | .error e => .error e
    | .ok vs => .ok { c with curves := c.curves ++ vs }
  else if name = kClients then
    match clients args with
    | .error e => .error e
    | .ok (auth, certs) => .ok { c with clientAuth := auth, clientCerts := certs }
  else if name = kAlpn then
    if args.isEmpty then .error .argCount else .ok { c with alpn := c.alpn ++ args }
  else .error .unknown

/-- the subdirectives without arguments; they do not consume the rest of their line.
`must_staple` and `no_redirect` set nothing that is modelled here. -/
def isFlag (name : Bytes) : Bool := name = kDisableSNI || name = kMustStaple || name = kNoRedirect

def setFlag (c : Raw) (name : Bytes) : Raw := if name = kDisableSNI then { c with disableSNI := true } else c

/-- one line of the block: the subdirective `name` with the remaining tokens `args` of its line
(a flag subdirective leaves the rest of its line to be read as a new subdirective) -/
def applyLine : Raw → Bytes → List Bytes → Except SetupErr Raw
  | c, name, [] => if isFlag name then .ok (setFlag c name) else applyOther c name []
  | c, name, a :: rest =>
    if isFlag name then applyLine (setFlag c name) a rest
    else applyOther c name (a :: rest)

/-- a line of the block: subdirective name and its arguments -/
structure Line where
  name : Bytes
  args : List Bytes
deriving Repr, DecidableEq

def applyLines : Raw → List Line → Except SetupErr Raw
  | c, [] => .ok c
  | c, l :: rest =>
    match applyLine c l.name l.args with
    | .error e => .error e
    | .ok c' => applyLines c' rest

/-- the Config after `setupTLS` (block, then SetDefaultTLSParams), as a `Cfg` of Model/TLSGroup
with the client CA file names kept aside -/
structure Final where
  cfg : Cfg
  clientCerts : List Bytes
deriving Repr, DecidableEq

def finalize (aesni : Bool) (r : Raw) : Final :=
  { cfg := setDefaults aesni
      { hostname := [], enabled := true, minV := r.minV, maxV := r.maxV, ciphers := r.ciphers, curves := r.curves,
        preferServer := false, clientAuth := r.clientAuth, clientCerts := [], alpn := r.alpn,
        disableSNIMatching := r.disableSNI },
    clientCerts := r.clientCerts }

def setupTLS (aesni : Bool) (block : List Line) : Except SetupErr Final :=
  match applyLines {} block with
  | .error e => .error e
  | .ok r => .ok (finalize aesni r)

end Casket.TLSSetup
