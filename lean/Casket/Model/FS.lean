import Casket.Model.Path
/-
A file system as the file-serving code sees it, and `http.Dir.Open`.

The OS file system itself cannot be verified here; it is MODELLED as a finite table of
entries (canonical absolute path as a list of names, directory flag, inode number).  The
inode stands for identity (`os.SameFile`) and for content (each regular file's bytes are a
unique token naming its inode), so hard links are two entries with one inode.  Symbolic
links, permissions and case-insensitive file systems are outside the model.

`osOpen` walks a path the way the kernel does — `..` really goes up — so that the fact
that nothing outside the site root is reachable rests on the jail lemma for `path.Clean`
(Proofs/FileServe.lean), not on the shape of the model.

CORE LEAN ONLY.
-/
namespace Casket.FS
open Casket.Path

structure Entry where
  path  : List Bytes
  isDir : Bool
  ino   : Nat
deriving Repr, DecidableEq

abbrev FS := List Entry

/-- the directory every absolute path starts from -/
def rootEntry : Entry := { path := [], isDir := true, ino := 0 }

/-- `lstat` of a canonical path -/
def stat (fs : FS) (p : List Bytes) : Option Entry :=
  if p = [] then some rootEntry else fs.find? (fun e => e.path = p)

inductive OpenErr
  | notExist   -- ENOENT, or ENOTDIR mapped to ErrNotExist by http.mapOpenError
  | other      -- anything else (invalid name, ENAMETOOLONG): neither IsNotExist nor IsPermission
deriving Repr, DecidableEq

/-- Kernel path walk from directory `cur` (canonical) along `segs`. -/
def osWalk (fs : FS) : List Bytes → List Bytes → Except OpenErr Entry
  | cur, [] =>
    match stat fs cur with
    | some e => .ok e
    | none => .error .notExist
  | cur, s :: rest =>
    match stat fs cur with
    | none => .error .notExist
    | some e =>
      if !e.isDir then .error .notExist
      else if s = [] ∨ s = dotSeg then osWalk fs cur rest
      else if s = dotdotSeg then osWalk fs cur.dropLast rest
      else if s.length > 255 then .error .other
      else osWalk fs (cur ++ [s]) rest

/-- `os.Open` of an absolute path given by its elements -/
def osOpen (fs : FS) (segs : List Bytes) : Except OpenErr Entry := osWalk fs [] segs

/-- `filepath.Localize` on Unix: `fs.ValidPath` (valid UTF-8; the element conditions hold after
`path.Clean`) and no NUL byte. -/
def localizeOk (elems : List Bytes) : Bool :=
  elems.all fun s => validUtf8 s && !s.any (· = 0)

/-- `http.Dir(root).Open(name)`: the elements of `path.Clean("/"+name)` appended to the root's.
(`filepath.Join(dir, path)` re-joins with `/` and the kernel splits again; elements contain no
`/`, so this is the identity — `Proofs.splitOn_joinSlash`.) -/
def dirOpen (fs : FS) (root : List Bytes) (name : Bytes) : Except OpenErr Entry :=
  let elems := jailElems name
  if !localizeOk elems then .error .other
  else osOpen fs (root ++ elems)

/-- `File.Readdir(-1)` of a directory with canonical path `d`: its direct children. -/
def readdir (fs : FS) (d : List Bytes) : List Entry :=
  fs.filter fun e => e.path ≠ [] ∧ e.path.dropLast = d

def Entry.name (e : Entry) : Bytes := e.path.getLast?.getD []

/-- `FileServer.IsHidden(d)`: `os.SameFile` against every hide-list path that opens. -/
def isHidden (fs : FS) (root : List Bytes) (hide : List Bytes) (ino : Nat) : Bool :=
  hide.any fun h =>
    match dirOpen fs root h with
    | .ok he => he.ino = ino
    | .error _ => false

end Casket.FS
