import Casket.Model.Path
/-
basicauth with `htpasswd=<file>` on several sites in one process (C03; seeded regression
C03-htpasswd-cache-keyed-by-relative-name; stale-cache defect repaired on the casket branch).

`GetHtpasswdMatcher(filename, username, siteRoot)` (caskethttp/basicauth/basicauth.go) keeps a
PROCESS-WIDE cache of parsed htpasswd files keyed by `filepath.Join(siteRoot, filename)`; it
survives reloads and is shared by all sites and instances.  A cached table is used only while the
file still has the modification time and size it was parsed with (the repaired code; the original
never looked at the file again).  The model keeps that cache explicitly and runs a whole HISTORY of
configuration loads — each with its own snapshot of the files on disk — through it, so that "the
cache is not observable" is a theorem about the model (Props/C03.lean) and a history-dependent
defect in the real code shows up as a difference.

Modelled: `{SHA}` entries (accept exactly the password they were made from — SHA-1 itself is
trusted) and plain entries (the library also accepts the stored text `{PLAIN}` + password); the last
line for a user wins; a file's stamp stands for (mtime, size).  Not modelled: MD5/bcrypt entries,
malformed files.

CORE LEAN ONLY.
-/
namespace Casket.Htpasswd
open Casket.Path

inductive Secret
  | sha (pw : Bytes)       -- `user:{SHA}base64(sha1(pw))`
  | plain (s : Bytes)      -- `user:s`
deriving Repr, DecidableEq

/-- `EncodedPasswd.MatchesPassword` -/
def Secret.accepts : Secret → Bytes → Bool
  | .sha pw, x => x = pw
  | .plain s, x => x = s || (b! "{PLAIN}") ++ x = s

/-- a parsed htpasswd file, in file order -/
abbrev Table := List (Bytes × Secret)

/-- `pm[user]` after parsing: the last line for the user -/
def Table.lookup (t : Table) (user : Bytes) : Option Secret :=
  (t.reverse.find? (fun e => e.1 = user)).map (·.2)

structure SiteCfg where
  host : Bytes
  root : Bytes          -- absolute site root
  file : Bytes          -- the name after `htpasswd=`, relative to the root
  user : Bytes          -- the user of the basicauth rule
deriving Repr, DecidableEq

/-- `filepath.Join(siteRoot, filename)`: the cache key and the file that is opened -/
def SiteCfg.key (s : SiteCfg) : Bytes := clean (s.root ++ slash :: s.file)

/-- the htpasswd files on disk at one moment: absolute path ↦ (stamp, parsed content); the stamp
stands for modification time and size -/
abbrev Files := List (Bytes × Nat × Table)

def Files.get (files : Files) (k : Bytes) : Option (Nat × Table) := (files.find? (fun e => e.1 = k)).map (·.2)

/-- the process-wide `htpasswords` map: path ↦ (stamp it was parsed at, table) -/
abbrev Cache := List (Bytes × Nat × Table)

def Cache.get (c : Cache) (k : Bytes) : Option (Nat × Table) := (c.find? (fun e => e.1 = k)).map (·.2)

/-- `GetHtpasswdMatcher` up to the user lookup: open and stat the file, use the cached table if the
stamp is unchanged, parse and cache it otherwise -/
def getTable (files : Files) (c : Cache) (s : SiteCfg) : Cache × Option Table :=
  match files.get s.key with
  | none => (c, none)                      -- open fails
  | some (st, t) =>
    match c.get s.key with
    | some (st', t') => if st' = st then (c, some t') else ((s.key, st, t) :: c, some t)
    | none => ((s.key, st, t) :: c, some t)

/-- the password matcher the site's rule ends up with (none: setup fails) -/
def getMatcher (files : Files) (c : Cache) (s : SiteCfg) : Cache × Option Secret :=
  let r := getTable files c s
  (r.1, r.2.bind (fun t => t.lookup s.user))

/-- one configuration load: the sites' basicauth directives are set up in order -/
def loadSites (files : Files) : Cache → List SiteCfg → Cache × List (SiteCfg × Option Secret)
  | c, [] => (c, [])
  | c, s :: rest =>
    let r := getMatcher files c s
    let rr := loadSites files r.1 rest
    (rr.1, (s, r.2) :: rr.2)

/-- a load: the files as they are on disk at that moment, and the sites of the Casketfile -/
abbrev Load := Files × List SiteCfg

/-- a history of loads (starts, reloads); the sites of the last one are the ones being served -/
def runHistory : Cache → List Load → Cache × List (SiteCfg × Option Secret)
  | c, [] => (c, [])
  | c, [l] => loadSites l.1 c l.2
  | c, l :: rest => runHistory (loadSites l.1 c l.2).1 rest

inductive Answer
  | noSite                 -- no site of the last load has this host
  | unauthorized
  | content (root : Bytes) -- the file below this site's root was served
deriving Repr, DecidableEq

/-- a request for `path` on `host` with optional credentials, after the history -/
def serve (c0 : Cache) (hist : List Load) (host path : Bytes) (creds : Option (Bytes × Bytes)) : Answer :=
  match (runHistory c0 hist).2.find? (fun sm => sm.1.host = host) with
  | none => .noSite
  | some (s, m) =>
    if pathMatches path (b! "/secret") then
      match m, creds with
      | some sec, some (u, pw) => if u = s.user ∧ sec.accepts pw = true then .content s.root else .unauthorized
      | _, _ => .unauthorized
    else .content s.root

/-- what the judge compares with: the matcher built from the site's OWN file as it was at the
load, no cache, no history -/
def ownMatcher (files : Files) (s : SiteCfg) : Option Secret :=
  (files.get s.key).bind (fun st => st.2.lookup s.user)

end Casket.Htpasswd
