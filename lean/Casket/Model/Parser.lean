import Casket.Model.Dispenser
/-
Model of casketfile/parse.go (core Lean only).

`Parse(filename, input, validDirectives)` = `parse cfg fuel input`.  Everything outside the
function (the environment, the directory imports are resolved in) is a parameter:
  * `cfg.env`    : the process environment (`os.Getenv`; unset = empty)
  * `cfg.fs`     : the regular files of the ONE directory relative import patterns resolve in,
                   in `filepath.Glob` (sorted) order.  Path resolution with separators, symlinks,
                   directories and I/O errors is the operating system's business and is not modelled.
  * `cfg.valid`  : `validDirectives` (`none` = nil = accept every directive)
  * `cfg.cycleCheck` : `true` = the code after the `fix:` commit (import cycles are detected);
                   `false` = the code as it was (finding F8: an import cycle is followed forever).
Loops are driven by `fuel`; running out of fuel is the answer `timeout` (the harness' watchdog).
Every slice/index expression of the Go code is a checked operation that answers `panic`.
-/
namespace Casket.Parser
open Casket.Lexer Casket.Dispenser

/-- result of a parser step -/
inductive Res (α : Type) where
  | ok (a : α)
  | err (cls : String) (file : String) (line : Nat)
  | panic (msg : String)
  | timeout
deriving Repr, DecidableEq

def Res.bind {α β : Type} (r : Res α) (f : α → Res β) : Res β :=
  match r with
  | .ok a => f a
  | .err c fl l => .err c fl l
  | .panic m => .panic m
  | .timeout => .timeout

instance : Monad Res where
  pure := Res.ok
  bind := Res.bind

/-! ### strings -/

/-- `strings.Index(s, pat)` -/
def indexOfGo (pat : Bytes) : Bytes → Nat → Option Nat
  | [], i => if pat.isEmpty then some i else none
  | b :: t, i => if pat.isPrefixOf (b :: t) then some i else indexOfGo pat t (i + 1)

def indexOf (s pat : Bytes) : Option Nat := indexOfGo pat s 0

/-- `strings.Replace(s, old, new, -1)` for non-empty `old` (`skip` = bytes of a match still to drop) -/
def replaceAllGo (old new : Bytes) : Bytes → Nat → Bytes
  | [], _ => []
  | b :: t, skip =>
    if skip > 0 then replaceAllGo old new t (skip - 1)
    else if old.isPrefixOf (b :: t) then new ++ replaceAllGo old new t (old.length - 1)
    else b :: replaceAllGo old new t 0

def replaceAll (s old new : Bytes) : Bytes := replaceAllGo old new s 0

abbrev Env := List (Bytes × Bytes)

def getenv (env : Env) (name : Bytes) : Bytes :=
  match env.find? (fun p => p.1 == name) with
  | some p => p.2
  | none => []

/-- `replaceEnvReferences(s, refStart, refEnd)`; `none` = the loop did not end within the fuel. -/
def replaceEnvRefs (env : Env) (refStart refEnd : Bytes) : Nat → Bytes → Option Bytes
  | 0, _ => none
  | fuel + 1, s =>
    match indexOf s refStart with
    | none => some s
    | some i =>
      match indexOf (s.drop i) refEnd with
      | none => some s
      | some e =>
        -- endIndex = e + i ; the test is endIndex > index + len(refStart)
        if e > refStart.length then
          let ref := (s.drop i).take (e + refEnd.length)
          let name := (ref.drop refStart.length).take (ref.length - refStart.length - refEnd.length)
          replaceEnvRefs env refStart refEnd fuel (replaceAll s ref (getenv env name))
        else some s

def pctOpen : Bytes := [0x7B, 0x25]   -- {%
def pctClose : Bytes := [0x25, 0x7D]  -- %}
def dolOpen : Bytes := [0x7B, 0x24]   -- {$
def dolClose : Bytes := [0x7D]        -- }

/-- `replaceEnvVars` -/
def replaceEnvVars (env : Env) (fuel : Nat) (s : Bytes) : Option Bytes :=
  match replaceEnvRefs env pctOpen pctClose fuel s with
  | none => none
  | some s1 => replaceEnvRefs env dolOpen dolClose fuel s1

/-! ### the directory imports are resolved in -/

structure FS where
  files : List (String × Bytes)
deriving Repr

/-- UTF-8 bytes of a code point (kernel-reducible, unlike `String.toUTF8`) -/
def encodeCp (n : Nat) : Bytes :=
  if n < 0x80 then [n.toUInt8]
  else if n < 0x800 then [(0xC0 + n / 64).toUInt8, (0x80 + n % 64).toUInt8]
  else if n < 0x10000 then [(0xE0 + n / 4096).toUInt8, (0x80 + n / 64 % 64).toUInt8, (0x80 + n % 64).toUInt8]
  else [(0xF0 + n / 262144).toUInt8, (0x80 + n / 4096 % 64).toUInt8, (0x80 + n / 64 % 64).toUInt8, (0x80 + n % 64).toUInt8]

def strBytes (s : String) : Bytes := s.toList.flatMap fun c => encodeCp c.toNat

/-- `filepath.Match` for patterns without character classes (`*`, `?`, `\c`, literals) -/
def globMatch : Bytes → Bytes → Bool
  | [], n => n.isEmpty
  | c :: p, n =>
    if c == 0x2A then (List.range (n.length + 1)).any fun k => globMatch p (n.drop k)
    else if c == 0x3F then
      match n with
      | _ :: r => globMatch p r
      | [] => false
    else if c == 0x5C then
      match p with
      | c2 :: p2 =>
        match n with
        | x :: r => x == c2 && globMatch p2 r
        | [] => false
      | [] => false
    else
      match n with
      | x :: r => x == c && globMatch p r
      | [] => false

/-- malformed for `filepath.Match`: an unescaped `[` (never closed here, see `resolve`) or a trailing `\` -/
def badPattern : Bytes → Bool
  | [] => false
  | c :: p =>
    if c == 0x5C then
      match p with
      | _ :: p2 => badPattern p2
      | [] => true
    else if c == 0x5B then true
    else badPattern p

inductive Resolved where
  | fsError                                  -- any of doImport's file-system errors
  | files (fs : List (String × Bytes))
deriving DecidableEq

/-- the glob part of `doImport` for a pattern without path separators -/
def resolve (fs : FS) (pat : Bytes) : Resolved :=
  if pat.count 0x2A > 1 || pat.count 0x3F > 1 || (pat.contains 0x5B && pat.contains 0x5D) then .fsError
  else if badPattern pat then .fsError
  else
    let ms := fs.files.filter fun f => globMatch pat (strBytes f.1)
    if ms.isEmpty && !(pat.any fun b => b == 0x2A || b == 0x3F || b == 0x5B || b == 0x5D) then .fsError
    else .files ms

/-! ### parser state -/

/-- what an import directive can name -/
inductive ImpName where
  | file (name : String)
  | snippet (name : Bytes)
deriving DecidableEq, Repr

/-- one imported source whose tokens the cursor has not passed yet: `after` = number of tokens that
followed its last token when it was spliced in -/
structure Active where
  name : ImpName
  after : Nat
deriving DecidableEq, Repr

structure Cfg where
  env : Env := []
  fs : FS := ⟨[]⟩
  valid : Option (List Bytes) := none
  cycleCheck : Bool := true
  envFuel : Nat := 200

structure ServerBlock where
  keys : List Bytes
  tokens : List (Bytes × List Token)      -- in order of first appearance; printed sorted
deriving Repr, DecidableEq

structure PState where
  d : Disp
  keys : List Bytes := []
  btoks : List (Bytes × List Token) := []
  eof : Bool := false
  snippets : List (Bytes × List Token) := []
  /-- stack of import directives being expanded (innermost first); each frame lists the sources
  spliced by one directive that are not finished yet, in order -/
  frames : List (List Active) := []
deriving Repr, DecidableEq

def errAt {α : Type} (cls : String) (d : Disp) : Res α := .err cls d.errPos.1 d.errPos.2

def envR (cfg : Cfg) (s : Bytes) : Res Bytes :=
  match replaceEnvVars cfg.env cfg.envFuel s with
  | some r => .ok r
  | none => .timeout

def sImport : Bytes := [0x69, 0x6D, 0x70, 0x6F, 0x72, 0x74]

/-- `ArgErr` -/
def argErr {α : Type} (d : Disp) : Res α := errAt "argerr" d

/-- drop the sources that ended before a directive followed by `a` tokens -/
def dropFinished (a : Nat) : List Active → List Active
  | [] => []
  | x :: xs => if a < x.after then dropFinished a xs else x :: xs

/-- pop the frames whose sources are all finished -/
def popFrames (a : Nat) : List (List Active) → List (List Active)
  | [] => []
  | f :: fs =>
    match dropFinished a f with
    | [] => popFrames a fs
    | f' => f' :: fs

/-- is `n` one of the sources the cursor is currently inside? -/
def importing (frames : List (List Active)) (n : ImpName) : Bool :=
  frames.any fun f => match f with
    | x :: _ => x.name == n
    | [] => false

def addTok (m : List (Bytes × List Token)) (k : Bytes) (t : Token) : List (Bytes × List Token) :=
  if m.any (fun p => p.1 == k) then m.map (fun p => if p.1 == k then (p.1, p.2 ++ [t]) else p)
  else m ++ [(k, [t])]

def lookupSnippet (m : List (Bytes × List Token)) (k : Bytes) : Option (List Token) :=
  (m.find? (fun p => p.1 == k)).map (·.2)

/-- lex the matched files, attach their names, and give each its `after` count -/
def importFiles : List (String × Bytes) → List (String × List Token)
  | [] => []
  | (n, b) :: rest => (n, (lex b).map fun t => { t with file := n }) :: importFiles rest

def activesOf : List (String × List Token) → Nat → List Active
  | [], _ => []
  | (n, _) :: rest, a =>
    let restLen := (rest.map (·.2.length)).sum
    ⟨.file n, a + restLen⟩ :: activesOf rest a

/-- the errors of the loop over the matched files, in order: a file the cursor is inside of is an import cycle;
an EMPTY file can not be imported (`lexer.load` fails with EOF: "Could not read tokens while importing") -/
def scanFiles (check : Bool) (frames : List (List Active)) : List (String × Bytes) → Option String
  | [] => none
  | f :: rest =>
    if check && importing frames (.file f.1) then some "import-cycle"
    else if f.2.isEmpty then some "import-fs"
    else scanFiles check frames rest

/-- what the import directive names (`pat`, after environment replacement): the tokens to splice in and the
import stack afterwards.  `d1` = the dispenser on the argument (for error positions), `afterLen` = number of
tokens following the directive. -/
def resolveImport (cfg : Cfg) (s : PState) (d1 : Disp) (pat : Bytes) (afterLen : Nat) :
    Res (List Token × List (List Active)) :=
  let frames := if cfg.cycleCheck then popFrames afterLen s.frames else s.frames
  match lookupSnippet s.snippets pat with
  | some body =>
    if cfg.cycleCheck && importing frames (.snippet pat) then errAt "import-cycle" d1
    else .ok (body, if cfg.cycleCheck then [⟨.snippet pat, afterLen⟩] :: frames else frames)
  | none =>
    match resolve cfg.fs pat with
    | .fsError => errAt "import-fs" d1
    | .files ms =>
      match scanFiles cfg.cycleCheck frames ms with
      | some cls => errAt cls d1
      | none =>
        let imps := importFiles ms
        .ok (imps.flatMap (·.2),
          if cfg.cycleCheck then
            (match activesOf imps afterLen with
             | [] => frames
             | f => f :: frames)
          else frames)

/-- `doImport` -/
def doImport (cfg : Cfg) (s : PState) : Res PState :=
  let r := s.d.nextArg
  if !r.1 then argErr s.d
  else
    (envR cfg r.2.val).bind fun pat =>
    if pat.isEmpty then errAt "import-empty" r.2
    else
      let r2 := r.2.nextArg
      if r2.1 then errAt "import-many" r2.2
      else
        let c := r.2.cursor
        -- tokensBefore := p.tokens[:p.cursor-1] ; tokensAfter := p.tokens[p.cursor+1:]
        if c - 1 < 0 ∨ c + 1 > r.2.len then .panic "doImport: slice bounds out of range"
        else
          let before := r.2.tokens.take (c - 1).toNat
          let after := r.2.tokens.drop (c + 1).toNat
          (resolveImport cfg s r.2 pat after.length).bind fun imp =>
            .ok { s with d := { r.2 with tokens := before ++ imp.1 ++ after, cursor := c - 1 }, frames := imp.2 }

def back (s : PState) : PState := { s with d := s.d.setCursor (s.d.cursor - 1) }

def validDirective (cfg : Cfg) (dir : Bytes) : Bool :=
  match cfg.valid with
  | none => true
  | some l => l.contains dir

/-- `p.tokens[p.cursor].Text = replaceEnvVars(p.tokens[p.cursor].Text); p.block.Tokens[dir] = append(…, p.tokens[p.cursor])` -/
def appendCur (cfg : Cfg) (dir : Bytes) (s : PState) : Res PState :=
  match s.d.tok? s.d.cursor with
  | none => .panic "directive: index out of range"
  | some t =>
    (envR cfg t.text).bind fun txt =>
      .ok { s with d := { s.d with tokens := s.d.tokens.set s.d.cursor.toNat { t with text := txt } },
                   btoks := addTok s.btoks dir { t with text := txt } }

/-- the loop of `directive()` after the directive token was recorded -/
def directiveLoop (cfg : Cfg) (dir : Bytes) : Nat → PState → Nat → Res PState
  | 0, _, _ => .timeout
  | fuel + 1, s, nesting =>
    let r := s.d.next
    if !r.1 then
      if nesting > 0 then errAt "eof" r.2 else .ok s
    else
      let s1 := { s with d := r.2 }
      let v := r.2.val
      if v == lbrace then (appendCur cfg dir s1).bind fun s2 => directiveLoop cfg dir fuel s2 (nesting + 1)
      else if r.2.isNewLine && nesting == 0 then .ok (back s1)                       -- read too far
      else if v == rbrace && nesting > 0 then (appendCur cfg dir s1).bind fun s2 => directiveLoop cfg dir fuel s2 (nesting - 1)
      else if v == rbrace && nesting == 0 then errAt "unexpected-close" r.2
      else if v == sImport && r.2.isNewLine then
        (doImport cfg s1).bind fun s2 => directiveLoop cfg dir fuel (back s2) nesting
      else (appendCur cfg dir s1).bind fun s2 => directiveLoop cfg dir fuel s2 nesting

/-- `directive()` -/
def directive (cfg : Cfg) (fuel : Nat) (s : PState) : Res PState :=
  (envR cfg s.d.val).bind fun dir =>
  if !validDirective cfg dir then errAt "unknown-directive" s.d
  else
    match s.d.tok? s.d.cursor with
    | none => .panic "directive: index out of range"
    | some t => directiveLoop cfg dir fuel { s with btoks := addTok s.btoks dir t } 0

/-- `directives()` -/
def directives (cfg : Cfg) : Nat → PState → Res PState
  | 0, _ => .timeout
  | fuel + 1, s =>
    let r := s.d.next
    if !r.1 then .ok s
    else
      let s1 := { s with d := r.2 }
      if r.2.val == rbrace then .ok s1
      else if r.2.val == sImport then (doImport cfg s1).bind fun s2 => directives cfg fuel (back s2)
      else (directive cfg (fuel + 1) s1).bind fun s2 => directives cfg fuel s2

/-- one address token: the keys and the "expecting another" flag afterwards.
`tkn[len(tkn)-1]` sits behind `tkn != ""`. -/
def addKey (keys : List Bytes) (expecting : Bool) (tkn : Bytes) : List Bytes × Bool :=
  if tkn.isEmpty then (keys, expecting)
  else if tkn.getLast? == some 0x2C then (keys ++ [tkn.dropLast], true)
  else (keys ++ [tkn], false)

/-- `addresses()` -/
def addresses (cfg : Cfg) : Nat → PState → Bool → Res PState
  | 0, _, _ => .timeout
  | fuel + 1, s, expecting =>
    (envR cfg s.d.val).bind fun tkn =>
    if tkn == sImport && s.d.isNewLine then (doImport cfg s).bind fun s2 => addresses cfg fuel s2 expecting
    else if tkn == lbrace then
      if expecting then errAt "expected-another-address" s.d else .ok s
    else
      let ke := addKey s.keys expecting tkn
      let r := s.d.next
      let s1 := { s with d := r.2, keys := ke.1 }
      if ke.2 && !r.1 then errAt "eof" r.2
      else if !r.1 then .ok { s1 with eof := true }
      else if !ke.2 && r.2.isNewLine then .ok s1
      else addresses cfg fuel s1 ke.2

def lparen : UInt8 := 0x28
def rparen : UInt8 := 0x29

/-- `isSnippet` -/
def isSnippet (keys : List Bytes) : Option Bytes :=
  match keys with
  | [k] =>
    if k.head? == some lparen && k.getLast? == some rparen then
      let r := k.drop 1
      some (if r.getLast? == some rparen then r.dropLast else r)
    else none
  | _ => none

/-- the collecting loop of `snippetTokens()` -/
def snippetLoop : Nat → PState → Nat → List Token → Res (PState × List Token)
  | 0, _, _, _ => .timeout
  | fuel + 1, s, count, acc =>
    let r := s.d.next
    if !r.1 then
      if count != 0 then errAt "syntax-close" r.2 else .ok (s, acc)
    else
      let s1 := { s with d := r.2 }
      let count1 := if r.2.val == rbrace then count - 1 else count
      if r.2.val == rbrace && count1 == 0 then .ok (s1, acc)
      else
        let count2 := if r.2.val == lbrace then count1 + 1 else count1
        match r.2.tok? r.2.cursor with
        | none => .panic "snippetTokens: index out of range"
        | some t => snippetLoop fuel s1 count2 (acc ++ [t])

/-- `snippetTokens()` -/
def snippetTokens (fuel : Nat) (s : PState) : Res (PState × List Token) :=
  if s.d.val != lbrace then errAt "syntax-open" s.d else snippetLoop fuel s 1 []

/-- `blockContents()` -/
def blockContents (cfg : Cfg) (fuel : Nat) (s : PState) : Res PState :=
  let noOpen := s.d.val != lbrace
  let s0 := if noOpen then back s else s
  (directives cfg fuel s0).bind fun s1 =>
    if !noOpen && s1.d.val != rbrace then errAt "syntax-close" s1.d else .ok s1

/-- `begin()` (after `parseOne` reset the block) -/
def begin (cfg : Cfg) (fuel : Nat) (s : PState) : Res PState :=
  if s.d.tokens.isEmpty then .ok s
  else
    (addresses cfg fuel s false).bind fun s1 =>
    if s1.eof then .ok s1
    else
      match isSnippet s1.keys with
      | some name =>
        if (lookupSnippet s1.snippets name).isSome then errAt "snippet-redeclared" s1.d
        else
          (snippetTokens fuel s1).bind fun st =>
            .ok { st.1 with snippets := st.1.snippets ++ [(name, st.2)], keys := [] }
      | none => blockContents cfg fuel s1

/-- `parseAll()` -/
def parseAll (cfg : Cfg) : Nat → PState → List ServerBlock → Res (List ServerBlock)
  | 0, _, _ => .timeout
  | fuel + 1, s, blocks =>
    let r := s.d.next
    if !r.1 then .ok blocks
    else
      (begin cfg (fuel + 1) { s with d := r.2, keys := [], btoks := [] }).bind fun s1 =>
        parseAll cfg fuel s1 (if s1.keys.isEmpty then blocks else blocks ++ [⟨s1.keys, s1.btoks⟩])

/-- `Parse` over already lexed tokens -/
def parseTokens (cfg : Cfg) (fuel : Nat) (filename : String) (toks : List Token) : Res (List ServerBlock) :=
  parseAll cfg fuel { d := Disp.new filename toks } []

/-- `casketfile.Parse(filename, input, validDirectives)` -/
def parse (cfg : Cfg) (fuel : Nat) (filename : String) (input : Bytes) : Res (List ServerBlock) :=
  parseTokens cfg fuel filename (lex input)

end Casket.Parser
