/-
Model of casketfile/lexer.go (core Lean only; linked into the model driver).

  * `decode`   = the rune stream `bufio.Reader.ReadRune` delivers for a byte string
                 (utf8.DecodeRune: every ill-formed byte becomes U+FFFD, width 1);
                 a rune is kept together with the bytes `string(rune)` writes back.
  * `lexRunes` = `allTokens`: the loop `for l.next()` with the `next` state machine
                 (quoted / escaped / comment flags, `\r` skipping, line counting,
                 `unicode.IsSpace`) in ONE structural recursion over the runes.  The flags are
                 locals of `next`, so they are reset whenever a token is returned — which is why
                 `a#b c` lexes to `a`, `c` (the comment flag does not survive the token boundary).
  * `lex`      = `load` (byte-order-mark skip) followed by `allTokens`.
-/
namespace Casket.Lexer

abbrev Bytes := List UInt8

/-- One decoded rune: its code point and the bytes `string(rune)` yields. -/
structure Chr where
  cp : Nat
  bytes : Bytes
deriving DecidableEq, Repr

/-- U+FFFD as produced for ill-formed input. -/
def badChr : Chr := ⟨0xFFFD, [0xEF, 0xBF, 0xBD]⟩

def isCont (b : UInt8) : Bool := decide (0x80 ≤ b) && decide (b ≤ 0xBF)

def inRange (lo hi b : UInt8) : Bool := decide (lo ≤ b) && decide (b ≤ hi)

/-- second-byte range of a three byte sequence (utf8 acceptRanges) -/
def lo3 (b0 : UInt8) : UInt8 := if b0 == 0xE0 then 0xA0 else 0x80
def hi3 (b0 : UInt8) : UInt8 := if b0 == 0xED then 0x9F else 0xBF
/-- second-byte range of a four byte sequence -/
def lo4 (b0 : UInt8) : UInt8 := if b0 == 0xF0 then 0x90 else 0x80
def hi4 (b0 : UInt8) : UInt8 := if b0 == 0xF4 then 0x8F else 0xBF

def cp2 (b0 b1 : UInt8) : Nat := (b0.toNat - 0xC0) * 64 + (b1.toNat - 0x80)
def cp3 (b0 b1 b2 : UInt8) : Nat := (b0.toNat - 0xE0) * 4096 + (b1.toNat - 0x80) * 64 + (b2.toNat - 0x80)
def cp4 (b0 b1 b2 b3 : UInt8) : Nat :=
  (b0.toNat - 0xF0) * 262144 + (b1.toNat - 0x80) * 4096 + (b2.toNat - 0x80) * 64 + (b3.toNat - 0x80)

/-- `utf8.DecodeRune` applied repeatedly (what successive `ReadRune` calls return). -/
def decode : Bytes → List Chr
  | [] => []
  | b0 :: rest =>
    if b0 < 0x80 then ⟨b0.toNat, [b0]⟩ :: decode rest
    else if b0 < 0xC2 then badChr :: decode rest
    else if b0 < 0xE0 then
      match rest with
      | b1 :: r1 =>
        if isCont b1 then ⟨cp2 b0 b1, [b0, b1]⟩ :: decode r1 else badChr :: decode (b1 :: r1)
      | [] => [badChr]
    else if b0 < 0xF0 then
      match rest with
      | b1 :: b2 :: r2 =>
        if inRange (lo3 b0) (hi3 b0) b1 && isCont b2 then ⟨cp3 b0 b1 b2, [b0, b1, b2]⟩ :: decode r2
        else badChr :: decode (b1 :: b2 :: r2)
      | [b1] => badChr :: decode [b1]
      | [] => [badChr]
    else if b0 < 0xF5 then
      match rest with
      | b1 :: b2 :: b3 :: r3 =>
        if inRange (lo4 b0) (hi4 b0) b1 && isCont b2 && isCont b3 then
          ⟨cp4 b0 b1 b2 b3, [b0, b1, b2, b3]⟩ :: decode r3
        else badChr :: decode (b1 :: b2 :: b3 :: r3)
      | [b1, b2] => badChr :: decode [b1, b2]
      | [b1] => badChr :: decode [b1]
      | [] => [badChr]
    else badChr :: decode rest

/-- `unicode.IsSpace` (the White_Space property). -/
def isSpace (cp : Nat) : Bool :=
  cp == 0x09 || cp == 0x0A || cp == 0x0B || cp == 0x0C || cp == 0x0D || cp == 0x20 ||
  cp == 0x85 || cp == 0xA0 || cp == 0x1680 || (decide (0x2000 ≤ cp) && decide (cp ≤ 0x200A)) ||
  cp == 0x2028 || cp == 0x2029 || cp == 0x202F || cp == 0x205F || cp == 0x3000

/-- A token as the lexer produces it (`File` is filled in by imports). -/
structure Token where
  file : String
  line : Nat
  text : Bytes
deriving DecidableEq, Repr

def textOf (val : List Chr) : Bytes := val.flatMap Chr.bytes

def bslash : Chr := ⟨0x5C, [0x5C]⟩

def mkTok (tokLine : Nat) (val : List Chr) : Token := ⟨"", tokLine, textOf val⟩

/-- `allTokens`: `line` = `l.line`, `tokLine` = `l.token.Line`, `val`, `comment`, `quoted`,
`escaped` = the locals of `next`. -/
def lexRunes : List Chr → (line tokLine : Nat) → (val : List Chr) → (comment quoted escaped : Bool) → List Token
  | [], _, tokLine, val, _, _, _ => if val.isEmpty then [] else [mkTok tokLine val]
  | c :: cs, line, tokLine, val, comment, quoted, escaped =>
    if quoted then
      if !escaped && c.cp == 0x5C then lexRunes cs line tokLine val comment true true
      else if !escaped && c.cp == 0x22 then mkTok tokLine val :: lexRunes cs line tokLine [] false false false
      else
        let line' := if c.cp == 0x0A then line + 1 else line
        let val' := if escaped && c.cp != 0x22 then val ++ [bslash, c] else val ++ [c]
        lexRunes cs line' tokLine val' comment true false
    else if isSpace c.cp then
      if c.cp == 0x0D then lexRunes cs line tokLine val comment false escaped
      else
        let line' := if c.cp == 0x0A then line + 1 else line
        let comment' := if c.cp == 0x0A then false else comment
        if !val.isEmpty then mkTok tokLine val :: lexRunes cs line' tokLine [] false false false
        else lexRunes cs line' tokLine val comment' false escaped
    else if comment || c.cp == 0x23 then lexRunes cs line tokLine val true false escaped
    else if val.isEmpty then
      if c.cp == 0x22 then lexRunes cs line line [] false true escaped
      else lexRunes cs line line [c] false false escaped
    else lexRunes cs line tokLine (val ++ [c]) false false escaped

/-- `lexer.load`: skip one leading U+FEFF. -/
def skipBOM : List Chr → List Chr
  | c :: cs => if c.cp == 0xFEFF then cs else c :: cs
  | [] => []

/-- `allTokens(input)` for the whole byte string. -/
def lex (input : Bytes) : List Token := lexRunes (skipBOM (decode input)) 1 0 [] false false false

end Casket.Lexer
