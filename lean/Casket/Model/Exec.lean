/-
Model of how a server block's directive lines take effect (C09).

  * casketfile/parse.go `directive()`: every token of a directive line (the directive name, its
    arguments and the tokens of its `{ … }` block) is appended to `block.Tokens[dir]`; the map is
    keyed by directive name, so the position of the line among lines of OTHER directives is lost at
    parse time (`parseLines`, `tokensOf`).
  * httpserver/plugin.go `InspectServerBlocks`: adds a bare `errors` directive to a block that has
    `gzip` but no `errors` (`inspect`).
  * casket.go `executeDirectives` also runs the parsing callbacks registered after a directive
    (`RegisterParsingCallback(serverType, dir, f)`: root → hideCasketfile, tls → activateHTTPS) right
    after that directive's setups of all blocks (`execEvents`, `Event.cb`).
  * casket.go `executeDirectives`: outer loop over the server type's directive list, then over
    the server blocks, then over the block's keys; the setup function of a directive runs iff the
    block has tokens for it, and receives all of them (`execSeq`).
  * caskethttp/httpserver: a directive's setup calls `SiteConfig.AddMiddleware` (append);
    `NewServer` compiles the list from the back, so the first added middleware is the outermost
    (`siteMiddleware`, `compile`).

CORE LEAN ONLY: this file is linked into the model driver.
-/
namespace Casket.Exec

abbrev Dir := String

/-- one directive line of a server block: the directive and all its tokens (name included) -/
structure Line where
  dir    : Dir
  tokens : List String
deriving Repr, DecidableEq

/-- `ServerBlock.Tokens` as an association list (a Go map: only lookups are meaningful) -/
abbrev TokMap := List (Dir × List String)

/-- `p.block.Tokens[dir] = append(p.block.Tokens[dir], tok…)` -/
def appendTokens : TokMap → Dir → List String → TokMap
  | [], d, ts => [(d, ts)]
  | (k, v) :: rest, d, ts => if k = d then (k, v ++ ts) :: rest else (k, v) :: appendTokens rest d ts

/-- the parser's loop over the lines of one block -/
def parseLinesGo : List Line → TokMap → TokMap
  | [], m => m
  | l :: ls, m => parseLinesGo ls (appendTokens m l.dir l.tokens)

def parseLines (ls : List Line) : TokMap := parseLinesGo ls []

/-- `tokens, ok := sb.Tokens[dir]` -/
def tokensOf (m : TokMap) (d : Dir) : Option (List String) :=
  (m.find? fun p => decide (p.1 = d)).map (·.2)

/-- `httpContext.InspectServerBlocks`: a block with `gzip` and without `errors` is given a bare
`errors` directive (so that error pages are written inside the gzip writer) -/
def inspect (m : TokMap) : TokMap :=
  if (tokensOf m "gzip").isSome && (tokensOf m "errors").isNone then m ++ [("errors", ["errors"])] else m

structure Block where
  keys  : List String
  lines : List Line
deriving Repr, DecidableEq

/-- one call of a directive's setup function -/
structure Call where
  dir    : Dir
  block  : Nat
  key    : Nat
  tokens : List String
deriving Repr, DecidableEq

/-- the `for j, key := range sb.Keys` loop for directive `d` and block number `i` -/
def callsForKeys (d : Dir) (i : Nat) (toks : Option (List String)) : Nat → List String → List Call
  | _, [] => []
  | j, _ :: ks =>
    match toks with
    | some ts => { dir := d, block := i, key := j, tokens := ts } :: callsForKeys d i toks (j + 1) ks
    | none => callsForKeys d i toks (j + 1) ks

/-- the `for i, sb := range sblocks` loop for directive `d` -/
def callsForBlocks (d : Dir) : Nat → List Block → List Call
  | _, [] => []
  | i, b :: bs => callsForKeys d i (tokensOf (inspect (parseLines b.lines)) d) 0 b.keys ++ callsForBlocks d (i + 1) bs

/-- `executeDirectives`: the sequence of setup calls -/
def execSeq : List Dir → List Block → List Call
  | [], _ => []
  | d :: ds, blocks => callsForBlocks d 0 blocks ++ execSeq ds blocks

/-- what `executeDirectives` does, in order: setup calls, and — on a real start — the parsing
callbacks: `parsingCallbacks[serverType][dir]` run right after the loop over the blocks for `dir`,
whether or not any block uses `dir` (`cbs d`: a callback is registered after `d`) -/
inductive Event where
  | setup (c : Call)
  | cb (dir : Dir)
deriving Repr, DecidableEq

def Event.dir : Event → Dir
  | .setup c => c.dir
  | .cb d => d

/-- `executeDirectives` with `justValidate = false` -/
def execEvents (cbs : Dir → Bool) : List Dir → List Block → List Event
  | [], _ => []
  | d :: ds, blocks =>
    (callsForBlocks d 0 blocks).map Event.setup ++ (if cbs d then [Event.cb d] else []) ++ execEvents cbs ds blocks

/-- the middleware list of site (block `i`, key `j`): one entry per setup call of a directive
that adds a handler, in call order (`AddMiddleware` appends) -/
def siteMiddleware (adds : Dir → Bool) (calls : List Call) (i j : Nat) : List Dir :=
  (calls.filter fun c => c.block == i && c.key == j && adds c.dir).map (·.dir)

/-- a handler chain: which middleware wraps which -/
inductive Chain where
  | fileServer
  | wrap (mw : Dir) (next : Chain)
deriving Repr, DecidableEq

/-- `NewServer`: `for i := len(mw)-1; i >= 0; i-- { stack = mw[i](stack) }` -/
def compile : List Dir → Chain
  | [] => .fileServer
  | m :: ms => .wrap m (compile ms)

/-- middleware names from the outside in -/
def Chain.order : Chain → List Dir
  | .fileServer => []
  | .wrap m next => m :: next.order

/-- position of `d` in the directive list -/
def idx (D : List Dir) (d : Dir) : Nat := D.findIdx (· == d)

/-- the directives of the standard distribution whose setup adds a request handler to the site
(read from the setup functions; the stream `c09.perm` compares this with the handler chain the
real loader builds) -/
def middlewareDirectives : List Dir :=
  ["limits", "request_id", "log", "tryfiles", "rewrite", "ext", "gzip", "header", "errors", "basicauth", "redir",
   "status", "mime", "internal", "pprof", "expvar", "push", "templates", "proxy", "fastcgi", "websocket",
   "markdown", "browse"]

def addsMiddleware (d : Dir) : Bool := middlewareDirectives.contains d

/-- position of an event in the documented schedule: the setups of the directive at list position
`i` have rank `2i`, its parsing callback rank `2i+1` -/
def rank (D : List Dir) : Event → Nat
  | .setup c => 2 * idx D c.dir
  | .cb d => 2 * idx D d + 1

/-- the handler chain (outside in) of a one-site block with directive lines `ls` -/
def chainOf (D : List Dir) (ls : List Line) : List Dir :=
  siteMiddleware addsMiddleware (execSeq D [{ keys := ["site"], lines := ls }]) 0 0

/-! ### several loads in one process

`loadServerBlocks` hands the server type's directive list (`ServerType.Directives()`: for the http
server the package-level slice `directives`, NOT a copy) to `casketfile.Parse`; the parser looks
every directive line up in it (`validDirective`) and rejects the whole file at the first line whose
directive is not listed ("Unknown directive '…'"); `executeDirectives` then iterates over the same
slice.  The list is the state that successive loads (failed starts, reloads, `-validate`) of one
process share.  Nothing on the load path writes it: a load — accepted or rejected — hands the list
on unchanged (`loadStep`). -/

inductive LoadResult where
  /-- the parser's "Unknown directive 'd'" -/
  | rejected (d : Dir)
  /-- parsed; the setup calls `executeDirectives` makes -/
  | loaded (calls : List Call)
deriving Repr, DecidableEq

/-- the first directive line, in file order, whose directive is not in the list -/
def firstUnknown (D : List Dir) : List Block → Option Dir
  | [] => none
  | b :: bs =>
    match b.lines.find? (fun l => !D.contains l.dir) with
    | some l => some l.dir
    | none => firstUnknown D bs

def loadOnce (D : List Dir) (blocks : List Block) : LoadResult :=
  match firstUnknown D blocks with
  | some d => .rejected d
  | none => .loaded (execSeq D blocks)

/-- one load: its result, and the directive list the NEXT load of the process will see -/
def loadStep (D : List Dir) (blocks : List Block) : List Dir × LoadResult := (D, loadOnce D blocks)

/-- a history of loads in one process, starting from the list `D` -/
def runHistory : List Dir → List (List Block) → List Dir × List LoadResult
  | D, [] => (D, [])
  | D, b :: rest =>
    let s := loadStep D b
    let r := runHistory s.1 rest
    (r.1, s.2 :: r.2)

/-- the Casketfile of a rejected load of the stream `c09.history`: one site, a `root` line and a
line of the (misspelt) directive `w` -/
def typoLoad (w : Dir) : List Block :=
  [{ keys := ["site"], lines := [{ dir := "root", tokens := ["root", "."] }, { dir := w, tokens := [w, "x"] }] }]

end Casket.Exec
