/-
Checked indexing for models of Go code that handles bytes from network peers (C19, C13).

Every `a[i]`, `a[i:]`, `a[i:j]` of the Go source is written with one of the
operations below.  They return `.error` exactly where the Go runtime would
panic ("index out of range", "slice bounds out of range"); nothing is
totalised.  `Fault.fuel` is the model's own loop bound; the theorems show it
is never reached.

Also the few `strings` functions the modelled parsers use, on byte lists.

CORE LEAN ONLY: linked into the model driver.
-/
namespace Casket.Fault

inductive Fault where
  | index   -- runtime error: index out of range
  | slice   -- runtime error: slice bounds out of range
  | fuel    -- loop bound of the model exhausted (unreachable, proved)
deriving Repr, DecidableEq, Inhabited

abbrev R := Except Fault
abbrev Bytes := List UInt8

def Fault.name : Fault → String
  | .index => "index"
  | .slice => "slice"
  | .fuel => "fuel"

/-- `l[i]` -/
def idx {α : Type} (l : List α) (i : Nat) : R α :=
  match l[i]? with
  | some x => .ok x
  | none => .error .index

/-- `l[i:]` -/
def sliceFrom {α : Type} (l : List α) (i : Nat) : R (List α) :=
  if i ≤ l.length then .ok (l.drop i) else .error .slice

/-- `l[:j]` and `l[i:j]` (len = cap for every slice the models take) -/
def slice {α : Type} (l : List α) (i j : Nat) : R (List α) :=
  if i ≤ j ∧ j ≤ l.length then .ok ((l.take j).drop i) else .error .slice

/-- `l[i:j]` with Go `int` bounds (which may be negative). -/
def sliceInt {α : Type} (l : List α) (i j : Int) : R (List α) :=
  if 0 ≤ i ∧ i ≤ j ∧ j ≤ l.length then .ok ((l.take j.toNat).drop i.toNat) else .error .slice

/-- big-endian `uint16(a[i])<<8 | uint16(a[i+1])` -/
def be16 (l : Bytes) (i : Nat) : R Nat :=
  match idx l i with
  | .error e => .error e
  | .ok a =>
    match idx l (i + 1) with
    | .error e => .error e
    | .ok b => .ok (a.toNat * 256 + b.toNat)

instance {α : Type} [DecidableEq α] : DecidableEq (R α) := fun a b =>
  match a, b with
  | .ok x, .ok y => if h : x = y then isTrue (by rw [h]) else isFalse (fun e => h (by cases e; rfl))
  | .error x, .error y => if h : x = y then isTrue (by rw [h]) else isFalse (fun e => h (by cases e; rfl))
  | .ok _, .error _ => isFalse (fun e => by cases e)
  | .error _, .ok _ => isFalse (fun e => by cases e)

/-- the result is a value, not a panic -/
def IsOk {α : Type} (r : R α) : Prop := ∃ x, r = .ok x

def isOk {α : Type} : R α → Bool
  | .ok _ => true
  | .error _ => false

/-! ### `strings` on bytes -/

/-- the bytes of an ASCII string literal (kernel-reducible, unlike `String.toUTF8`) -/
def bytes (s : String) : Bytes := s.toList.map fun c => UInt8.ofNat c.toNat

/-- `strings.Index(s, sub)`; `none` = -1 -/
def indexOfAux (sub : Bytes) : Bytes → Nat → Option Nat
  | [], i => if sub.isEmpty then some i else none
  | c :: cs, i => if sub.isPrefixOf (c :: cs) then some i else indexOfAux sub cs (i + 1)

def indexOf (s sub : Bytes) : Option Nat := indexOfAux sub s 0

/-- `strings.Contains` -/
def contains (s sub : Bytes) : Bool := (indexOf s sub).isSome

/-- `strings.Replace(s, string(c), "", -1)` for a single byte `c` -/
def removeByte (s : Bytes) (c : UInt8) : Bytes := s.filter (· != c)

/-- `strings.Split(s, string(c))` for a single-byte separator: always at least one piece -/
def splitByte (c : UInt8) : Bytes → List Bytes
  | [] => [[]]
  | x :: xs =>
    if x == c then [] :: splitByte c xs
    else match splitByte c xs with
      | [] => [[x]]          -- unreachable: splitByte never returns []
      | p :: ps => (x :: p) :: ps

/-- `strings.SplitN(s, string(c), 2)` -/
def splitFirst (c : UInt8) (s : Bytes) : List Bytes :=
  match indexOf s [c] with
  | none => [s]
  | some i => [s.take i, s.drop (i + 1)]

/-- UTF-8 encodings of the runes for which `unicode.IsSpace` holds. -/
def spaceSeqs : List Bytes := [
  [0x09], [0x0a], [0x0b], [0x0c], [0x0d], [0x20],
  [0xc2, 0x85], [0xc2, 0xa0], [0xe1, 0x9a, 0x80],
  [0xe2, 0x80, 0x80], [0xe2, 0x80, 0x81], [0xe2, 0x80, 0x82], [0xe2, 0x80, 0x83],
  [0xe2, 0x80, 0x84], [0xe2, 0x80, 0x85], [0xe2, 0x80, 0x86], [0xe2, 0x80, 0x87],
  [0xe2, 0x80, 0x88], [0xe2, 0x80, 0x89], [0xe2, 0x80, 0x8a],
  [0xe2, 0x80, 0xa8], [0xe2, 0x80, 0xa9], [0xe2, 0x80, 0xaf],
  [0xe2, 0x81, 0x9f], [0xe3, 0x80, 0x80]]

/-- number of bytes of the space rune `s` starts with (0 = none) -/
def spacePrefixLen (s : Bytes) : Nat :=
  match spaceSeqs.find? (fun q => q.isPrefixOf s) with
  | some q => q.length
  | none => 0

def trimLeftFuel : Nat → Bytes → Bytes
  | 0, s => s
  | f + 1, s =>
    let k := spacePrefixLen s
    if k = 0 then s else trimLeftFuel f (s.drop k)

/-- `strings.TrimLeftFunc(s, unicode.IsSpace)` -/
def trimLeft (s : Bytes) : Bytes := trimLeftFuel s.length s

/-- a space rune's encoding reversed is a prefix of the reversed string ⇔ the string ends with it
(`utf8.DecodeLastRune` finds exactly a valid encoding that ends at the end) -/
def spaceSuffixLen (rs : Bytes) : Nat :=
  match spaceSeqs.find? (fun q => q.reverse.isPrefixOf rs) with
  | some q => q.length
  | none => 0

def trimRightFuel : Nat → Bytes → Bytes
  | 0, rs => rs
  | f + 1, rs =>
    let k := spaceSuffixLen rs
    if k = 0 then rs else trimRightFuel f (rs.drop k)

/-- `strings.TrimSpace` -/
def trimSpace (s : Bytes) : Bytes :=
  let l := trimLeft s
  (trimRightFuel l.length l.reverse).reverse

end Casket.Fault
