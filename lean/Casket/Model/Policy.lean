/-
Model of caskethttp/proxy/policy.go and staticUpstream.Select (upstream.go).

A pool is a list of hosts; a host is reduced to what the policies read:
whether it is down, its in-flight count and its connection cap.  Every
policy is "the first index of a probe sequence that is available"
(first, round_robin, the hash family) or a left fold with reservoir
sampling (random, least_conn).  uint32 arithmetic of the Go code is kept
as explicit `% 2^32`.

CORE LEAN ONLY: this file is linked into the model driver.
-/
namespace Casket.Policy

structure Host where
  down     : Bool
  conns    : Nat
  maxConns : Nat
deriving Repr, DecidableEq

/-- `UpstreamHost.Full` -/
def Host.full (h : Host) : Bool := decide (h.maxConns > 0) && decide (h.conns ≥ h.maxConns)

/-- `UpstreamHost.Available` -/
def Host.avail (h : Host) : Bool := !h.down && !h.full

abbrev Pool := List Host

def availAt (p : Pool) (i : Nat) : Bool :=
  match p[i]? with
  | some h => h.avail
  | none => false

def two32 : Nat := 4294967296

/-- first index in `idxs` whose host is available (every `for … if host.Available() return host`) -/
def probe (p : Pool) : List Nat → Option Nat
  | [] => none
  | i :: is => if availAt p i then some i else probe p is

/-- `First.Select` -/
def first (p : Pool) : Option Nat := probe p (List.range p.length)

/-- probe sequence of `RoundRobin.Select`: `r.robin = (r.robin+1) % poolLen` each iteration -/
def rrNext (robin n : Nat) : Nat := ((robin + 1) % two32) % n

def rrSeq (n : Nat) : Nat → Nat → List Nat
  | _, 0 => []
  | robin, k + 1 => rrNext robin n :: rrSeq n (rrNext robin n) k

/-- `RoundRobin.Select`: returns the chosen index and the new counter. -/
def rrGo (p : Pool) (n : Nat) : Nat → Nat → Option Nat × Nat
  | robin, 0 => (none, robin)
  | robin, k + 1 =>
    let r' := rrNext robin n
    if availAt p r' then (some r', r') else rrGo p n r' k

def roundRobin (p : Pool) (robin : Nat) : Option Nat × Nat :=
  rrGo p p.length robin p.length

/-- FNV-1a, 32 bit (`hash/fnv.New32a`) -/
def fnv32a (bs : List UInt8) : Nat :=
  bs.foldl (fun h b => ((h ^^^ b.toNat) * 16777619) % two32) 2166136261

/-- probe sequence of `hostByHashing`: `pool[(index+i) % poolLen]`, `index = hash % poolLen` -/
def hashSeq (h n : Nat) : List Nat :=
  (List.range n).map (fun i => ((h % n + i) % two32) % n)

def hostByHashing (p : Pool) (h : Nat) : Option Nat :=
  probe p (hashSeq h p.length)

/-- `Random.Select`: reservoir sampling; `rs` is the stream of `rand.Int()` results
(one is consumed per available host; an exhausted stream reads as 0). -/
def randomGo : List Host → Nat → List Nat → Nat → Option Nat → Option Nat
  | [], _, _, _, best => best
  | h :: hs, i, rs, count, best =>
    if h.avail then
      randomGo hs (i + 1) rs.tail (count + 1)
        (if rs.headD 0 % (count + 1) = 0 then some i else best)
    else randomGo hs (i + 1) rs count best

def random (p : Pool) (rs : List Nat) : Option Nat := randomGo p 0 rs 0 none

def maxInt64 : Nat := 9223372036854775807

/-- `LeastConn.Select`: state is (bestHost, count, leastConn). -/
def leastGo : List Host → Nat → List Nat → Nat → Nat → Option Nat → Option Nat
  | [], _, _, _, _, best => best
  | h :: hs, i, rs, count, least, best =>
    if h.avail then
      let count1 := if h.conns < least then 0 else count
      let least1 := if h.conns < least then h.conns else least
      if h.conns = least1 then
        leastGo hs (i + 1) rs.tail (count1 + 1) least1
          (if rs.headD 0 % (count1 + 1) = 0 then some i else best)
      else leastGo hs (i + 1) rs count1 least1 best
    else leastGo hs (i + 1) rs count least best

def leastConn (p : Pool) (rs : List Nat) : Option Nat := leastGo p 0 rs 0 maxInt64 none

inductive Kind where
  | random | leastConn | roundRobin | first | hash
deriving Repr, DecidableEq

/-- One policy call. `robin` is the round-robin counter, `h` the hash of the request key,
`rs` the random stream.  Returns choice and new counter. -/
def policySelect (k : Kind) (p : Pool) (robin h : Nat) (rs : List Nat) : Option Nat × Nat :=
  match k with
  | .random => (random p rs, robin)
  | .leastConn => (leastConn p rs, robin)
  | .roundRobin => roundRobin p robin
  | .first => (first p, robin)
  | .hash => (hostByHashing p h, robin)

/-- `staticUpstream.Select`: pool-of-one shortcut, all-unavailable pre-check, then the policy. -/
def upstreamSelect (k : Kind) (p : Pool) (robin h : Nat) (rs : List Nat) : Option Nat × Nat :=
  match p with
  | [h0] => (if h0.avail then some 0 else none, robin)
  | _ => if p.any Host.avail then policySelect k p robin h rs else (none, robin)

end Casket.Policy
