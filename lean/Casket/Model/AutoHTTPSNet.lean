import Casket.Model.AutoHTTPSBytes
/-
Models of the Go standard-library functions that the automatic-HTTPS code relies on
(Go 1.23 sources): net.SplitHostPort, net.JoinHostPort, net.ParseIP (netip.ParseAddr),
net.IP.To4 / String, net.IPNet.Contains.  Byte for byte, error cases included
(errors are collapsed to `none`: the callers only test `err != nil`).
Tied to the real functions by the stream c15.host (and every other C15 stream).
-/
namespace Casket.AutoHTTPS

/-- net.SplitHostPort: `some (host, port)` or `none` on any error. -/
def splitHostPort (hp : Bytes) : Option (Bytes × Bytes) :=
  match lastIndexByte hp 58 with            -- the port starts after the last ':'
  | none => none                             -- missing port
  | some i =>
    if hp.head? == some 91 then              -- '[': expect the first ']' just before the last ':'
      match indexByte hp 93 with
      | none => none
      | some e =>
        if e + 1 == hp.length then none
        else if e + 1 == i then
          if hasByte (hp.drop 1) 91 then none              -- unexpected '['
          else if hasByte (hp.drop (e + 1)) 93 then none   -- unexpected ']'
          else some ((hp.take e).drop 1, hp.drop (i + 1))
        else none
    else
      let host := hp.take i
      if hasByte host 58 then none           -- too many colons
      else if hasByte hp 91 then none
      else if hasByte hp 93 then none
      else some (host, hp.drop (i + 1))

/-- net.JoinHostPort -/
def joinHostPort (host port : Bytes) : Bytes :=
  if hasByte host 58 then b!"[" ++ host ++ b!"]:" ++ port else host ++ b!":" ++ port

/-- netip.parseIPv4Fields over a whole string: `val`, `digLen` as in the Go loop, `acc` = finished octets (reversed),
`first` = at index 0, `prevDot` = previous byte was '.'. -/
def ipv4Go : Bytes → Bool → Bool → Nat → Nat → List UInt8 → Option (List UInt8)
  | [], _, _, val, _, acc =>
    if acc.length < 3 then none else some (UInt8.ofNat val :: acc).reverse
  | c :: rest, first, prevDot, val, digLen, acc =>
    if isDigit c then
      if digLen == 1 && val == 0 then none                   -- octet with leading zero
      else
        let v := val * 10 + (c.toNat - 48)
        if v > 255 then none else ipv4Go rest false false v (digLen + 1) acc
    else if c == 46 then
      if first || rest.isEmpty || prevDot then none          -- .1.2.3  1.2.3.  1..2.3
      else if acc.length == 3 then none                      -- too long
      else ipv4Go rest false true 0 0 (UInt8.ofNat val :: acc)
    else none

def parseIPv4 (s : Bytes) : Option (List UInt8) := ipv4Go s true false 0 0 []

def hexAcc (ds : Bytes) : Nat := ds.foldl (fun a c => a * 16 + hexVal c) 0

/-- The main loop of netip.parseIPv6 (without zone). `ip` = bytes stored so far (so Go's `i` = ip.length),
`ell` = Go's `ellipsis` (none = -1).  Result: (unparsed rest, ip, ellipsis). -/
def ipv6Loop : Nat → Bytes → List UInt8 → Option Nat → Option (Bytes × List UInt8 × Option Nat)
  | 0, _, _, _ => none
  | fuel + 1, s, ip, ell =>
    let ds := s.takeWhile isHexDigit
    let off := ds.length
    if off > 4 then none                                     -- more than 4 digits in group
    else if off == 0 then none                               -- no digits
    else if (s.drop off).head? == some 46 then               -- trailing embedded IPv4
      if ell.isNone && ip.length != 12 then none
      else if ip.length + 4 > 16 then none
      else match parseIPv4 s with
        | none => none
        | some v4 => some ([], ip ++ v4, ell)
    else
      let acc := hexAcc ds
      let ip := ip ++ [UInt8.ofNat (acc / 256), UInt8.ofNat (acc % 256)]
      let s := s.drop off
      match s with
      | [] => some ([], ip, ell)
      | c :: s1 =>
        if c != 58 then none                                 -- want colon
        else match s1 with
          | [] => none                                       -- colon must be followed by more
          | c2 :: s2 =>
            if c2 == 58 then
              if ell.isSome then none                        -- multiple ::
              else if s2.isEmpty then some ([], ip, some ip.length)
              else if ip.length < 16 then ipv6Loop fuel s2 ip (some ip.length) else some (s2, ip, some ip.length)
            else if ip.length < 16 then ipv6Loop fuel (c2 :: s2) ip ell else some (c2 :: s2, ip, ell)

/-- the end of netip.parseIPv6: everything must be consumed; a short address needs an ellipsis, which is expanded;
a full one must not have one -/
def finishIPv6 (res : Bytes × List UInt8 × Option Nat) : Option (List UInt8) :=
  let (rest, ip, ell) := res
  if !rest.isEmpty then none                               -- trailing garbage
  else if ip.length < 16 then
    match ell with
    | none => none                                         -- too short
    | some e => some (ip.take e ++ List.replicate (16 - ip.length) 0 ++ ip.drop e)
  else if ell.isSome then none                             -- :: must expand to at least one field
  else some ip

/-- netip.parseIPv6 for strings without '%' -/
def parseIPv6 (s0 : Bytes) : Option (List UInt8) :=
  let lead := hasPrefix s0 b!"::"
  let s := if lead then s0.drop 2 else s0
  if lead && s.isEmpty then some (List.replicate 16 0)
  else (ipv6Loop 9 s [] (if lead then some 0 else none)).bind finishIPv6

def v4in6Prefix : List UInt8 := [0, 0, 0, 0, 0, 0, 0, 0, 0, 0, 255, 255]

/-- net.ParseIP: 16 bytes (IPv4 as ::ffff:a.b.c.d) or none.  A '%' anywhere makes every branch of
netip.ParseAddr fail or yield a zone, which net.ParseIP rejects. -/
def parseIP (s : Bytes) : Option (List UInt8) :=
  if hasByte s 37 then none
  else match s.find? (fun c => c == 46 || c == 58) with
    | none => none
    | some c =>
      if c == 46 then (parseIPv4 s).map (v4in6Prefix ++ ·) else parseIPv6 s

/-- net.IP.To4 on a 16-byte address -/
def to4 (ip : List UInt8) : Option (List UInt8) :=
  if ip.take 12 == v4in6Prefix then some (ip.drop 12) else none

/-- net.IP.IsLoopback on a 16-byte address: 127.0.0.0/8 (also as ::ffff:127.x.y.z) or ::1 -/
def ipIsLoopback (ip : List UInt8) : Bool :=
  match to4 ip with
  | some v4 => v4.head? == some 127
  | none => ip == [0, 0, 0, 0, 0, 0, 0, 0, 0, 0, 0, 0, 0, 0, 0, 1]

def hex16 (x : Nat) : Bytes :=
  (if x ≥ 0x1000 then [hexDigitLower (x / 4096)] else []) ++
  (if x ≥ 0x100 then [hexDigitLower (x / 256 % 16)] else []) ++
  (if x ≥ 0x10 then [hexDigitLower (x / 16 % 16)] else []) ++ [hexDigitLower (x % 16)]

def fields16 : List UInt8 → List Nat
  | a :: b :: rest => (a.toNat * 256 + b.toNat) :: fields16 rest
  | _ => []

/-- first pass of netip.Addr.appendTo6: the first longest run (≥ 2) of zero fields -/
def bestZeroRun : List Nat → Nat → Option (Nat × Nat) → Option (Nat × Nat)
  | [], _, best => best
  | f :: rest, i, best =>
    let l := ((f :: rest).takeWhile (· == 0)).length
    let bl := match best with | none => 0 | some (s, e) => e - s
    bestZeroRun rest (i + 1) (if l ≥ 2 && l > bl then some (i, i + l) else best)

/-- netip.Addr.String for an IPv6 address without zone -/
def string16 (ip : List UInt8) : Bytes :=
  let fs := fields16 ip
  match bestZeroRun fs 0 none with
  | none => joinWith b!":" (fs.map hex16)
  | some (zs, ze) => joinWith b!":" ((fs.take zs).map hex16) ++ b!"::" ++ joinWith b!":" ((fs.drop ze).map hex16)

/-- net.IP.String for a 16-byte address -/
def ipString (ip : List UInt8) : Bytes :=
  match to4 ip with
  | some v4 => joinWith b!"." (v4.map fun x => decByte x.toNat)
  | none => string16 ip

/-- the k-th byte of a CIDR mask of `ones` leading one bits -/
def maskByte (ones k : Nat) : UInt8 :=
  if ones ≥ 8 * (k + 1) then 255
  else if ones ≤ 8 * k then 0
  else UInt8.ofNat (256 - 2 ^ (8 - (ones - 8 * k)))

def maskedEq (ones : Nat) : Nat → List UInt8 → List UInt8 → Bool
  | _, [], [] => true
  | k, a :: as, b :: bs => (a &&& maskByte ones k) == (b &&& maskByte ones k) && maskedEq ones (k + 1) as bs
  | _, _, _ => false

/-- net.IPNet.Contains for a network given as (address bytes, prefix length) and a 16-byte address -/
def netContains (n : List UInt8 × Nat) (ip : List UInt8) : Bool :=
  let ip := match to4 ip with | some v4 => v4 | none => ip
  ip.length == n.1.length && maskedEq n.2 0 n.1 ip

end Casket.AutoHTTPS
