import Casket.Model.Lexer
/-
Model of casketfile/dispenser.go (shared by C10 and C11; core Lean only).

The Go cursor is an `int` that starts at -1, so it is an `Int` here.  Every Go access
`d.tokens[d.cursor]` sits behind a guard that makes the index valid; the model expresses
"guard, then index" as one checked lookup (`tok?`), so a method can not index out of range
by construction and `Props/C11` proves the cursor stays within `[-1, len]`.
-/
namespace Casket.Dispenser
open Casket.Lexer

/-- checked `d.tokens[i]` -/
def tokAt (ts : List Token) (i : Int) : Option Token := if 0 ≤ i then ts[i.toNat]? else none

def numLineBreaks (t : Bytes) : Nat := t.count 0x0A

/-- lexer.go `isNextOnNewLine(t1, t2)` (with the `fix:` that a token on an EARLIER line of the same file —
spliced in from a snippet defined further down — starts a new line) -/
def tokNewLine (t1 t2 : Token) : Bool :=
  t1.file != t2.file || decide (t2.line < t1.line) || decide (t1.line + numLineBreaks t1.text < t2.line)

def lbrace : Bytes := [0x7B]
def rbrace : Bytes := [0x7D]

structure Disp where
  filename : String
  tokens : List Token
  cursor : Int
  nesting : Int
deriving DecidableEq, Repr

namespace Disp

/-- `NewDispenserTokens` -/
def new (filename : String) (tokens : List Token) : Disp := ⟨filename, tokens, -1, 0⟩

def len (d : Disp) : Int := d.tokens.length


def tok? (d : Disp) (i : Int) : Option Token := tokAt d.tokens i

/-- `Val` -/
def val (d : Disp) : Bytes := match d.tok? d.cursor with | some t => t.text | none => []
/-- `Line` -/
def line (d : Disp) : Nat := match d.tok? d.cursor with | some t => t.line | none => 0
/-- `File` -/
def file (d : Disp) : String :=
  match d.tok? d.cursor with
  | some t => if t.file != "" then t.file else d.filename
  | none => d.filename

/-- `errPos`: the position `Err` / `SyntaxErr` name — the current token's or, past the end of the input, the last token's -/
def errPos (d : Disp) : String × Nat :=
  match d.tokens.getLast? with
  | some last =>
    if d.cursor ≥ d.len then (if last.file != "" then last.file else d.filename, last.line)
    else (d.file, d.line)
  | none => (d.file, d.line)

def setCursor (d : Disp) (c : Int) : Disp := { d with cursor := c }

/-- `Next` -/
def next (d : Disp) : Bool × Disp :=
  if d.cursor < d.len - 1 then (true, d.setCursor (d.cursor + 1)) else (false, d)

/-- `NextArg` -/
def nextArg (d : Disp) : Bool × Disp :=
  if d.cursor < 0 then (true, d.setCursor (d.cursor + 1))
  else if d.cursor ≥ d.len then (false, d)
  else match d.tok? d.cursor, d.tok? (d.cursor + 1) with
    | some a, some b =>
      if a.file == b.file && a.line + numLineBreaks a.text == b.line then (true, d.setCursor (d.cursor + 1))
      else (false, d)
    | _, _ => (false, d)

/-- `nextOnSameLine` -/
def nextOnSameLine (d : Disp) : Bool × Disp :=
  if d.cursor < 0 then (true, d.setCursor (d.cursor + 1))
  else match d.tok? d.cursor, d.tok? (d.cursor + 1) with
    | some a, some b => if !tokNewLine a b then (true, d.setCursor (d.cursor + 1)) else (false, d)
    | _, _ => (false, d)

/-- `NextLine` -/
def nextLine (d : Disp) : Bool × Disp :=
  if d.cursor < 0 then (true, d.setCursor (d.cursor + 1))
  else match d.tok? d.cursor, d.tok? (d.cursor + 1) with
    | some a, some b => if tokNewLine a b then (true, d.setCursor (d.cursor + 1)) else (false, d)
    | _, _ => (false, d)

/-- `d.Val() == v && !d.nextOnSameLine()` — short circuit: the cursor is only moved when the value matches -/
def valIsAndNotSameLine (d : Disp) (v : Bytes) : Bool × Disp :=
  if d.val == v then (!d.nextOnSameLine.1, d.nextOnSameLine.2) else (false, d)

/-- `if d.Val() == "}" && !d.nextOnSameLine() { d.nesting-- } else if d.Val() == "{" && !d.nextOnSameLine() { d.nesting++ }`:
when the first `nextOnSameLine` succeeds the cursor HAS moved before the second test runs. -/
def adjustNesting (d : Disp) : Disp :=
  let r1 := d.valIsAndNotSameLine rbrace
  if r1.1 then { r1.2 with nesting := r1.2.nesting - 1 }
  else
    let r2 := r1.2.valIsAndNotSameLine lbrace
    if r2.1 then { r2.2 with nesting := r2.2.nesting + 1 } else r2.2

/-- `NextBlockNesting(initialNestingLevel)` -/
def nextBlockNesting (d : Disp) (initial : Int) : Bool × Disp :=
  if d.nesting > initial then
    let r := d.next
    if !r.1 then (false, r.2)
    else
      let d2 := r.2.adjustNesting
      (decide (d2.nesting > initial), d2)
  else
    let r := d.nextOnSameLine
    if !r.1 then (false, r.2)                                         -- block must open on same line
    else if r.2.val != lbrace then (false, r.2.setCursor (r.2.cursor - 1))  -- roll back if not opening brace
    else
      let d2 := r.2.next.2                                            -- consume open curly brace
      if d2.val == rbrace then (false, d2)                            -- open and then closed right away
      else (true, { d2 with nesting := d2.nesting + 1 })

/-- `NextBlock` -/
def nextBlock (d : Disp) : Bool × Disp := d.nextBlockNesting 0

/-- `RemainingArgs`; the fuel is the number of tokens (each iteration advances the cursor). -/
def remainingArgsGo : Nat → Disp → List Bytes → List Bytes × Disp
  | 0, d, acc => (acc, d)
  | fuel + 1, d, acc =>
    let r := d.nextArg
    if !r.1 then (acc, r.2)
    else if r.2.val == lbrace then (acc, r.2.setCursor (r.2.cursor - 1))
    else remainingArgsGo fuel r.2 (acc ++ [r.2.val])

def remainingArgs (d : Disp) : List Bytes × Disp := remainingArgsGo (d.tokens.length + 3) d []

/-- `Args(targets...)` for `n` targets: the values loaded and whether there were enough. -/
def args : Nat → Disp → List Bytes → Bool × List Bytes × Disp
  | 0, d, acc => (true, acc, d)
  | n + 1, d, acc =>
    let r := d.nextArg
    if !r.1 then (false, acc, r.2) else args n r.2 (acc ++ [r.2.val])

/-- `isNewLine` -/
def isNewLine (d : Disp) : Bool :=
  if d.cursor < 1 then true
  else match d.tok? (d.cursor - 1), d.tok? d.cursor with
    | some a, some b => tokNewLine a b
    | _, _ => false

/-- `isNextOnNewLine` (method) -/
def isNextOnNewLine (d : Disp) : Bool :=
  if d.cursor < 0 then false
  else match d.tok? d.cursor, d.tok? (d.cursor + 1) with
    | some a, some b => tokNewLine a b
    | _, _ => true

/-- the cursor-moving methods a directive's setup function can call -/
inductive Op where
  | next | nextArg | nextLine | nextBlock
  | nextBlockNesting (initial : Int)
  | remainingArgs
  | args (n : Nat)
deriving DecidableEq, Repr

/-- the dispenser after one method call -/
def apply (d : Disp) : Op → Disp
  | .next => d.next.2
  | .nextArg => d.nextArg.2
  | .nextLine => d.nextLine.2
  | .nextBlock => d.nextBlock.2
  | .nextBlockNesting i => (d.nextBlockNesting i).2
  | .remainingArgs => d.remainingArgs.2
  | .args n => (Disp.args n d []).2.2

/-- a `for c.NextBlock() { body }` loop (the shape of every sub-block parser in the setup files);
`none` = still looping when the fuel ran out -/
def blockLoop (body : Disp → Disp) : Nat → Disp → Option Disp
  | 0, _ => none
  | fuel + 1, d =>
    let r := d.nextBlock
    if r.1 then blockLoop body fuel (body r.2) else some r.2

end Disp

end Casket.Dispenser
