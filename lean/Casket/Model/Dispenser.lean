import Casket.Model.Lexer
/-
Model of casketfile/dispenser.go (shared by C10 and C11; core Lean only).

The Go cursor is an `int` that starts at -1, so it is an `Int` here.  Every Go access
`d.tokens[d.cursor]` sits behind a guard that makes the index valid; the model expresses
"guard, then index" as one checked lookup (`tok?`), so a method can not index out of range
by construction and `Props/C11` proves the cursor stays within `[-1, len]`.
-/
namespace Casket.Dispenser
open Casket.Lexer

/-- checked `d.tokens[i]` -/
def tokAt (ts : List Token) (i : Int) : Option Token := if 0 ≤ i then ts[i.toNat]? else none

def numLineBreaks (t : Bytes) : Nat := t.count 0x0A

/-- lexer.go `isNextOnNewLine(t1, t2)` (with the `fix:` that a token on an EARLIER line of the same file —
spliced in from a snippet defined further down — starts a new line) -/
def tokNewLine (t1 t2 : Token) : Bool :=
  t1.file != t2.file || decide (t2.line < t1.line) || decide (t1.line + numLineBreaks t1.text < t2.line)

def lbrace : Bytes := [0x7B]
def rbrace : Bytes := [0x7D]

structure Disp where
  filename : String
  tokens : List Token
  cursor : Int
  nesting : Int
deriving DecidableEq, Repr

namespace Disp

/-- `NewDispenserTokens` -/
def new (filename : String) (tokens : List Token) : Disp := ⟨filename, tokens, -1, 0⟩

def len (d : Disp) : Int := d.tokens.length


def tok? (d : Disp) (i : Int) : Option Token := tokAt d.tokens i

/-- `Val` -/
def val (d : Disp) : Bytes := match d.tok? d.cursor with | some t => t.text | none => []
/-- `Line` -/
def line (d : Disp) : Nat := match d.tok? d.cursor with | some t => t.line | none => 0
/-- `File` -/
def file (d : Disp) : String :=
  match d.tok? d.cursor with
  | some t => if t.file != "" then t.file else d.filename
  | none => d.filename

def setCursor (d : Disp) (c : Int) : Disp := { d with cursor := c }

/-- `Next` -/
def next (d : Disp) : Bool × Disp :=
  if d.cursor < d.len - 1 then (true, d.setCursor (d.cursor + 1)) else (false, d)

/-- `NextArg` -/
def nextArg (d : Disp) : Bool × Disp :=
  if d.cursor < 0 then (true, d.setCursor (d.cursor + 1))
  else if d.cursor ≥ d.len then (false, d)
  else match d.tok? d.cursor, d.tok? (d.cursor + 1) with
    | some a, some b =>
      if a.file == b.file && a.line + numLineBreaks a.text == b.line then (true, d.setCursor (d.cursor + 1))
      else (false, d)
    | _, _ => (false, d)

/-- `nextOnSameLine` -/
def nextOnSameLine (d : Disp) : Bool × Disp :=
  if d.cursor < 0 then (true, d.setCursor (d.cursor + 1))
  else match d.tok? d.cursor, d.tok? (d.cursor + 1) with
    | some a, some b => if !tokNewLine a b then (true, d.setCursor (d.cursor + 1)) else (false, d)
    | _, _ => (false, d)

/-- `NextLine` -/
def nextLine (d : Disp) : Bool × Disp :=
  if d.cursor < 0 then (true, d.setCursor (d.cursor + 1))
  else match d.tok? d.cursor, d.tok? (d.cursor + 1) with
    | some a, some b => if tokNewLine a b then (true, d.setCursor (d.cursor + 1)) else (false, d)
    | _, _ => (false, d)

/-- `NextBlockNesting(initialNestingLevel)` -/
def nextBlockNesting (d : Disp) (initial : Int) : Bool × Disp :=
  if d.nesting > initial then
    let (ok, d1) := d.next
    if !ok then (false, d1)
    else
      -- `if d.Val() == "}" && !d.nextOnSameLine() {…} else if d.Val() == "{" && !d.nextOnSameLine() {…}`:
      -- when the first `nextOnSameLine` succeeds the cursor HAS moved before the second test runs.
      let (c1, da) := if d1.val == rbrace then (let r := d1.nextOnSameLine; (!r.1, r.2)) else (false, d1)
      let d2 :=
        if c1 then { da with nesting := da.nesting - 1 }
        else
          let (c2, db) := if da.val == lbrace then (let r := da.nextOnSameLine; (!r.1, r.2)) else (false, da)
          if c2 then { db with nesting := db.nesting + 1 } else db
      (decide (d2.nesting > initial), d2)
  else
    let (same, d1) := d.nextOnSameLine
    if !same then (false, d1)
    else if d1.val != lbrace then (false, d1.setCursor (d1.cursor - 1))
    else
      let d2 := d1.next.2
      if d2.val == rbrace then (false, d2)
      else (true, { d2 with nesting := d2.nesting + 1 })

/-- `NextBlock` -/
def nextBlock (d : Disp) : Bool × Disp := d.nextBlockNesting 0

/-- `RemainingArgs`; the fuel is the number of tokens (each iteration advances the cursor). -/
def remainingArgsGo : Nat → Disp → List Bytes → List Bytes × Disp
  | 0, d, acc => (acc, d)
  | fuel + 1, d, acc =>
    let (ok, d1) := d.nextArg
    if !ok then (acc, d1)
    else if d1.val == lbrace then (acc, d1.setCursor (d1.cursor - 1))
    else remainingArgsGo fuel d1 (acc ++ [d1.val])

def remainingArgs (d : Disp) : List Bytes × Disp := remainingArgsGo (d.tokens.length + 2) d []

/-- `Args(targets...)` for `n` targets: the values loaded and whether there were enough. -/
def args : Nat → Disp → List Bytes → Bool × List Bytes × Disp
  | 0, d, acc => (true, acc, d)
  | n + 1, d, acc =>
    let (ok, d1) := d.nextArg
    if !ok then (false, acc, d1) else args n d1 (acc ++ [d1.val])

/-- `isNewLine` -/
def isNewLine (d : Disp) : Bool :=
  if d.cursor < 1 then true
  else match d.tok? (d.cursor - 1), d.tok? d.cursor with
    | some a, some b => tokNewLine a b
    | _, _ => false

/-- `isNextOnNewLine` (method) -/
def isNextOnNewLine (d : Disp) : Bool :=
  if d.cursor < 0 then false
  else match d.tok? d.cursor, d.tok? (d.cursor + 1) with
    | some a, some b => tokNewLine a b
    | _, _ => true

end Disp

end Casket.Dispenser
