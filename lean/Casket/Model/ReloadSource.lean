import Casket.Model.Reload
/-
How a configuration is WRITTEN, and what a reload makes of it (casket.go: Instance.Restart → loadCasketfileInput →
casketfile.Parse; casketfile/parse.go: addresses, blockContents, doImport, doSingleImport; casketmain: `-conf 'sites/*'`
becomes `import sites/*`).

`Restart(newCasketfile)` is handed the text of the top-level Casketfile only.  The sites need not stand in that text: a
server block may `import <file>`, the whole Casketfile may be `import <glob>`, a block may import a snippet defined further
up, one block may carry several addresses, a single site needs no braces.  All of these are SPELLINGS of one meaning: which
addresses are served, by which content (the marker a site answers with), and whether some directive is refused.

The configuration a reload loads is what the top-level text AND THE FILES IT NAMES say AT THE TIME OF THE RELOAD CALL: the
parser opens and lexes every imported file anew on every load (`doSingleImport`), nothing read by an earlier load is kept.
That is the content of this model: `load` is a function of the source as it stands now and of nothing else — it has no
argument through which an earlier load could reach it —, and writing a configuration replaces what was written before.
"The new configuration" of property C07 is `load` of the source at the call.
-/
namespace Casket.Reload

/-- the spellings the hand-over stream writes its configurations in -/
inductive Spelling where
  /-- one server block per address, the directives inside (the only spelling before wave 8) -/
  | inline
  /-- `addr { import imp/s<a>.inc }`: the directives of every site stand in a file of their own, REWRITTEN for every reload -/
  | imported
  /-- the same, and the rewritten file keeps the modification time of the one it replaces (cp -p, rsync -t, tar) -/
  | importedKeepTime
  /-- the Casketfile is `import sites/*.conf`; every file is one complete server block (what `-conf 'sites/*'` becomes) -/
  | glob
  /-- the directives stand in a snippet `(site) { … }` that every server block imports -/
  | snippet
  /-- ONE server block carrying all the addresses (`a1,` newline `a2 a3 {`) -/
  | shared
  /-- comments, blank lines, tabs, quoted arguments, other directives (two of one kind) before and after; a single site
  without braces -/
  | layout
deriving DecidableEq, Repr

/-- the text of one site as it stands in the Casketfile or in the file that holds it -/
structure SiteText where
  addr : Nat
  /-- what the site answers with (the stream writes the generation of the reload) -/
  marker : Nat
  /-- a directive of the site is refused (at parse or at setup time) -/
  fail : Bool
deriving DecidableEq, Repr

/-- what the loader can read at some moment: the site texts in the order in which the parser meets them -/
abbrev Source := List SiteText

/-- writing configuration `c` with marker `g`, in whatever spelling, REPLACES what was written before (files of sites that
are no longer served are removed, the others overwritten) -/
def write (_old : Source) (_sp : Spelling) (c : Cfg) (g : Nat) : Source :=
  c.addrs.map fun a => { addr := a, marker := g, fail := c.failSetup }

/-- what a load makes of the source AS IT STANDS AT THE CALL -/
def load (s : Source) : Cfg := { addrs := s.map (·.addr), failSetup := s.any (·.fail) }

/-- the markers the loaded sites answer with -/
def markers (s : Source) : List Nat := s.map (·.marker)

inductive HKind where
  | reload | straddle | longflight
deriving DecidableEq, Repr

def HKind.op : HKind → Cfg → HOp
  | .reload, c => .reload c
  | .straddle, c => .straddle c
  | .longflight, c => .longflight c

/-- an operation of the hand-over stream as written: the configuration (its meaning) and the spelling it is written in -/
structure WOp where
  kind : HKind
  cfg : Cfg
  sp : Spelling
deriving DecidableEq, Repr

/-- what the property is about: the meaning, whatever the spelling -/
def WOp.meaning (w : WOp) : HOp := w.kind.op w.cfg

/-- the stream writes the configuration (marker = generation `g`), then calls `Restart`, which loads the source as it stands -/
def resolveOps : Source → Nat → List WOp → List HOp
  | _, _, [] => []
  | s, g, w :: rest =>
    let s' := write s w.sp w.cfg g
    w.kind.op (load s') :: resolveOps s' (g + 1) rest

/-- the model's observations of a hand-over case whose configurations are written in the given spellings -/
def handoverRunW (busy : List Nat) (c0 : Cfg) (sp0 : Spelling) (ws : List WOp) : List HObs :=
  let s0 := write [] sp0 c0 1
  handoverRun busy (load s0) (resolveOps s0 2 ws)

end Casket.Reload
