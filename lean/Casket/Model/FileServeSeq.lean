import Casket.Model.FileServe
/-
C02 over a file system that CHANGES while the site is running (seeded regression
C02-ishidden-fileinfo-cached-forever).

The file-serving code of casket keeps no state between requests: `http.Dir.Open`, `IsHidden`
(which opens every hide-list path again on every call), browse and the archive walk all look at
the file system as it is when the request is served.  So the model of a running site under a
changing file system is simply the single-request model `FileServe.serve` applied to a SEQUENCE of
file-system states: a script of steps, each either a request (answered from the state of that
moment) or a change of the file system made by somebody else (an editor or deploy tool replacing a
file by write-new-and-rename, a file removed and created again, a hard link added).

Any memory the real code keeps across requests (a cached `os.FileInfo` of the hidden file, a
cached directory listing, …) shows up as a difference between the real site and this model on the
request after the change, and — when a hidden inode is served — as a judged violation, because
every answer is judged against the file system of its own moment (`Spec/FileServeSeq.lean`).

The table model of the file system is the one of `Model/FS.lean`; the changes:

  write p ino   the name `p` now refers to a NEW regular file with inode (= content) `ino`:
                `os.WriteFile(tmp)` + `os.Rename(tmp, p)`, or creation when `p` did not exist.
                Other names of the old inode (hard links) keep the old inode.
  remove p      `unlink(p)` of a regular file
  link p q      `ln -f q p`: `p` becomes one more name of the regular file `q`

Directories are never created, removed or replaced (a step that would need that is a no-op, in
the model and in the harness), so "the site root is a directory" survives every step.

CORE LEAN ONLY.
-/
namespace Casket.FileServeSeq
open Casket.Path Casket.FS Casket.FileServe

inductive Step
  | get (method target acceptEncoding : Bytes)
  | write (p : List Bytes) (ino : Nat)
  | remove (p : List Bytes)
  | link (p q : List Bytes)
deriving Repr, DecidableEq

/-- some entry at canonical path `p` is a directory -/
def isDirAt (fs : FS) (p : List Bytes) : Bool := fs.any fun e => e.path = p && e.isDir

/-- the directory that is to hold `p` exists -/
def parentIsDir (fs : FS) (p : List Bytes) : Bool :=
  match stat fs p.dropLast with
  | some e => e.isDir
  | none => false

/-- a name can be (re)bound to a regular file: it is not the root of the table, no directory
has it, and its parent directory exists -/
def bindable (fs : FS) (p : List Bytes) : Bool := p ≠ [] && !isDirAt fs p && parentIsDir fs p

/-- `unlink(p)`: the regular-file entry named `p` disappears (directories stay) -/
def unlink (fs : FS) (p : List Bytes) : FS := fs.filter fun e => !(e.path = p && !e.isDir)

/-- the file system after one step -/
def applyStep (fs : FS) : Step → FS
  | .get _ _ _ => fs
  | .write p ino => if bindable fs p then unlink fs p ++ [{ path := p, isDir := false, ino := ino }] else fs
  | .remove p => unlink fs p
  | .link p q =>
    match fs.find? (fun e => e.path = q && !e.isDir) with
    | some t => if bindable fs p then unlink fs p ++ [{ path := p, isDir := false, ino := t.ino }] else fs
    | none => fs

/-- The answers of the request steps of a script, each computed by the single-request model on
the file system as it is at that moment. -/
def run (site : Site) : FS → List Step → List Resp
  | _, [] => []
  | fs, s :: rest =>
    match s with
    | .get m t ae => serve fs site m t ae :: run site fs rest
    | _ => run site (applyStep fs s) rest

/-- the file-system states a script goes through (the initial one included) -/
def states : FS → List Step → List FS
  | fs, [] => [fs]
  | fs, s :: rest => fs :: states (applyStep fs s) rest

end Casket.FileServeSeq
