import Casket.Model.AutoHTTPSNet
/-
Model of the handler installed by redirPlaintextHost (caskethttp/httpserver/https.go) together with the
standard-library pieces it goes through (Go 1.23):
  net/url.ParseRequestURI on an origin-form request target ("/…"), or "*"     (how net/http builds r.URL)
  URL.RequestURI / EscapedPath, net/url escape / unescape / validEncoded in path mode
  net/http.Redirect (Location = hexEscapeNonASCII(url); status as given)
Byte for byte.  Request targets that are not origin-form or "*" (absolute-form, authority-form) are outside the model.
Core Lean only.
-/
namespace Casket.AutoHTTPS

/-- net/url shouldEscape(c, encodePath) -/
def shouldEscapePath (c : UInt8) : Bool :=
  !(isAlpha c || isDigit c || (b!"-_.~$&+,/:;=@").contains c)

/-- net/url unescape(s, encodePath): none on a malformed %-escape -/
def unescapePath : Bytes → Option Bytes
  | [] => some []
  | 37 :: a :: b :: t =>
    if isHexDigit a && isHexDigit b then (unescapePath t).map (UInt8.ofNat (hexVal a * 16 + hexVal b) :: ·) else none
  | 37 :: _ => none
  | c :: t => (unescapePath t).map (c :: ·)

/-- net/url escape(s, encodePath) -/
def escapePath (s : Bytes) : Bytes :=
  s.flatMap fun c =>
    if shouldEscapePath c then [37, hexDigitUpper (c.toNat / 16), hexDigitUpper (c.toNat % 16)] else [c]

/-- net/url validEncoded(s, encodePath) -/
def validEncodedPath (s : Bytes) : Bool :=
  s.all fun c => (b!"!$&'()*+,;=:@[]%").contains c || !shouldEscapePath c

def hasCTL (s : Bytes) : Bool := s.any fun c => c < 0x20 || c == 0x7f

inductive ReqURI | unreadable | outOfModel | ok (uri : Bytes)
  deriving Repr, DecidableEq, Inhabited

/-- What `r.URL.RequestURI()` gives for a request whose target is `target`:
`unreadable` = url.ParseRequestURI fails (no request reaches a handler); `outOfModel` = absolute-form or
authority-form targets (not modelled). -/
def requestURI (target : Bytes) : ReqURI :=
  if target == b!"*" then .ok b!"*"
  else if !hasPrefix target b!"/" then .outOfModel
  else if hasCTL target then .unreadable
  else
    -- rest, "?" , RawQuery   (ForceQuery when the only '?' is the last byte)
    let (rest, query, hasQ) := cutByte target 63
    match unescapePath rest with
    | none => .unreadable
    | some path =>
      -- setPath: RawPath = rest unless rest is the default encoding of path; then EscapedPath.
      -- (unescape(RawPath) == Path holds by construction; Path starts with "/", so it is not "*" and not empty.)
      let esc := escapePath path
      let escaped := if esc == rest then esc else if validEncodedPath rest then rest else esc
      .ok (if hasQ then escaped ++ b!"?" ++ query else escaped)

/-- net/http hexEscapeNonASCII -/
def hexEscapeNonASCII (s : Bytes) : Bytes :=
  s.flatMap fun c => if c ≥ 0x80 then [37, hexDigitLower (c.toNat / 16), hexDigitLower (c.toNat % 16)] else [c]

/-- host[:port] of the redirect URL: the request's host without its port, IPv6 literals in brackets, and the captured
`redirPort` if there is one -/
def redirHostPort (redirPort hostHeader : Bytes) : Bytes :=
  let requestHost := match splitHostPort hostHeader with
    | some (h, _) => h
    | none =>                                  -- no port: the whole value, without the brackets of an IPv6 literal
      if hasPrefix hostHeader b!"[" && hasSuffix hostHeader b!"]" then (hostHeader.drop 1).dropLast else hostHeader
  if !redirPort.isEmpty then joinHostPort requestHost redirPort
  else if hasByte requestHost 58 then b!"[" ++ requestHost ++ b!"]"
  else requestHost

/-- The redirect handler: the Location it sends for the captured `redirPort`, the request's Host and RequestURI.
(The status is the constant http.StatusMovedPermanently.) -/
def redirLocation (redirPort hostHeader uri : Bytes) : Bytes :=
  hexEscapeNonASCII (b!"https://" ++ redirHostPort redirPort hostHeader ++ uri)

def redirStatus : Nat := 301

end Casket.AutoHTTPS
