import Casket.Model.Policy
/-
Model of the retry loop of `Proxy.ServeHTTP` (caskethttp/proxy/proxy.go) over abstract time.

Time is a natural number of ticks.  An attempt costs no ticks, `time.Sleep(try_interval)` costs
`interval` ticks, a recorded failure is forgotten `failTimeout` ticks after it was recorded
(the goroutine that decrements `Fails`).  Per-host state is kept in functions of the host index:
the expiry times of the outstanding failures and the number of attempts the host has seen.
A backend's behaviour is a script of outcomes, one per attempt on that host (the last repeats).

Selection is `Casket.Policy.upstreamSelect` (the model proved sound and complete in Props/C05)
on the pool as it looks at the time of the call.

The request body: with more than one host and try_duration ≠ 0 the body is buffered and rewound
before every attempt (`newBufferedBody`, `rewind`); otherwise the original reader is handed to
every attempt, so what an attempt can read is what the previous ones left.  "More than one host"
is `GetHostCount() = len(u.Hosts)`: the size of the configured pool, whatever state its backends
are in when the request arrives.

Backends need not be in rotation when the request arrives: a host starts unhealthy, at its
connection cap or with failures already recorded (`fails`; these do not expire while the request is
served), and the environment may change the state of any backend while the request is served:
an `Event` fires when the attempt with its number starts (attempts are counted over all backends)
and replaces the health flag, the in-flight count and the recorded failures of one backend —
a backend coming back (or going away) during the request.

CORE LEAN ONLY: this file is linked into the model driver.
-/
namespace Casket.Retry
open Casket.Policy

inductive Outcome where
  /-- the backend answers (it reads the body) -/
  | ok
  /-- the round trip fails; `readsBody` = the body was consumed before the failure -/
  | fail (readsBody : Bool)
  /-- `context.Canceled`: the client went away -/
  | cancel
  /-- `httpserver.ErrMaxBytesExceeded` -/
  | tooLarge
deriving Repr, DecidableEq

/-- the state of a backend that `Down`/`Full` look at, apart from the failures recorded by this request -/
structure HostState where
  /-- `Unhealthy` flag (health checks) -/
  unhealthy : Bool
  /-- `Conns` of other requests -/
  conns : Nat
  /-- `Fails` recorded by other requests, not expiring while this one is served -/
  fails : Nat
deriving Repr, DecidableEq

structure HostCfg where
  unhealthy : Bool
  conns : Nat
  /-- outcomes of the successive attempts on this host; the last one repeats; empty = always ok -/
  script : List Outcome
  /-- failures already recorded when the request arrives -/
  fails : Nat
deriving Repr, DecidableEq

/-- the state of the backend when the request arrives -/
def HostCfg.state (h : HostCfg) : HostState := { unhealthy := h.unhealthy, conns := h.conns, fails := h.fails }

/-- when attempt number `attempt` (0-based, over all backends) starts, backend `host` is put in `state` -/
structure Event where
  attempt : Nat
  host : Nat
  state : HostState
deriving Repr, DecidableEq

structure Cfg where
  kind : Kind
  hash : Nat
  /-- random stream handed to the n-th `Select` -/
  rands : Nat → List Nat
  tryDuration : Nat
  interval : Nat
  failTimeout : Nat
  maxFails : Nat
  maxConns : Nat
  hosts : List HostCfg
  /-- the request has a body (`outreq.Body != nil`) -/
  hasBody : Bool
  /-- state changes of backends while the request is served -/
  events : List Event

/-- what an attempt read of the request body: there is none, all of it, nothing although there is
one, or the attempt failed before reading (`unread`) -/
inductive Body where
  | none | full | empty | unread
deriving Repr, DecidableEq

structure Attempt where
  host : Nat
  body : Body
deriving Repr, DecidableEq

inductive Result where
  | success
  | badGateway        -- 502
  | cancelled         -- 499
  | tooLarge          -- 413
  | fuelOut
deriving Repr, DecidableEq

structure St where
  now : Nat
  robin : Nat
  /-- expiry times of the recorded failures of host i -/
  timers : Nat → List Nat
  /-- attempts seen by host i -/
  calls : Nat → Nat
  /-- the unbuffered body has not been read yet -/
  bodyUnread : Bool
  /-- number of `Select` calls so far -/
  selects : Nat
  /-- number of attempts started so far -/
  attempts : Nat
  /-- the state the events so far have given host i; `none` = still as on arrival -/
  over : Nat → Option HostState

def St.init : St :=
  { now := 0, robin := 0, timers := fun _ => [], calls := fun _ => 0, bodyUnread := true, selects := 0,
    attempts := 0, over := fun _ => none }

/-- `atomic.LoadInt32(&uh.Fails)` at time `now` -/
def failsAt (st : St) (i : Nat) : Nat := ((st.timers i).filter (fun e => decide (e > st.now))).length

/-- the events of attempt number `n`, in the order written (a later one wins) -/
def applyEvents (evs : List Event) (n : Nat) (over : Nat → Option HostState) : Nat → Option HostState :=
  evs.foldl (fun ov e => if e.attempt = n then (fun j => if j = e.host then some e.state else ov j) else ov) over

/-- the state of host i apart from this request's own failures -/
def hostState (c : Cfg) (over : Nat → Option HostState) (i : Nat) : Option HostState :=
  match c.hosts[i]? with
  | some h => some ((over i).getD h.state)
  | none => none

/-- the pool as `Select` sees it at the current time -/
def poolAt (c : Cfg) (st : St) : Pool :=
  (List.range c.hosts.length).map fun i =>
    match hostState c st.over i with
    | some s => { down := s.unhealthy || decide (s.fails + failsAt st i ≥ c.maxFails), conns := s.conns, maxConns := c.maxConns }
    | none => { down := true, conns := 0, maxConns := 0 }

def outcomeAt (script : List Outcome) (n : Nat) : Outcome :=
  match script with
  | [] => .ok
  | o :: rest => if n = 0 || rest.isEmpty then o else outcomeAt rest (n - 1)

def buffered (c : Cfg) : Bool := decide (c.hosts.length > 1) && c.tryDuration != 0

inductive Step where
  | done (r : Result) (acc : List Attempt)
  | next (st : St) (acc : List Attempt)

/-- the outcome of the attempt host `i` is about to see -/
def outcomeOf (c : Cfg) (st : St) (i : Nat) : Outcome :=
  match c.hosts[i]? with
  | some h => outcomeAt h.script (st.calls i)
  | none => .ok

def readsBody : Outcome → Bool
  | .ok => true
  | .fail r => r
  | _ => false

/-- what the attempt reads of the request body -/
def bodySeen (c : Cfg) (st : St) (o : Outcome) : Body :=
  if !c.hasBody then .none
  else if !readsBody o then .unread
  else if buffered c then .full
  else if st.bodyUnread then .full else .empty

/-- `keepRetrying` after an error at state `st`: give up once try_duration has passed, else sleep -/
def keepRetrying (c : Cfg) (st : St) (acc : List Attempt) : Step :=
  if st.now ≥ c.tryDuration then .done .badGateway acc
  else .next { st with now := st.now + c.interval } acc

/-- one iteration of the `for` loop of `Proxy.ServeHTTP`; `acc` collects the attempts, newest first -/
def step (c : Cfg) (st : St) (acc : List Attempt) : Step :=
  let sel := upstreamSelect c.kind (poolAt c st) st.robin c.hash (c.rands st.selects)
  let st := { st with robin := sel.2, selects := st.selects + 1 }
  match sel.1 with
  | none => keepRetrying c st acc
  | some i =>
    let o := outcomeOf c st i
    let acc := { host := i, body := bodySeen c st o } :: acc
    let st := { st with calls := fun j => if j = i then st.calls j + 1 else st.calls j,
                        bodyUnread := st.bodyUnread && !readsBody o,
                        attempts := st.attempts + 1,
                        over := applyEvents c.events st.attempts st.over }
    match o with
    | .ok => .done .success acc
    | .tooLarge => .done .tooLarge acc
    | .cancel => .done .cancelled acc
    | .fail _ =>
      let st :=
        if c.failTimeout > 0 then
          { st with timers := fun j => if j = i then (st.now + c.failTimeout) :: st.timers j else st.timers j }
        else st
      keepRetrying c st acc

def loop (c : Cfg) : Nat → St → List Attempt → Result × List Attempt
  | 0, _, acc => (.fuelOut, acc.reverse)
  | fuel + 1, st, acc =>
    match step c st acc with
    | .done r acc => (r, acc.reverse)
    | .next st acc => loop c fuel st acc

/-- enough fuel for every run with interval ≥ 1: each further iteration advances the clock -/
def fuelFor (c : Cfg) : Nat := c.tryDuration + 2

def serve (c : Cfg) (robin : Nat) : Result × List Attempt :=
  loop c (fuelFor c) { St.init with robin := robin } []

end Casket.Retry
