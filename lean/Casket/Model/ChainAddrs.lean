import Casket.Model.Chain
/-
A server block with SEVERAL ADDRESSES (C03).

`a.example, b.example { root … ; internal /int ; browse … }` — `InspectServerBlocks` makes one
site configuration per address; `executeDirectives` runs the setup function of every directive of
the block once PER ADDRESS, each time on that address's own configuration.  So every address gets
the middleware AND the configuration entries (internal paths appended to `HiddenFiles`, which
browse and the file server copy at their own setup): what the block means is one `ChainSite`, and
every address of the block is a site with exactly that meaning.

Only work that is not per-site may go through `Controller.OncePerServerBlock`; `onceConfigs` below
is NOT the code: it is the block as it would be if `internal` registered its hide entries once
per block (only the first address's configuration gets them), used by the witness theorem.

CORE LEAN ONLY.
-/
namespace Casket.ChainAddrs
open Casket.Path Casket.FS Casket.FileServe Casket.Chain

/-- one site configuration per address, each with the block's meaning -/
def configsOf (addrs : List Bytes) (cs : ChainSite) : List (Bytes × ChainSite) :=
  addrs.map fun a => (a, cs)

/-- the site the request's Host selects (literal, pairwise different host names; C01 has the rest) -/
def siteAt (cfgs : List (Bytes × ChainSite)) (host : Bytes) : Option ChainSite :=
  (cfgs.find? (fun ac => ac.1 = host)).map (·.2)

def chainServeAt (fs : FS) (cfgs : List (Bytes × ChainSite)) (host : Bytes) (r : CReq) : CResp :=
  match siteAt cfgs host with
  | none => .served (.status 404)
  | some cs => chainServe fs cs r

/-- `internalsrv/setup.go` on one address's configuration: the internal paths join its hide list -/
def withInternalHidden (cs : ChainSite) : ChainSite :=
  { cs with site := { cs.site with hide := cs.site.hide ++ cs.internal } }

/-- NOT the code: hide entries registered once per server block — the first address only -/
def onceConfigs (addrs : List Bytes) (base : ChainSite) : List (Bytes × ChainSite) :=
  match addrs with
  | [] => []
  | a :: rest => (a, withInternalHidden base) :: rest.map fun b => (b, base)

end Casket.ChainAddrs
