/-
Model of the in-flight / failure accounting of caskethttp/proxy (proxy.go: UpstreamHost.Conns,
UpstreamHost.Fails, Full/Down/Available, the body of the `for` loop of Proxy.ServeHTTP) as a
small-step interleaving semantics.

N request threads run the loop body; the shared state is, per backend, the in-flight counter,
the failure counter and the number of pending "forget this failure" timers.  One `Event` is one
atomic action of one thread (or of one timer goroutine); a schedule is a list of events; the
theorems quantify over all schedules.

  idle --select--> selected h --reserve--> forwarding h --finish o--> (Conns--) done | failed h
                        \--(cap reached)--> idle                       failed h --countFail--> idle | done

`select` is a sound policy call made on the state of that moment (`Available()`); `reserve` is
`UpstreamHost.reserve` (one compare-and-swap: count the request in unless the cap is reached, in which
case the thread selects again); `finish` is the
return (or panic) of `proxy.ServeHTTP` together with the deferred decrement; `countFail` is
`Fails++` plus the start of the timer goroutine; `timer` is that goroutine's `Fails--`.

CORE LEAN ONLY: this file is linked into the model driver.
-/
namespace Casket.Accounting

inductive Outcome where
  | ok | err | cancel | tooLarge | panic
deriving Repr, DecidableEq

inductive PC where
  | idle
  | selected (h : Nat)
  | forwarding (h : Nat)
  | failed (h : Nat)
  | done
deriving Repr, DecidableEq

structure Cfg where
  nHosts : Nat
  /-- 0 = unlimited -/
  maxConns : Nat
  maxFails : Nat
  /-- fail_timeout > 0: failures are counted -/
  countFails : Bool
  unhealthy : List Bool
  /-- try_duration > 0 (and not yet over): after a failed attempt, or when no backend is available,
  the request goes back to selecting instead of ending (only read by the schedule replay) -/
  retry : Bool := false
deriving Repr, DecidableEq

structure State where
  pcs : List PC
  conns : List Int
  fails : List Int
  timers : List Nat
  /-- `UpstreamHost.Unhealthy`, written by the health-check worker (`Cfg.unhealthy` is its initial value) -/
  unhealthy : List Bool
deriving Repr, DecidableEq

def State.init (c : Cfg) (nThreads : Nat) : State :=
  { pcs := List.replicate nThreads .idle, conns := List.replicate c.nHosts 0,
    fails := List.replicate c.nHosts 0, timers := List.replicate c.nHosts 0, unhealthy := c.unhealthy }

def getI (l : List Int) (h : Nat) : Int := l.getD h 0
def getN (l : List Nat) (h : Nat) : Nat := l.getD h 0

def bump (l : List Int) (h : Nat) (d : Int) : List Int := l.modify h (· + d)
def bumpN (l : List Nat) (h : Nat) : List Nat := l.modify h (· + 1)
def dropN (l : List Nat) (h : Nat) : List Nat := l.modify h (· - 1)

/-- `UpstreamHost.Full` -/
def full (c : Cfg) (s : State) (h : Nat) : Bool := decide (c.maxConns > 0) && decide (getI s.conns h ≥ c.maxConns)

/-- `UpstreamHost.Down` (the CheckDown closure of staticUpstream.NewHost) -/
def down (c : Cfg) (s : State) (h : Nat) : Bool := s.unhealthy.getD h false || decide (getI s.fails h ≥ c.maxFails)

/-- `UpstreamHost.Available` -/
def avail (c : Cfg) (s : State) (h : Nat) : Bool := decide (h < c.nHosts) && !down c s h && !full c s h

inductive Event where
  /-- thread `t` calls Select and is handed `choice` (a sound policy: an available backend, or none) ;
  `again`: what keepRetrying answers when there is none -/
  | select (t : Nat) (choice : Option Nat) (again : Bool)
  /-- thread `t` reserves a slot on the backend it selected (or finds the cap reached and selects again) -/
  | reserve (t : Nat)
  /-- the round trip of thread `t` ends with outcome `o`; the deferred `Conns--` runs -/
  | finish (t : Nat) (o : Outcome)
  /-- thread `t` records the failure (`Fails++`, timer) and keepRetrying answers `again` -/
  | countFail (t : Nat) (again : Bool)
  /-- one pending timer of backend `h` fires (`Fails--`) -/
  | timer (h : Nat)
  /-- one pass of the health-check worker (`staticUpstream.healthCheck`): every backend's `Unhealthy`
  flag is set to the outcome of its probe; nothing else is touched -/
  | health (flags : List Bool)
deriving Repr, DecidableEq

def setPC (s : State) (t : Nat) (pc : PC) : State := { s with pcs := s.pcs.set t pc }

/-- one atomic action; `none` = the event is not enabled in this state -/
def step (c : Cfg) (s : State) : Event → Option State
  | .select t choice again =>
    match s.pcs[t]? with
    | some .idle =>
      match choice with
      | some h => if avail c s h then some (setPC s t (.selected h)) else none
      | none => some (setPC s t (if again then .idle else .done))
    | _ => none
  | .reserve t =>
    match s.pcs[t]? with
    | some (.selected h) =>
      if full c s h then some (setPC s t .idle)
      else some (setPC { s with conns := bump s.conns h 1 } t (.forwarding h))
    | _ => none
  | .finish t o =>
    match s.pcs[t]? with
    | some (.forwarding h) =>
      let s := { s with conns := bump s.conns h (-1) }
      match o with
      | .err => some (setPC s t (.failed h))
      | _ => some (setPC s t .done)
    | _ => none
  | .countFail t again =>
    match s.pcs[t]? with
    | some (.failed h) =>
      let s := if c.countFails then { s with fails := bump s.fails h 1, timers := bumpN s.timers h } else s
      some (setPC s t (if again then .idle else .done))
    | _ => none
  | .timer h =>
    if getN s.timers h > 0 then some { s with fails := bump s.fails h (-1), timers := dropN s.timers h }
    else none
  | .health flags => some { s with unhealthy := flags }

def run (c : Cfg) : State → List Event → Option State
  | s, [] => some s
  | s, e :: es =>
    match step c s e with
    | some s' => run c s' es
    | none => none

/-- number of threads currently forwarding to backend `h` -/
def forwardingTo (s : State) (h : Nat) : Nat := (s.pcs.filter (· == .forwarding h)).length

/-! ### schedule replay (what the stream c14.sched drives the real code through)

A replay event `adv t x` lets thread `t` run up to its next blocking point; `x` is the preferred
backend (when it selects) or the outcome code (when its round trip ends).  The granularity is
coarser than `step`: the end of a failed round trip includes `countFail` (and, with a short
fail_timeout, the expiry of that failure), because the real code offers no blocking point there.
With `c.retry` a failed request goes back to selecting (try_duration not yet over). -/

inductive Label where
  | sel (h : Nat)
  | none
  | fwd (h : Nat)
  | lost (h : Nat)
  | fin (h : Nat) (o : Outcome)
  | noop
  /-- the oldest outstanding failure of backend `h` has expired -/
  | exp (h : Nat)
  /-- a health-check pass found these backends failing (true) / passing (false) -/
  | hc (flags : List Bool)
  | final
deriving Repr, DecidableEq

structure Snap where
  label : Label
  conns : List Int
  fails : List Int
  inflight : List Nat
  unhealthy : List Bool
deriving Repr, DecidableEq

/-- how failures expire in the replay: not counted, never within the run, right away, or when
the schedule says so (`delayed`: the event of pseudo-thread `waitMark` waits for the oldest one) -/
inductive Expiry where
  | off | never | immediate | delayed
deriving Repr, DecidableEq

def firstAvail (c : Cfg) (s : State) : Option Nat := (List.range c.nHosts).find? (avail c s)

def chooseHost (c : Cfg) (s : State) (pref : Nat) : Option Nat :=
  if avail c s (pref % c.nHosts) then some (pref % c.nHosts) else firstAvail c s

def decodeOutcome (x : Nat) : Outcome :=
  match x % 5 with
  | 0 => .ok
  | 1 => .err
  | 2 => .cancel
  | 3 => .tooLarge
  | _ => .panic

def stepD (c : Cfg) (s : State) (e : Event) : State := (step c s e).getD s

def advance (c : Cfg) (ex : Expiry) (s : State) (t x : Nat) : State × Label :=
  match s.pcs[t]? with
  | some .idle =>
    match chooseHost c s x with
    | some h => (stepD c s (.select t (some h) false), .sel h)
    | none => (stepD c s (.select t none c.retry), .none)
  | some (.selected h) =>
    let s' := stepD c s (.reserve t)
    if s'.pcs[t]? == some (.forwarding h) then (s', .fwd h)
    else
      -- the slot was lost: the thread calls Select again at once; with no backend available that
      -- call returns nil before any policy is consulted and the request ends (retries are off)
      match firstAvail c s' with
      | some _ => (s', .lost h)
      | none => (stepD c s' (.select t none c.retry), .lost h)
  | some (.forwarding h) =>
    let o := decodeOutcome x
    let s1 := stepD c s (.finish t o)
    let s2 := if o == .err then stepD c s1 (.countFail t c.retry) else s1
    let s3 := if o == .err && ex == .immediate then stepD c s2 (.timer h) else s2
    (s3, .fin h o)
  | _ => (s, .noop)

def snap (c : Cfg) (s : State) (l : Label) : Snap :=
  { label := l, conns := s.conns, fails := s.fails, inflight := (List.range c.nHosts).map (forwardingTo s),
    unhealthy := s.unhealthy }

/-- the thread number that stands for "wait until the oldest outstanding failure has expired" -/
def waitMark : Nat := 1000

/-- thread numbers from here on stand for "the client of request t - cancelMark goes away" -/
def cancelMark : Nat := 2000

/-- the thread number that stands for "the health-check worker runs one pass" -/
def healthMark : Nat := 3000

/-- A request whose client has gone away (its context is cancelled) while it was between attempts
or had not started yet: once it has been counted in on a backend, the transport returns
`context.Canceled` at once — the attempt ends with outcome `cancel` in the same action. -/
def afterCancel (c : Cfg) (t : Nat) (r : State × Label) : State × Label :=
  match r.2 with
  | .fwd h => (stepD c r.1 (.finish t .cancel), .fin h .cancel)
  | _ => r

/-- `q`: the backends of the outstanding failures, oldest first (only used with `delayed`);
`cs`: the requests whose client has gone away -/
def replay (c : Cfg) (ex : Expiry) : State → List Nat → List Nat → List (Nat × Nat) → List Snap
  | s, _, _, [] => [snap c s .final]
  | s, q, cs, (t, x) :: es =>
    if t = waitMark then
      match q with
      | h :: q' =>
        let s' := stepD c s (.timer h)
        snap c s' (.exp h) :: replay c ex s' q' cs es
      | [] => snap c s .noop :: replay c ex s [] cs es
    else if t ≥ healthMark then
      -- one pass of the health check: bit h of `x` set = backend h fails its probe
      let flags := (List.range c.nHosts).map (fun h => x / 2 ^ h % 2 == 1)
      let s' := stepD c s (.health flags)
      snap c s' (.hc flags) :: replay c ex s' q cs es
    else if t ≥ cancelMark then
      snap c s .noop :: replay c ex s q ((t - cancelMark) :: cs) es
    else
      let r0 := advance c ex s t x
      let r := if cs.contains t then afterCancel c t r0 else r0
      let q' := match r.2 with
        | .fin h .err => if ex == .delayed then q ++ [h] else q
        | _ => q
      snap c r.1 r.2 :: replay c ex r.1 q' cs es

/-! ### a logical clock for the expiry of failures

The events above say nothing about WHEN a failure may expire.  `Timed` adds a clock advanced by
explicit `tick d` events and remembers for every recorded, unexpired failure its backend and its
recording time.  With `ft` = fail_timeout in ticks:
  * `countFail` (when it records a failure on backend h) appends `(h, now)`;
  * `timer h` is enabled only for a failure of `h` that is due (`recorded + ft ≤ now`) and removes the oldest such;
  * `tick d` is enabled only if no pending failure would become overdue (`now + d ≤ recorded + ft` for all):
    the goroutine sleeping for fail_timeout fires on time.
Everything else is the untimed `step`. -/

structure Timed where
  base : State
  now : Nat
  pending : List (Nat × Nat)
deriving Repr, DecidableEq

inductive TEvent where
  | ev (e : Event)
  | tick (d : Nat)
deriving Repr, DecidableEq

def Timed.init (c : Cfg) (n : Nat) : Timed := { base := State.init c n, now := 0, pending := [] }

/-- the oldest pending failure of backend `h` that is due at `now` -/
def dueOf (ft now h : Nat) (pending : List (Nat × Nat)) : Option (Nat × Nat) :=
  pending.find? (fun p => p.1 == h && decide (p.2 + ft ≤ now))

def tstep (c : Cfg) (ft : Nat) (S : Timed) : TEvent → Option Timed
  | .tick d =>
    if S.pending.all (fun p => decide (S.now + d ≤ p.2 + ft)) then some { S with now := S.now + d } else none
  | .ev (.countFail t again) =>
    match step c S.base (.countFail t again) with
    | none => none
    | some b =>
      match S.base.pcs[t]? with
      | some (.failed h) =>
        some { S with base := b, pending := if c.countFails then S.pending ++ [(h, S.now)] else S.pending }
      | _ => some { S with base := b }
  | .ev (.timer h) =>
    match dueOf ft S.now h S.pending with
    | none => none
    | some p =>
      match step c S.base (.timer h) with
      | none => none
      | some b => some { S with base := b, pending := S.pending.erase p }
  | .ev e => (step c S.base e).map fun b => { S with base := b }

def trun (c : Cfg) (ft : Nat) : Timed → List TEvent → Option Timed
  | S, [] => some S
  | S, e :: es =>
    match tstep c ft S e with
    | some S' => trun c ft S' es
    | none => none

/-- recorded, unexpired failures of backend `h` -/
def pendingOn (S : Timed) (h : Nat) : Nat := (S.pending.filter (fun p => p.1 == h)).length

/-- the earliest moment at which a pending failure is due, with its backend -/
def nextDue (ft : Nat) : List (Nat × Nat) → Option (Nat × Nat)
  | [] => none
  | p :: ps =>
    match nextDue ft ps with
    | some q => if p.2 + ft ≤ q.2 then some (p.1, p.2 + ft) else some q
    | none => some (p.1, p.2 + ft)

/-- let time pass up to `target`, firing every expiry exactly when it is due -/
def advanceTo (c : Cfg) (ft target : Nat) : Nat → Timed → Option Timed
  | 0, _ => none
  | fuel + 1, S =>
    match nextDue ft S.pending with
    | some (h, due) =>
      if due ≤ target then
        match tstep c ft S (.tick (due - S.now)) with
        | some S1 =>
          match tstep c ft S1 (.ev (.timer h)) with
          | some S2 => advanceTo c ft target fuel S2
          | none => none
        | none => none
      else tstep c ft S (.tick (target - S.now))
    | none => tstep c ft S (.tick (target - S.now))

/-- what a probe of backend `h` sees: the failure counter and `Down()` -/
def probe (c : Cfg) (S : Timed) (h : Nat) : Int × Bool := (getI S.base.fails h, down c S.base h)

/-- The scenarios of the stream c14.expiry.  `late` = how long the failing attempt blocks before it
fails (the request has been running that long when the failure is recorded).
single: one attempt on backend 0.  retry: backend 0 fails at once, the retry on backend 1 fails late.
Probes of the late failure's backend at recording + 100, recording + ft − 150 and recording + ft + 250. -/
def expiryScenario (retry : Bool) (ft late : Nat) : Option (List (Int × Bool)) :=
  let c : Cfg := { nHosts := 2, maxConns := 0, maxFails := 1, countFails := true, unhealthy := [false, false], retry := retry }
  let pre : List TEvent :=
    if retry then
      [.ev (.select 0 (some 0) false), .ev (.reserve 0), .ev (.finish 0 .err), .ev (.countFail 0 true),
       .ev (.select 0 (some 1) false), .ev (.reserve 0), .tick late, .ev (.finish 0 .err), .ev (.countFail 0 false)]
    else
      [.ev (.select 0 (some 0) false), .ev (.reserve 0), .tick late, .ev (.finish 0 .err), .ev (.countFail 0 false)]
  let h := if retry then 1 else 0
  do
    let S0 ← trun c ft (Timed.init c 1) pre
    let S1 ← advanceTo c ft (late + 100) 8 S0
    let S2 ← advanceTo c ft (late + ft - 150) 8 S1
    let S3 ← advanceTo c ft (late + ft + 250) 8 S2
    pure [probe c S1 h, probe c S2 h, probe c S3 h]

end Casket.Accounting
