/-
Model of what loading a configuration does to the state of the process
(casket.go: Start, startWithListenerFds, ValidateAndExecuteDirectives, startServers,
Instance.Restart, Instance.Stop, Stop; sigtrap_posix.go: the SIGUSR1 handler;
plugins.go: the event-hook registry; onevent/on.go: hooks registered during setup).

Process state: the sites of the running instance, the listening descriptors the process
holds per port, the number of registered event hooks, the process-wide directive table.  Environment: the ports another
process is listening on.  A configuration is abstracted to what matters for the
property: its sites (one server per port), the number of event hooks its `on` directives
register, and the stage at which loading it fails by itself (a port in use is not a
property of the configuration but of the environment, so it is not a stage here: the
listen loop discovers it).

Every error path performs exactly the cleanup the (repaired) code performs:
  * ValidateAndExecuteDirectives / startWithListenerFds drop the hooks the attempt added,
  * startServers closes the listeners the attempt opened or duplicated,
  * the SIGUSR1 handler purges the hooks before and restores them after a failed reload;
  * a direct `Instance.Restart` has no handler around it: only the first two apply.
Servers are listened in the order of `Cfg.sites` (the Go code iterates a map: any order;
the theorems hold for every order because they hold for every list).
-/
namespace Casket.Load

structure Site where
  port : Nat
  marker : String
deriving DecidableEq, Repr

/-- where loading the configuration fails by itself -/
inductive Stage where
  | none
  | parse        -- syntax error, unknown directive, missing import: nothing has run
  | setupEarly   -- a directive that runs before `on` rejects its arguments (also: missing TLS files)
  | setupLate    -- a directive that runs after `on` rejects its arguments: hooks are already registered
  | startup      -- after the directives, not reached by a validation: MakeServers refuses, or an OnStartup callback fails (e.g. the access log cannot be opened)
deriving DecidableEq, Repr

structure Cfg where
  sites : List Site
  hooks : Nat
  fail : Stage
deriving DecidableEq, Repr

def Cfg.ports (c : Cfg) : List Nat := c.sites.map (·.port)

inductive Op where
  | load (c : Cfg)       -- Start when nothing runs, else reload through the SIGUSR1 handler
  | restart (c : Cfg)    -- Start when nothing runs, else `Instance.Restart` called directly (no handler around it)
  | validate (c : Cfg)   -- ValidateAndExecuteDirectives(cfg, nil, true)
  | stop                 -- casket.Stop()
deriving DecidableEq, Repr

inductive Res where
  | ok | err
deriving DecidableEq, Repr

structure PState where
  /-- an instance is in `instances` -/
  running : Bool
  /-- its sites -/
  sites : List Site
  /-- listening descriptors held by the process, per port -/
  fds : Nat → Nat
  /-- registered event hooks -/
  hooks : Nat
  /-- how often the process-wide table of directives (their execution order, `ValidDirectives`) has been altered since the
  process started: no operation of the code alters it (0 = as compiled in) -/
  dirs : Nat

def PState.init : PState := { running := false, sites := [], fds := fun _ => 0, hooks := 0, dirs := 0 }

def incr (f : Nat → Nat) (p : Nat) : Nat → Nat := fun x => if x = p then f x + 1 else f x
def decr (f : Nat → Nat) (p : Nat) : Nat → Nat := fun x => if x = p then f x - 1 else f x

/-- `ln.Close()` on every listener of the list -/
def closeAll (f : Nat → Nat) : List Nat → (Nat → Nat)
  | [] => f
  | p :: rest => closeAll (decr f p) rest

/-- first loop of `startServers`.  `inherit` = addresses in `restartFds` (their listener is duplicated, which cannot
fail); any other port needs `net.Listen`, which fails when the port is in use by another process (`busy`) or by this
process.  On failure the listeners obtained so far (`opened`, most recent first) are closed again. -/
def listenLoop (busy inherit : List Nat) : (Nat → Nat) → List Nat → List Nat → Bool × (Nat → Nat)
  | f, _, [] => (true, f)
  | f, opened, p :: rest =>
    if inherit.contains p then listenLoop busy inherit (incr f p) (p :: opened) rest
    else if busy.contains p || f p > 0 then (false, closeAll f opened)
    else listenLoop busy inherit (incr f p) (p :: opened) rest

/-- `ValidateAndExecuteDirectives` followed (unless `justValidate`) by MakeServers and the OnStartup callbacks:
the number of hooks afterwards and whether it succeeded.  A failure drops the hooks the attempt registered. -/
def setup (c : Cfg) (hooks : Nat) (justValidate : Bool) : Bool × Nat :=
  match c.fail with
  | .parse => (false, hooks)
  | .setupEarly => (false, hooks)
  | .setupLate => (false, (hooks + c.hooks) - c.hooks)   -- registered by `on`, removed by the error path
  | .startup => if justValidate then (true, hooks + c.hooks) else (false, (hooks + c.hooks) - c.hooks)
  | .none => (true, hooks + c.hooks)

/-- `casket.Start` -/
def start (busy : List Nat) (s : PState) (c : Cfg) : PState × Res :=
  let st := setup c s.hooks false
  if !st.1 then ({ s with hooks := st.2 }, .err) else
  let ll := listenLoop busy [] s.fds [] c.ports
  if !ll.1 then ({ s with fds := ll.2, hooks := st.2 - c.hooks }, .err) else
  ({ s with running := true, sites := c.sites, fds := ll.2, hooks := st.2 }, .ok)

/-- the SIGUSR1 handler: back up and purge the hooks, `Restart`, restore the hooks if it failed -/
def reload (busy : List Nat) (s : PState) (c : Cfg) : PState × Res :=
  let oldHooks := s.hooks
  let st := setup c 0 false
  if !st.1 then ({ s with hooks := oldHooks }, .err) else
  let oldPorts := s.sites.map (·.port)
  let ll := listenLoop busy oldPorts s.fds [] c.ports
  if !ll.1 then ({ s with fds := ll.2, hooks := oldHooks }, .err) else
  -- the new instance serves; stop the old one (closes its listeners)
  ({ s with running := true, sites := c.sites, fds := closeAll ll.2 oldPorts, hooks := st.2 }, .ok)

/-- `Instance.Restart` called directly (the API-level reload): nobody purges the registry first, so the hooks of the new
configuration are registered next to the ones already there, and it is the cleanup of `ValidateAndExecuteDirectives` /
`startWithListenerFds` alone (`removeEventHooksNotIn` the snapshot taken at entry) that takes them out again when the
attempt fails — all of them, however many the configuration registered -/
def restart (busy : List Nat) (s : PState) (c : Cfg) : PState × Res :=
  let st := setup c s.hooks false
  if !st.1 then ({ s with hooks := st.2 }, .err) else
  let oldPorts := s.sites.map (·.port)
  let ll := listenLoop busy oldPorts s.fds [] c.ports
  if !ll.1 then ({ s with fds := ll.2, hooks := st.2 - c.hooks }, .err) else
  ({ s with running := true, sites := c.sites, fds := closeAll ll.2 oldPorts, hooks := st.2 }, .ok)

def step (busy : List Nat) (s : PState) : Op → PState × Res
  | .load c => if s.running then reload busy s c else start busy s c
  | .restart c => if s.running then restart busy s c else start busy s c
  | .validate c =>
    let st := setup c s.hooks true
    ({ s with hooks := st.2 }, if st.1 then .ok else .err)
  | .stop => ({ s with running := false, sites := [], fds := closeAll s.fds (s.sites.map (·.port)) }, .ok)

/-- what a client sees on a port: the marker of the site served there, `hang` when a listening socket is open but
nobody accepts on it, `-` when the connection is refused -/
def probe (s : PState) (p : Nat) : String :=
  match s.sites.find? (·.port == p) with
  | some site => site.marker
  | none => if s.fds p > 0 then "hang" else "-"

structure Obs where
  l1 : Nat
  l2 : Nat
  hooks : Nat
  /-- 0 iff `ValidDirectives` is what it was when the process started -/
  dv : Nat
  s1 : String
  s2 : String
deriving DecidableEq, Repr

def observe (s : PState) : Obs :=
  { l1 := s.fds 1, l2 := s.fds 2, hooks := s.hooks, dv := s.dirs, s1 := probe s 1, s2 := probe s 2 }

def runFrom (busy : List Nat) (s : PState) : List Op → List (Res × Obs)
  | [] => []
  | op :: rest =>
    let r := step busy s op
    (r.2, observe r.1) :: runFrom busy r.1 rest

def run (busy : List Nat) (ops : List Op) : List (Res × Obs) := runFrom busy PState.init ops

end Casket.Load
