import Casket.Model.Hello
/-
Model of the interception heuristics of caskethttp/httpserver/mitm.go:
`looksLike{Firefox,Chrome,Edge,Safari,Tor}`, `assertPresenceAndOrdering`,
`hasGreaseCiphers`, `getVersion` (up to the call of strconv.ParseFloat) and the
decision of `tlsHandler.ServeHTTP`.

Index expressions are checked (`Casket.Fault`).  The numeric tables are the
ones of the Go source; `Casket.Generated.Mitm` is regenerated from the source
on every check and `Props/C19` proves the two copies equal.

CORE LEAN ONLY.
-/
namespace Casket.Mitm
open Casket.Fault Casket.Hello

/-! ### tables of mitm.go -/

def extensionOCSPStatusRequest : Nat := 5
def extensionHeartbeat : Nat := 15
def scsvRenegotiation : Nat := 0xff

def greaseCiphers : List Nat :=
  [0x0A0A, 0x1A1A, 0x2A2A, 0x3A3A, 0x4A4A, 0x5A5A, 0x6A6A, 0x7A7A,
   0x8A8A, 0x9A9A, 0xAAAA, 0xBABA, 0xCACA, 0xDADA, 0xEAEA, 0xFAFA]

def firefoxExtensions : List Nat := [23, 65281, 10, 11, 35, 16, 5, 13]
def firefoxRequiredCurves : List Nat := [29, 23, 24, 25]
def firefoxAllowedCurves : List Nat := [256, 257]
/-- `expectedCipherSuiteOrder` of looksLikeFirefox and looksLikeTor (same list) -/
def firefoxCiphers : List Nat :=
  [0x1301, 0x1303, 0x1302, 0xc02b, 0xc02f, 0xcca9, 0xcca8, 0xc02c, 0xc030,
   0xc00a, 0xc009, 0xc013, 0xc014, 0x33, 0x39, 0x2f, 0x35, 0xa]
def chromeCipherExclusions : List Nat :=
  [0xc024, 0xc023, 0xc028, 0xc027, 0x3d, 0x3c, 0x33, 0x39]
def safariExtensions : List Nat := [10, 11, 13, 13172, 16, 5, 18, 23]
def safariExtensionsIOS11 : List Nat := [65281, 0, 23, 13, 5, 13172, 18, 16, 11, 10]
def safariCiphers : List Nat :=
  [0xc02c, 0xc02b, 0xc024, 0xc023, 0xc00a, 0xc009, 0xc030, 0xc02f, 0xc028,
   0xc027, 0xc014, 0xc013, 0x9d, 0x9c, 0x3d, 0x3c, 0x35, 0x2f]
def torExtensions : List Nat := [10, 11, 16, 5, 13]
def torRequiredCurves : List Nat := [23, 24, 25]

/-! ### helpers -/

/-- `hasGreaseCiphers` (map lookup) -/
def hasGreaseCiphers (cs : List Nat) : Bool := cs.any fun c => greaseCiphers.contains c

/-- `advertisesHeartbeatSupport` -/
def advertisesHeartbeat (info : Info) : Bool := info.extensions.any (· == extensionHeartbeat)

/-- inner loop `for j < len(superset) { if superset[j] == item { found = true; break }; j++ }`;
returns the new `j` and `found` -/
def scan (sup : List Nat) (item : Nat) : Nat → Nat → R (Nat × Bool)
  | 0, _ => .error .fuel
  | fuel + 1, j =>
    if j < sup.length then
      match idx sup j with
      | .error e => .error e
      | .ok x => if x = item then .ok (j, true) else scan sup item fuel (j + 1)
    else .ok (j, false)

/-- outer loop of `assertPresenceAndOrdering` over `subset`, carrying `j` -/
def orderedIn (sup : List Nat) : List Nat → Nat → R Bool
  | [], _ => .ok true
  | item :: rest, j =>
    match scan sup item (sup.length + 1 - j) j with
    | .error e => .error e
    | .ok (j', found) =>
      if j' = sup.length ∧ !found then .ok false else orderedIn sup rest j'

/-- `assertPresenceAndOrdering(requiredItems, candidateList, requiredIsSubset)` -/
def assertPresenceAndOrdering (required candidate : List Nat) (requiredIsSubset : Bool) : R Bool :=
  if requiredIsSubset then orderedIn candidate required 0 else orderedIn required candidate 0

/-- `for i := range req { if curves[off+i] != req[i] { return false } }`: `true` = all equal -/
def curvesMatch (curves : List Nat) (off : Nat) : List Nat → Nat → R Bool
  | [], _ => .ok true
  | r :: rs, i =>
    match idx curves (off + i) with
    | .error e => .error e
    | .ok c => if c ≠ r then .ok false else curvesMatch curves off rs (i + 1)

/-- the loop over `allowedCurves` in looksLikeFirefox: stops at the end of the client's list -/
def allowedCurvesMatch (curves : List Nat) (off : Nat) : List Nat → Nat → R Bool
  | [], _ => .ok true
  | r :: rs, i =>
    if off + i ≥ curves.length then .ok true else
    match idx curves (off + i) with
    | .error e => .error e
    | .ok c => if c ≠ r then .ok false else allowedCurvesMatch curves off rs (i + 1)

/-! ### the five heuristics -/

/-- `if len(info.Curves) > len(requiredCurves) { … allowedCurves … }`: `true` = not rejected -/
def firefoxExtraCurves (curves : List Nat) : R Bool :=
  if curves.length > firefoxRequiredCurves.length
  then allowedCurvesMatch curves firefoxRequiredCurves.length firefoxAllowedCurves 0
  else .ok true

/-- `looksLikeFirefox` -/
def looksLikeFirefox (info : Info) : R Bool :=
  match assertPresenceAndOrdering firefoxExtensions info.extensions true with
  | .error e => .error e
  | .ok false => .ok false
  | .ok true =>
    if info.curves.length < firefoxRequiredCurves.length then .ok false else
    match curvesMatch info.curves 0 firefoxRequiredCurves 0 with
    | .error e => .error e
    | .ok false => .ok false
    | .ok true =>
      match firefoxExtraCurves info.curves with
      | .error e => .error e
      | .ok false => .ok false
      | .ok true =>
        if hasGreaseCiphers info.ciphers then .ok false else
        assertPresenceAndOrdering firefoxCiphers info.ciphers false

/-- `looksLikeChrome` (maps and range loops only) -/
def looksLikeChrome (info : Info) : R Bool :=
  if info.ciphers.any (fun c => chromeCipherExclusions.contains c) then .ok false
  else if info.curves.any (· == 25) then .ok false
  else if !hasGreaseCiphers info.ciphers then .ok false
  else .ok true

/-- the `for i, ext := range info.Extensions` loop of looksLikeEdge, from index `i`;
`false` = the function returns false -/
def edgeExts (exts : List Nat) : List Nat → Nat → R Bool
  | [], _ => .ok true
  | e :: rest, i =>
    if e = extensionOCSPStatusRequest then
      if exts.length ≤ i + 2 then .ok false else
      match idx exts (i + 1) with
      | .error er => .error er
      | .ok a =>
        if a ≠ extensionSupportedCurves then .ok false else
        match idx exts (i + 2) with
        | .error er => .error er
        | .ok b =>
          if b ≠ extensionSupportedPoints then .ok false else edgeExts exts rest (i + 1)
    else edgeExts exts rest (i + 1)

/-- `looksLikeEdge` -/
def looksLikeEdge (info : Info) : R Bool :=
  match edgeExts info.extensions info.extensions 0 with
  | .error e => .error e
  | .ok false => .ok false
  | .ok true =>
    if info.ciphers.any (fun cs => cs == scsvRenegotiation || cs == 0x4 || cs == 0x5) then .ok false
    else if hasGreaseCiphers info.ciphers then .ok false
    else .ok true

/-- the `if !assert(…) { iOS 11 order } else { SCSV first }` part of looksLikeSafari: `true` = go on -/
def safariSecond (first : Bool) (info : Info) : R Bool :=
  if !first then assertPresenceAndOrdering safariExtensionsIOS11 info.extensions true
  else if info.ciphers.length < 1 then .ok false
  else match idx info.ciphers 0 with
    | .error e => .error e
    | .ok c0 => .ok (decide (c0 = scsvRenegotiation))

/-- `looksLikeSafari` -/
def looksLikeSafari (info : Info) : R Bool :=
  match assertPresenceAndOrdering safariExtensions info.extensions true with
  | .error e => .error e
  | .ok first =>
    match safariSecond first info with
    | .error e => .error e
    | .ok false => .ok false
    | .ok true =>
      if hasGreaseCiphers info.ciphers then .ok false else
      assertPresenceAndOrdering safariCiphers info.ciphers true

/-- `infoCurves` of looksLikeTor: the optional leading curve 29 removed; `none` = return false -/
def torCurves (info : Info) : R (Option (List Nat)) :=
  if info.curves.length = 4 then
    match idx info.curves 0 with
    | .error e => .error e
    | .ok c0 =>
      if c0 ≠ 29 then .ok none else
      match sliceFrom info.curves 1 with
      | .error e => .error e
      | .ok t => .ok (some t)
  else .ok (some info.curves)

/-- `looksLikeTor` -/
def looksLikeTor (info : Info) : R Bool :=
  match assertPresenceAndOrdering torExtensions info.extensions true with
  | .error e => .error e
  | .ok false => .ok false
  | .ok true =>
    if info.extensions.any (· == 35) then .ok false else
    match torCurves info with
    | .error e => .error e
    | .ok none => .ok false
    | .ok (some infoCurves) =>
      if infoCurves.length < torRequiredCurves.length then .ok false else
      match curvesMatch infoCurves 0 torRequiredCurves 0 with
      | .error e => .error e
      | .ok false => .ok false
      | .ok true =>
        if hasGreaseCiphers info.ciphers then .ok false else
        assertPresenceAndOrdering firefoxCiphers info.ciphers false

/-! ### `getVersion` up to `strconv.ParseFloat` -/

/-- `end` of getVersion: the first space after `start`, else `len(ua)` -/
def tokenEnd (uaLen start : Nat) (tail : Bytes) : Nat :=
  match indexOf tail [0x20] with
  | none => uaLen
  | some e => e + start

/-- dashes removed, every dot after the first removed -/
def cleanVersion (tok : Bytes) : R Bytes :=
  let strVer := removeByte tok 0x2d
  match indexOf strVer [0x2e] with
  | none => .ok strVer
  | some fd =>
    match slice strVer 0 (fd + 1) with
    | .error e => .error e
    | .ok a =>
      match sliceFrom strVer (fd + 1) with
      | .error e => .error e
      | .ok b => .ok (a ++ removeByte b 0x2e)

/-- The string handed to `strconv.ParseFloat` (`none` = software name not found, result -1). -/
def getVersionStr (ua name : Bytes) : R (Option Bytes) :=
  match indexOf ua (name ++ [0x2f]) with
  | none => .ok none
  | some start0 =>
    match sliceFrom ua (start0 + (name ++ [0x2f]).length) with
    | .error e => .error e
    | .ok tail =>
      match slice ua (start0 + (name ++ [0x2f]).length)
          (tokenEnd ua.length (start0 + (name ++ [0x2f]).length) tail) with
      | .error e => .error e
      | .ok tok =>
        match cleanVersion tok with
        | .error e => .error e
        | .ok s => .ok (some s)

def isDigit (b : UInt8) : Bool := 0x30 ≤ b && b ≤ 0x39

def digitsVal (ds : Bytes) : Nat := ds.foldl (fun acc d => acc * 10 + (d.toNat - 0x30)) 0

/-- What `strconv.ParseFloat` makes of a string, as far as it is modelled: a plain decimal
`[+]digits[.digits]` with at least one digit (mantissa, number of fraction digits), certainly
not a number, or a syntax the model does not cover (exponents, hex, underscores, inf/nan). -/
inductive FloatClass where
  | num (m k : Nat)
  | notNumber
  | unmodelled
deriving Repr, DecidableEq

/-- bytes that occur in some string `ParseFloat` accepts -/
def floatAlphabet : Bytes := "0123456789+-._eEpPxXaAbBcCdDfFiInNtTyY".toList.map (·.toNat.toUInt8)

def classifyFloat (s : Bytes) : FloatClass :=
  let other : FloatClass := if s.any (fun b => !floatAlphabet.contains b) then .notNumber else .unmodelled
  let t := match s with
    | 0x2b :: r => r
    | _ => s
  let ip := t.takeWhile isDigit
  match t.dropWhile isDigit with
  | [] => if ip.isEmpty then .notNumber else .num (digitsVal ip) 0
  | 0x2e :: fr =>
    if fr.all isDigit then
      if ip.isEmpty && fr.isEmpty then .notNumber else .num (digitsVal (ip ++ fr)) fr.length
    else other
  | _ => other

/-- `ParseFloat(s) == v` for a small integer `v` whose float64 has an even mantissa and
exponent 5 (45 and 52): the correctly rounded value of `m / 10^k` is `v` iff it lies within
half an ulp (`2^-48`), ties included. -/
def roundsTo (m k v : Nat) : Bool :=
  let scale := 2 ^ 48
  let a := m * scale
  let b := v * 10 ^ k * scale
  (if a ≥ b then a - b else b - a) ≤ 10 ^ k

/-- `ver == 45.0 || ver == 52.0` where `ver = getVersion(ua, "Firefox")`;
`none` = the version string is outside the modelled ParseFloat class. -/
def verIs45or52 (strVer : Option Bytes) : Option Bool :=
  match strVer with
  | none => some false          -- -1
  | some s =>
    match classifyFloat s with
    | .num m k => some (roundsTo m k 45 || roundsTo m k 52)
    | .notNumber => some false
    | .unmodelled => none

/-! ### `tlsHandler.ServeHTTP` -/

inductive Verdict where
  | unchecked
  | checked (mitm : Bool)
  | unmodelled            -- decision depends on a ParseFloat input outside the modelled class
deriving Repr, DecidableEq

def notB (r : R Bool) : R Bool :=
  match r with
  | .error e => .error e
  | .ok b => .ok !b

/-- the `if … else if …` cascade on the User-Agent; `blueCoat`/`fortinet`: the request carries a
non-empty `X-BlueCoat-Via` / `X-FCCKV2` header -/
def serveDecision (ua : Bytes) (blueCoat fortinet : Bool) (info : Info) : R Verdict :=
  let has (s : String) := contains ua (bytes s)
  let chk (r : R Bool) : R Verdict :=
    match r with
    | .error e => .error e
    | .ok looks => .ok (.checked !looks)
  if blueCoat || fortinet || advertisesHeartbeat info then .ok (.checked true)
  else if has "Edge" || has "MSIE" || has "Trident" then chk (looksLikeEdge info)
  else if has "Chrome" then chk (looksLikeChrome info)
  else if has "CriOS" then
    match looksLikeChrome info with
    | .error e => .error e
    | .ok true => .ok (.checked false)       -- `!chrome && …` short-circuits
    | .ok false => chk (looksLikeSafari info)
  else if has "Firefox" then
    if has "Windows" then
      match getVersionStr ua (bytes "Firefox") with
      | .error e => .error e
      | .ok sv =>
        match verIs45or52 sv with
        | none => .ok .unmodelled
        | some true => chk (looksLikeTor info)
        | some false => chk (looksLikeFirefox info)
    else chk (looksLikeFirefox info)
  else if has "Safari" then chk (looksLikeSafari info)
  else .ok .unchecked

end Casket.Mitm
