import Casket.Model.Fault
/-
The `Status` header a FastCGI responder sends, as `FCGIClient.Request` (fcgiclient.go) and
`fastcgi.Handler.ServeHTTP` / `writeHeader` (fastcgi.go) process it.

    if resp.Header.Get("Status") != "" {
        statusParts := strings.SplitN(resp.Header.Get("Status"), " ", 2)
        resp.StatusCode, err = strconv.Atoi(statusParts[0])        -- idx parts 0
        if err != nil { return }
        if len(statusParts) > 1 { resp.Status = statusParts[1] }    -- idx parts 1
    } else { resp.StatusCode = http.StatusOK }

    -- ServeHTTP: an error of Request (other than io.EOF) is 502; a status code net/http's
    -- WriteHeader refuses (it panics outside 100..999) is 502 too; otherwise
    w.WriteHeader(resp.StatusCode)

The input is the header value as net/textproto delivers it (leading/trailing SP and HT removed,
every other byte — non-ASCII white space such as U+00A0 or U+0085 included — kept).

CORE LEAN ONLY: linked into the model driver.
-/
namespace Casket.FCGIStatus
open Casket.Fault

def isDigit (b : UInt8) : Bool := 48 ≤ b && b ≤ 57

def digitsVal (s : Bytes) : Nat := s.foldl (fun n b => n * 10 + (b.toNat - 48)) 0

/-- `strconv.Atoi` on a 64-bit platform: optional sign, one or more ASCII digits (no underscores,
base 10), value within int64; `none` = the error return. -/
def atoi (s : Bytes) : Option Int :=
  let (neg, ds) := match s with
    | 45 :: r => (true, r)
    | 43 :: r => (false, r)
    | r => (false, r)
  if ds.isEmpty || !ds.all isDigit then none
  else
    let n := digitsVal ds
    if neg then (if n ≤ 2 ^ 63 then some (-(n : Int)) else none)
    else (if n < 2 ^ 63 then some (n : Int) else none)

structure Resp where
  code : Int
  status : Bytes
deriving DecidableEq, Repr

/-- the Status part of `FCGIClient.Request`; `.ok none` = Request returns the Atoi error -/
def parseStatus (v : Bytes) : R (Option Resp) :=
  if v.isEmpty then .ok (some ⟨200, []⟩) else
  let parts := splitFirst 32 v
  match idx parts 0 with
  | .error e => .error e
  | .ok p0 =>
    match atoi p0 with
    | none => .ok none
    | some c =>
      if 1 < parts.length then
        match idx parts 1 with
        | .error e => .error e
        | .ok p1 => .ok (some ⟨c, p1⟩)
      else .ok (some ⟨c, []⟩)

/-- `checkWriteHeaderCode` of net/http: `WriteHeader(c)` panics unless this holds -/
def validCode (c : Int) : Bool := decide (100 ≤ c) && decide (c ≤ 999)

inductive Served where
  | badGateway            -- ServeHTTP returns 502, nothing written
  | wrote (code : Int)    -- w.WriteHeader(code), ServeHTTP returns 0
deriving DecidableEq, Repr

/-- what `Handler.ServeHTTP` does with the responder's Status value -/
def serve (v : Bytes) : R Served :=
  match parseStatus v with
  | .error e => .error e
  | .ok none => .ok .badGateway
  | .ok (some r) => if validCode r.code then .ok (.wrote r.code) else .ok .badGateway

/-- `ServeHTTP` before the guard: whatever code `Request` returned goes to `WriteHeader` -/
def serveUnguarded (v : Bytes) : R Served :=
  match parseStatus v with
  | .error e => .error e
  | .ok none => .ok .badGateway
  | .ok (some r) => .ok (.wrote r.code)

theorem splitFirst_length (c : UInt8) (s : Bytes) :
    (splitFirst c s).length = 1 ∨ (splitFirst c s).length = 2 := by
  unfold splitFirst
  cases indexOf s [c] <;> simp

theorem parseStatus_ok (v : Bytes) : IsOk (parseStatus v) := by
  unfold parseStatus
  split
  · exact ⟨_, rfl⟩
  · unfold splitFirst
    cases indexOf v [32] with
    | none =>
      simp only [idx, List.getElem?_cons_zero, List.length_singleton, Nat.lt_irrefl, if_false]
      cases atoi v <;> exact ⟨_, rfl⟩
    | some i =>
      simp only [idx, List.getElem?_cons_zero]
      cases atoi (v.take i) with
      | none => exact ⟨_, rfl⟩
      | some c => exact ⟨some ⟨c, v.drop (i + 1)⟩, by simp⟩

theorem serve_ok (v : Bytes) : IsOk (serve v) := by
  unfold serve
  obtain ⟨x, hx⟩ := parseStatus_ok v
  rw [hx]
  cases x with
  | none => exact ⟨_, rfl⟩
  | some r =>
    dsimp only
    split <;> exact ⟨_, rfl⟩

/-- every code the handler passes to `WriteHeader` is one net/http accepts -/
theorem serve_wrote_valid (v : Bytes) (c : Int) (h : serve v = .ok (.wrote c)) : validCode c = true := by
  unfold serve at h
  obtain ⟨x, hx⟩ := parseStatus_ok v
  rw [hx] at h
  cases x with
  | none => simp at h
  | some r =>
    dsimp only at h
    split at h
    · rename_i hv
      simp only [Except.ok.injEq, Served.wrote.injEq] at h
      rw [← h]; exact hv
    · simp at h

end Casket.FCGIStatus
