/-
The process-wide htpasswd cache of basicauth as a sequence of calls sees it (C11: state carried from one load of a
configuration to the next; seeded regression C11-forgethtpasswd-relocks-mutex; finding F6).

`GetHtpasswdMatcher(filename, username, siteRoot)` (caskethttp/basicauth/basicauth.go) is what the basicauth directive's
setup calls for a `htpasswd=<file>` password.  It takes the package mutex `htpasswordsMu`, drops the cached table of the
file when the file no longer has the stamp (modification time, size) it was parsed with or cannot be examined, parses
and caches the file when there is no table, looks the user up — and every way out releases the mutex (`defer Unlock`).
`sync.Mutex` is not reentrant and nobody else ever unlocks it: a call that returns with the mutex held, or that takes it
a second time, blocks this and every later load of a configuration with `htpasswd=` for ever.

The model keeps the mutex as a flag and mirrors the function path by path:  entry `lock` (a call that finds the flag
set never returns: `Res.hang`), every return goes through `unlock`.  The disk is part of the state; a file's stamp is a
version number that every write renews (so equal stamps mean equal contents — the assumption the real stamp makes).
What is NOT modelled: the contents of the table beyond the set of user names (C03 models passwords and cache keys).

CORE LEAN ONLY.
-/
namespace Casket.HtCacheLock

/-- what a file contains: the users it lists, or at least one line without a colon -/
inductive Content
  | users (us : List Nat)
  | malformed
deriving DecidableEq, Repr

/-- what is on disk under one name -/
inductive Disk
  | absent
  | dir                                  -- `os.Open` succeeds, reading fails
  | file (stamp : Nat) (c : Content)
deriving DecidableEq, Repr

/-- `htpasswords[filename]` together with `htpasswordStamps[filename]` -/
structure Entry where
  us : List Nat
  stamp : Nat
deriving DecidableEq, Repr

structure St where
  disk : Nat → Disk
  cache : Nat → Option Entry
  clock : Nat          -- the next stamp
  locked : Bool        -- htpasswordsMu

/-- how a call ends -/
inductive Res
  | ok            -- a matcher is returned
  | eopen         -- `open "…": …`
  | eparse        -- `parsing htpasswd "…": …`
  | enouser       -- `username "…" not found in "…"`
  | hang          -- blocked on the mutex: the call never returns
deriving DecidableEq, Repr

def upd {α : Type} (m : Nat → α) (k : Nat) (v : α) : Nat → α := fun i => if i = k then v else m i

def init : St := { disk := fun _ => .absent, cache := fun _ => none, clock := 0, locked := false }

/-- `os.Stat` fails, or the stamp is not the one the table was parsed at -/
def stale (d : Disk) (e : Entry) : Bool :=
  match d with
  | .file s _ => s != e.stamp
  | .dir => true       -- a directory has neither the size nor the time of the file that was parsed
  | .absent => true

def unlock (s : St) : St := { s with locked := false }

def lookup (us : List Nat) (u : Nat) : Res := if us.contains u then .ok else .enouser

/-- `if stamp, ok := htpasswordStamps[filename]; ok { if the file is not the one that was parsed { delete … } }` -/
def dropStale (f : Nat) (s : St) : St :=
  match s.cache f with
  | some e => if stale (s.disk f) e then { s with cache := upd s.cache f none } else s
  | none => s

/-- `pm == nil`: open, parse, remember (only a file that parses is remembered), look the user up -/
def readFile (f u : Nat) (s : St) : Res × St :=
  match s.disk f with
  | .absent => (.eopen, s)                                           -- os.Open fails
  | .dir => (.eparse, s)                                             -- scanner.Err(): read …: is a directory
  | .file _ .malformed => (.eparse, s)
  | .file st (.users us) =>                                          -- htpasswords[filename] = pm; stamp from fh.Stat()
    (lookup us u, { s with cache := upd s.cache f (some ⟨us, st⟩) })

/-- `GetHtpasswdMatcher` for file `f` and user `u` -/
def get (f u : Nat) (s : St) : Res × St :=
  if s.locked then (.hang, s) else                                   -- htpasswordsMu.Lock() on a held mutex
  let s := dropStale f { s with locked := true }                     -- Lock(); defer Unlock()
  match s.cache f with
  | some e => (lookup e.us u, unlock s)                              -- pm != nil
  | none => let r := readFile f u s; (r.1, unlock r.2)

/-- what a process that never saw the file answers -/
def fresh (d : Disk) (u : Nat) : Res :=
  match d with
  | .absent => .eopen
  | .dir => .eparse
  | .file _ .malformed => .eparse
  | .file _ (.users us) => lookup us u

inductive Op
  | get (f u : Nat)
  | write (f : Nat) (c : Content)      -- create or overwrite
  | remove (f : Nat)
  | mkdir (f : Nat)                    -- a directory takes the file's place
  | touch (f : Nat)                    -- same contents, new modification time
deriving DecidableEq, Repr

/-- the file an operation changes -/
def Op.target : Op → Option Nat
  | .get _ _ => none
  | .write f _ => some f
  | .remove f => some f
  | .mkdir f => some f
  | .touch f => some f

def mutate (op : Op) (s : St) : St :=
  match op with
  | .get _ _ => s
  | .write f c => { s with disk := upd s.disk f (.file s.clock c), clock := s.clock + 1 }
  | .remove f => { s with disk := upd s.disk f .absent }
  | .mkdir f => { s with disk := upd s.disk f .dir }
  | .touch f =>
    match s.disk f with
    | .file _ c => { s with disk := upd s.disk f (.file s.clock c), clock := s.clock + 1 }
    | _ => s

/-- a history of calls and file changes; the results of the calls in order -/
def run : List Op → St → List Res
  | [], _ => []
  | .get f u :: rest, s => let r := get f u s; r.1 :: run rest r.2
  | op :: rest, s => run rest (mutate op s)

/-- the same history answered by a fresh process at every call -/
def runFresh : List Op → St → List Res
  | [], _ => []
  | .get f u :: rest, s => fresh (s.disk f) u :: runFresh rest s
  | op :: rest, s => runFresh rest (mutate op s)

end Casket.HtCacheLock
