import Casket.Model.Fault
/-
Model of caskethttp/push/link_parser.go: `parseLinkHeader`, on bytes.
`link[li+1 : ri]`, `link[ri+1:]` and `parts[0]` are checked operations.
The `params` map is kept as an association list sorted by key (what the
correspondence stream prints).

CORE LEAN ONLY.
-/
namespace Casket.Link
open Casket.Fault

structure Resource where
  uri    : Bytes
  params : List (Bytes × Bytes)
deriving Repr, DecidableEq

/-- bytewise `<` on strings (Go string comparison) -/
def bytesLt : Bytes → Bytes → Bool
  | [], [] => false
  | [], _ :: _ => true
  | _ :: _, [] => false
  | a :: as, b :: bs => a < b || (a == b && bytesLt as bs)

/-- `m[k] = v` on the sorted association list -/
def put (k v : Bytes) : List (Bytes × Bytes) → List (Bytes × Bytes)
  | [] => [(k, v)]
  | (k', v') :: rest =>
    if k == k' then (k, v) :: rest
    else if bytesLt k k' then (k, v) :: (k', v') :: rest
    else (k', v') :: put k v rest

/-- body of the loop over `;`-separated parameters -/
def param (m : List (Bytes × Bytes)) (p : Bytes) : R (List (Bytes × Bytes)) :=
  let parts := splitFirst 0x3d (trimSpace p)
  match idx parts 0 with
  | .error e => .error e
  | .ok p0 =>
    let key := trimSpace p0
    if key.isEmpty then .ok m else
    let m := if parts.length = 1 then put key key m else m
    if parts.length = 2 then
      match idx parts 1 with
      | .error e => .error e
      | .ok p1 => .ok (put key (trimSpace p1) m)
    else .ok m

def params : List Bytes → List (Bytes × Bytes) → R (List (Bytes × Bytes))
  | [], m => .ok m
  | p :: ps, m =>
    match param m p with
    | .error e => .error e
    | .ok m' => params ps m'

/-- one comma-separated link: `none` = `continue` -/
def link (l : Bytes) : R (Option Resource) :=
  match indexOf l [0x3c], indexOf l [0x3e] with
  | some li, some ri =>
    if ri < li then .ok none else
    match sliceInt l (li + 1) ri with
    | .error e => .error e
    | .ok u =>
      match sliceFrom l (ri + 1) with
      | .error e => .error e
      | .ok tail =>
        match params (splitByte 0x3b (trimSpace tail)) [] with
        | .error e => .error e
        | .ok m => .ok (some { uri := trimSpace u, params := m })
  | _, _ => .ok none

def links : List Bytes → R (List Resource)
  | [] => .ok []
  | l :: ls =>
    match link l with
    | .error e => .error e
    | .ok r =>
      match links ls with
      | .error e => .error e
      | .ok rs => .ok (match r with | some x => x :: rs | none => rs)

/-- `parseLinkHeader` -/
def parseLinkHeader (header : Bytes) : R (List Resource) :=
  if header.isEmpty then .ok [] else links (splitByte 0x2c header)

end Casket.Link
