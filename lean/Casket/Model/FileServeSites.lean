import Casket.Model.FileServe
/-
Several sites loaded from ONE Casketfile (C02): what the configuration MEANS for file serving.

A Casketfile is a list of server blocks; a block lists one or more addresses and its directives.
`httpContext.InspectServerBlocks` makes one `SiteConfig` per ADDRESS (block by block, address by
address, in the order of the file), every one carrying the path of the Casketfile it came from;
`root`, `index`, `browse` are executed once per address of their block; after the `root` directive
has run for all blocks the parsing callback `hideCasketfile` walks over ALL site configurations
and appends the Casketfile to the `HiddenFiles` of each one whose root contains it.

The model below is that walk as the loop it is (`hideAll`), and the selection of the site
configuration by the request's Host (`siteOf`; host matching proper — wild cards, ports, fallback
hosts — is C01's subject: hosts here are distinct literal names).  How a block is WRITTEN
(order of its lines, quoting, a trailing slash or a dot-dot detour in the root, several `index`
lines, addresses on one line or several, letter case of the host) is not part of this structure:
every spelling of the same meaning must be answered alike.

CORE LEAN ONLY.
-/
namespace Casket.FileServeSites
open Casket.Path Casket.FS Casket.FileServe

/-- what one server block means for file serving -/
structure Block where
  hosts : List Bytes            -- its addresses; each gets a site configuration of its own
  root : Bytes                  -- the site root as `filepath.Abs` returns it (absolute, cleaned)
  indexPages : List Bytes
  pathPrefix : Bytes            -- path of the addresses; "/" when they have none
  browse : List BrowseCfg
deriving Repr

/-- `InspectServerBlocks`: one site configuration per address, in the order of the file -/
def configs (blocks : List Block) : List (Bytes × Block) :=
  blocks.flatMap fun b => b.hosts.map fun h => (h, b)

/-- `hideCasketfile` (plugin.go), the loop over all site configurations: `HiddenFiles` of each.
`cf` is the absolute path of the Casketfile (the same for every configuration; "" when the input
has no file).  `if cfg.originCasketfile == "" { return nil }` ends the whole walk; a root that
does not contain the Casketfile only skips THAT configuration. -/
def hideAll (cf : Bytes) : List Bytes → List (List Bytes)
  | [] => []
  | root :: rest =>
    if cf = [] then [] :: rest.map (fun _ => [])
    else (if hasPrefix cf root then [trimPrefix cf root] else []) :: hideAll cf rest

/-- the elements of an absolute path -/
def rootElems (p : Bytes) : List Bytes := (splitOn slash p).filter (· ≠ [])

def mkSite (encodings : List (Bytes × Bytes)) (b : Block) (hide : List Bytes) : Site :=
  { root := rootElems b.root, hide := hide, indexPages := b.indexPages, encodings := encodings,
    pathPrefix := b.pathPrefix, browse := b.browse }

/-- the site configuration the request's Host selects, with the hide list the walk gave it -/
def siteOf (encodings : List (Bytes × Bytes)) (cf : Bytes) (blocks : List Block) (host : Bytes) : Option Site :=
  let cs := configs blocks
  ((cs.zip (hideAll cf (cs.map (·.2.root)))).find? (fun ch => ch.1.1 = host)).map
    fun ch => mkSite encodings ch.1.2 ch.2

/-- one request to a server with several sites -/
def serveSites (fs : FS) (encodings : List (Bytes × Bytes)) (cf : Bytes) (blocks : List Block)
    (host method target acceptEncoding : Bytes) : Resp :=
  match siteOf encodings cf blocks host with
  | none => .status 404
  | some s => serve fs s method target acceptEncoding

/-- NOT the code: the walk with `return nil` where the code skips (a guard clause "mirroring" the
one for the empty origin).  Used only by the witness theorem that shows what the per-site
statement rests on. -/
def hideAllReturning (cf : Bytes) : List Bytes → List (List Bytes)
  | [] => []
  | root :: rest =>
    if cf = [] then [] :: rest.map (fun _ => [])
    else if !hasPrefix cf root then [] :: rest.map (fun _ => [])
    else [trimPrefix cf root] :: hideAllReturning cf rest

/-- NOT the code: `hideCasketfile` with the containment test on "whole path segments"
(`HasPrefix(casketfile, root + "/")`).  `filepath.Abs` leaves no trailing separator on any path but
ONE, the top of the file system: for the root `/` the tested prefix is `//`, which no cleaned path
has.  Used only by the witness theorem for a site whose root is `/`. -/
def hideCasketfileSep (absRoot absCasketfile : Bytes) : List Bytes :=
  if absCasketfile = [] then []
  else if hasPrefix absCasketfile (absRoot ++ [slash]) then [trimPrefix absCasketfile absRoot] else []

end Casket.FileServeSites
