/-
Model of caskethttp/httpserver/replacer.go: `replacer.Replace`, `unescapeBraces` and
`getSubstitution`.

Strings are byte lists.  `replace` follows the Go loop as it is written:
  * early return when the string has no brace at all,
  * search for the first `{` that is not immediately preceded by a backslash, then for
    the first such `}` after it (an unpaired brace ends the loop),
  * the placeholder text AND the literal prefix go through `unescapeBraces`
    (two sequential `strings.Replace` passes, `\{`→`{` then `\}`→`}`),
  * the quirk `strings.TrimPrefix(prefix, "\\")`: one leading backslash of every literal
    prefix in front of a placeholder is dropped,
  * the substituted value is appended to `result` and never looked at again; scanning
    continues in the rest of the *format*.
Values that can carry decoded or middleware-supplied request text go through `oneLine` (`escNL`).
`subst` is `getSubstitution`: custom values, then the sigils `>` `<` `~` `?` `$` tested on
`key[1]` in that order (a miss falls through to the next test exactly as in Go), then the
fixed table, then `{labelN}`, then the empty-value marker.  Every Go index/slice expression
is a checked operation here (`R.panic`), so "Replace never panics" is a theorem
(`Props/C20.lean`) and not an assumption.

What the request *is* (parsed cookies, parsed query, `net.SplitHostPort` results,
`URL.RequestURI()`) is an input of the model (`Env`): those are standard-library results.
Placeholders whose value is a clock reading, the machine's host name, a request dump or a TLS
certificate field are `opaque` (an uninterpreted function of the environment).

CORE LEAN ONLY: this file is linked into the model driver.
-/
namespace Casket.Replacer

abbrev Bytes := List UInt8

/-- ASCII string literal → bytes (all table keys are ASCII). -/
def asc (s : String) : Bytes := s.toList.map (fun c => UInt8.ofNat c.toNat)

def bsl : UInt8 := 92   -- '\\'
def lbr : UInt8 := 123  -- '{'
def rbr : UInt8 := 125  -- '}'

/-- `strings.Replace(s, "\\"+c, c, -1)`: non-overlapping, left to right. -/
def replaceEsc (c : UInt8) : Bytes → Bytes
  | [] => []
  | [x] => [x]
  | x :: y :: rest =>
    if x = bsl ∧ y = c then c :: replaceEsc c rest else x :: replaceEsc c (y :: rest)

/-- `unescapeBraces` -/
def unescapeBraces (s : Bytes) : Bytes := replaceEsc rbr (replaceEsc lbr s)

/-- `strings.TrimPrefix(s, "\\")` -/
def trimBsl : Bytes → Bytes
  | x :: rest => if x = bsl then rest else x :: rest
  | [] => []

/-- Split `s` at the first byte `c` that is not immediately preceded by a backslash
(`prevBs`: the byte in front of `s` is a backslash).  This is what both inner `for` loops of
`Replace` compute with `strings.Index` + the `searchSpace[idx-1] != '\\'` test. -/
def splitUnesc (c : UInt8) : Bool → Bytes → Option (Bytes × Bytes)
  | _, [] => none
  | prevBs, x :: rest =>
    if x = c ∧ prevBs = false then some ([], rest)
    else match splitUnesc c (x == bsl) rest with
      | none => none
      | some (a, b) => some (x :: a, b)

/-- `strings.ContainsAny(s, "{}")` -/
def hasBrace (s : Bytes) : Bool := s.any fun x => x == lbr || x == rbr

/-! ### getSubstitution -/

/-- Everything `getSubstitution` reads. -/
structure Env where
  /-- `emptyValue` -/
  empty : Bytes := []
  /-- `customReplacements` (full keys, braces included); first hit wins, the harness passes the final map -/
  custom : List (Bytes × Bytes) := []
  /-- request header: canonical name → values -/
  reqHdr : List (Bytes × List Bytes) := []
  /-- response header of the recorder; `none` = no recorder -/
  respHdr : Option (List (Bytes × List Bytes)) := none
  /-- `Request.Cookies()` in order -/
  cookies : List (Bytes × Bytes) := []
  /-- `URL.Query()`: key → first value -/
  query : List (Bytes × Bytes) := []
  /-- process environment restricted to the names the case may mention -/
  osEnv : List (Bytes × Bytes) := []
  method : Bytes := []
  host : Bytes := []
  proto : Bytes := []
  remoteAddr : Bytes := []
  /-- `net.SplitHostPort(Host)`; `none` = error -/
  hostSplit : Option (Bytes × Bytes) := none
  /-- `net.SplitHostPort(RemoteAddr)` -/
  remoteSplit : Option (Bytes × Bytes) := none
  tls : Bool := false
  peerCert : Bool := false
  /-- original URL (context value `OriginalURLCtxKey`) -/
  origPath : Bytes := []
  origRawQuery : Bytes := []
  origFragment : Bytes := []
  origURI : Bytes := []
  /-- current (possibly rewritten) URL -/
  curPath : Bytes := []
  curURI : Bytes := []
  requestID : Bytes := []
  mitm : Option Bool := none
  /-- recorder status and size; `none` = no recorder -/
  recorder : Option (Nat × Nat) := none
  /-- clock, host name, request dump, TLS names and certificate fields -/
  ext : Bytes → Bytes := fun _ => []

/-- outcome of one lookup stage -/
inductive R where
  | panic
  | val (v : Bytes)
  | pass
deriving DecidableEq, Repr

def R.andThen : R → (Unit → R) → R
  | .pass, f => f ()
  | r, _ => r

/-- Go `s[lo:hi]` -/
def slice? (s : Bytes) (lo hi : Nat) : Option Bytes :=
  if lo ≤ hi ∧ hi ≤ s.length then some ((s.take hi).drop lo) else none

/-- `key[2 : len(key)-1]` -/
def keyName (key : Bytes) : Option Bytes :=
  if key.length = 0 then none else slice? key 2 (key.length - 1)

def lowerByte (b : UInt8) : UInt8 := if 65 ≤ b ∧ b ≤ 90 then b + 32 else b

/-- `strings.EqualFold` on ASCII -/
def eqFold (a b : Bytes) : Bool := a.map lowerByte == b.map lowerByte

def assoc (l : List (Bytes × Bytes)) (k : Bytes) : Option Bytes :=
  (l.find? fun p => p.1 == k).map (·.2)

/-- `strings.Join(values, ",")` -/
def joinComma : List Bytes → Bytes
  | [] => []
  | [v] => v
  | v :: vs => v ++ 44 :: joinComma vs

def headerLookup (h : List (Bytes × List Bytes)) (want : Bytes) : Option Bytes :=
  (h.find? fun p => eqFold p.1 want).map fun p => joinComma p.2

def indexOf (c : UInt8) : Bytes → Option Nat
  | [] => none
  | x :: rest => if x = c then some 0 else (indexOf c rest).map (· + 1)

def hexUp (n : Nat) : UInt8 := if n < 10 then UInt8.ofNat (48 + n) else UInt8.ofNat (55 + n)

def unreserved (b : UInt8) : Bool :=
  (48 ≤ b && b ≤ 57) || (65 ≤ b && b ≤ 90) || (97 ≤ b && b ≤ 122) || b == 45 || b == 95 || b == 46 || b == 126

/-- `url.QueryEscape` -/
def queryEscape (s : Bytes) : Bytes :=
  s.flatMap fun b =>
    if unreserved b then [b]
    else if b = 32 then [43]
    else [37, hexUp (b.toNat / 16), hexUp (b.toNat % 16)]

/-- bytes after the last '/' (`path.Split`'s file part); the whole string if there is none -/
def afterLastSlash : Bytes → Bytes → Bytes
  | acc, [] => acc
  | acc, x :: rest => if x = 47 then afterLastSlash rest rest else afterLastSlash acc rest

/-- `path.Split` -/
def pathSplit (p : Bytes) : Bytes × Bytes :=
  let file := afterLastSlash p p
  (p.take (p.length - file.length), file)

/-- `strings.Split(s, ".")` -/
def splitDots : Bytes → List Bytes
  | [] => [[]]
  | x :: rest =>
    match splitDots rest with
    | [] => [[]]     -- unreachable: splitDots never returns []
    | l :: ls => if x = 46 then [] :: l :: ls else (x :: l) :: ls

def digits? : Bytes → Nat → Option Nat
  | [], acc => some acc
  | x :: rest, acc => if 48 ≤ x ∧ x ≤ 57 then digits? rest (acc * 10 + (x.toNat - 48)) else none

/-- `strconv.Atoi` up to overflow (an overflowing N is an error in Go; here it is a huge N:
both lead to the empty value in `{labelN}` because N then exceeds the number of labels). -/
def atoi (s : Bytes) : Option Int :=
  match s with
  | [] => none
  | x :: rest =>
    if x = 45 then (if rest = [] then none else (digits? rest 0).map fun n => - (Int.ofNat n))
    else if x = 43 then (if rest = [] then none else (digits? rest 0).map Int.ofNat)
    else (digits? (x :: rest) 0).map Int.ofNat

/-- `strconv.Itoa` of a non-negative number -/
def natBytes (n : Nat) : Bytes := (Nat.toDigits 10 n).map fun c => UInt8.ofNat c.toNat

def isPrefix : Bytes → Bytes → Bool
  | [], _ => true
  | _ :: _, [] => false
  | a :: as, b :: bs => a == b && isPrefix as bs

/-- `oneLine` = `requestReplacer.Replace`: CR → `\r`, LF → `\n` (two characters each).  Applied to
the values that reach a placeholder decoded or through another middleware: custom values, query
arguments, `{path}`, `{rewrite_path}`, `{fragment}`, `{file}`, `{dir}`. -/
def escNL (s : Bytes) : Bytes :=
  s.flatMap fun b => if b = 13 then [92, 114] else if b = 10 then [92, 110] else [b]

/-- keys whose value is outside the model (clock, host name, dump of the request, latency) -/
def opaqueKeys : List String :=
  ["{hostname}", "{when}", "{when_iso_local}", "{when_iso}", "{when_unix}", "{when_unix_ms}",
   "{request}", "{request_body}"]

/-- keys that are the empty value without a recorder and a duration otherwise -/
def latencyKeys : List String := ["{latency}", "{latency_ms}"]

/-- keys that are the empty value on a plaintext request and a TLS name otherwise -/
def tlsKeys : List String := ["{tls_protocol}", "{tls_cipher}"]

/-- keys that are the empty value without a client certificate -/
def certKeys : List String :=
  ["{tls_client_escaped_cert}", "{tls_client_fingerprint}", "{tls_client_i_dn}", "{tls_client_raw_cert}",
   "{tls_client_s_dn}", "{tls_client_serial}", "{tls_client_v_end}", "{tls_client_v_remain}",
   "{tls_client_v_start}"]

/-- The `switch key` of getSubstitution, the cases whose value the model computes. -/
def table : List (String × (Env → Bytes)) := [
  ("{method}", fun σ => σ.method),
  ("{scheme}", fun σ => if σ.tls then asc "https" else asc "http"),
  ("{host}", fun σ => σ.host),
  ("{hostonly}", fun σ => match σ.hostSplit with | some (h, _) => h | none => σ.host),
  ("{path}", fun σ => escNL σ.origPath),
  ("{path_escaped}", fun σ => queryEscape σ.origPath),
  ("{request_id}", fun σ => σ.requestID),
  ("{rewrite_path}", fun σ => escNL σ.curPath),
  ("{rewrite_path_escaped}", fun σ => queryEscape σ.curPath),
  ("{query}", fun σ => σ.origRawQuery),
  ("{query_escaped}", fun σ => queryEscape σ.origRawQuery),
  ("{fragment}", fun σ => escNL σ.origFragment),
  ("{proto}", fun σ => σ.proto),
  ("{remote}", fun σ => match σ.remoteSplit with | some (h, _) => h | none => σ.remoteAddr),
  ("{port}", fun σ => match σ.remoteSplit with | some (_, p) => p | none => σ.empty),
  ("{uri}", fun σ => σ.origURI),
  ("{uri_escaped}", fun σ => queryEscape σ.origURI),
  ("{rewrite_uri}", fun σ => σ.curURI),
  ("{rewrite_uri_escaped}", fun σ => queryEscape σ.curURI),
  ("{file}", fun σ => escNL (pathSplit σ.curPath).2),
  ("{dir}", fun σ => escNL (pathSplit σ.curPath).1),
  ("{mitm}", fun σ => match σ.mitm with
      | some true => asc "likely" | some false => asc "unlikely" | none => asc "unknown"),
  ("{status}", fun σ => match σ.recorder with | some (st, _) => natBytes st | none => σ.empty),
  ("{size}", fun σ => match σ.recorder with | some (_, sz) => natBytes sz | none => σ.empty),
  ("{server_port}", fun σ => match σ.hostSplit with
      | some (_, p) => p | none => if σ.tls then asc "443" else asc "80")
]

/-- every `case` label of the switch, as the model sees it -/
def allTableKeys : List String :=
  table.map (·.1) ++ opaqueKeys ++ latencyKeys ++ tlsKeys ++ certKeys

def tableLookup (σ : Env) (key : Bytes) : Option Bytes :=
  match table.find? fun e => asc e.1 == key with
  | some e => some (e.2 σ)
  | none =>
    if opaqueKeys.any fun k => asc k == key then some (σ.ext key)
    else if latencyKeys.any fun k => asc k == key then
      some (if σ.recorder.isSome then σ.ext key else σ.empty)
    else if tlsKeys.any fun k => asc k == key then
      some (if σ.tls then σ.ext key else σ.empty)
    else if certKeys.any fun k => asc k == key then
      some (if σ.peerCert then σ.ext key else σ.empty)
    else none

/-- the `default:` branch: `{labelN}` -/
def labelLookup (σ : Env) (key : Bytes) : R :=
  if isPrefix (asc "{label") key then
    match (if key.length = 0 then none else slice? key 6 (key.length - 1)) with
    | none => .panic
    | some nStr =>
      match atoi nStr with
      | none => .val σ.empty
      | some n =>
        if n < 1 then .val σ.empty
        else
          let labels := splitDots σ.host
          if n.toNat > labels.length then .val σ.empty
          else match labels[n.toNat - 1]? with
            | some l => .val l
            | none => .panic
  else .pass

/-- a sigil stage: `if key[1] == c { name := key[2:len(key)-1]; … }` -/
def sigil (key : Bytes) (k1 c : UInt8) (f : Bytes → R) : R :=
  if k1 = c then
    match keyName key with
    | none => .panic
    | some name => f name
  else .pass

def ofOpt : Option Bytes → R
  | some v => .val v
  | none => .pass

def envLookup (σ : Env) (name : Bytes) : Bytes := (assoc σ.osEnv name).getD []

/-- `getSubstitution` -/
def substR (σ : Env) (key : Bytes) : R :=
  (ofOpt ((assoc σ.custom key).map escNL)).andThen fun _ =>
  match key[1]? with
  | none => .panic
  | some k1 =>
    (sigil key k1 62 fun want => ofOpt (headerLookup σ.reqHdr want)).andThen fun _ =>
    (match σ.respHdr with
      | none => R.pass
      | some h => sigil key k1 60 fun want => ofOpt (headerLookup h want)).andThen fun _ =>
    (sigil key k1 126 fun name =>
      if name = [] then .pass else ofOpt (assoc σ.cookies name)).andThen fun _ =>
    (sigil key k1 63 fun name => .val (escNL ((assoc σ.query name).getD []))).andThen fun _ =>
    (sigil key k1 36 fun name =>
      match indexOf 61 name with
      | some i =>
        let v := envLookup σ (name.take i)
        if v ≠ [] then .val v else .val (name.drop (i + 1))
      | none => .val (envLookup σ name)).andThen fun _ =>
    (ofOpt (tableLookup σ key)).andThen fun _ =>
    (labelLookup σ key).andThen fun _ =>
    .val σ.empty

/-- `none` = the Go code would panic (index out of range) -/
def subst (σ : Env) (key : Bytes) : Option Bytes :=
  match substR σ key with
  | .val v => some v
  | _ => none

/-! ### Replace -/

inductive Fail where
  | panic   -- an index expression of the Go code would be out of range
  | fuel    -- the loop ran longer than len(s)+1 iterations (shown impossible)
deriving DecidableEq, Repr

/-- The `Placeholders:` loop; `result` is the Go accumulator, `s` the rest of the format. -/
def replaceGo (σ : Env) : Nat → Bytes → Bytes → Except Fail Bytes
  | 0, _, _ => .error .fuel
  | fuel + 1, result, s =>
    match splitUnesc lbr false s with
    | none => .ok (result ++ unescapeBraces s)
    | some (pre, afterOpen) =>
      match splitUnesc rbr false afterOpen with
      | none => .ok (result ++ unescapeBraces s)
      | some (inner, rest) =>
        match subst σ (unescapeBraces (lbr :: (inner ++ [rbr]))) with
        | none => .error .panic
        | some v => replaceGo σ fuel (result ++ trimBsl (unescapeBraces pre) ++ v) rest

/-- `replacer.Replace` -/
def replace (σ : Env) (s : Bytes) : Except Fail Bytes :=
  if hasBrace s then replaceGo σ (s.length + 1) [] s else .ok s

end Casket.Replacer
