import Casket.Model.Dispenser
/-
Model of `executeDirectives` (casket.go), the loop shared by `-validate` and a real start
(`ValidateAndExecuteDirectives(…, justValidate)`): directives in the server type's order on the outside,
then server blocks, then the block's keys; a setup call for every (directive, block, key) whose block
has tokens for the directive; after each directive — only when `justValidate` is false — its parsing
callbacks.  Setup functions and callbacks are parameters (state `σ`, errors `ε`).
-/
namespace Casket.ExecSetup
open Casket.Lexer

structure Block where
  keys : List Bytes
  tokens : List (Bytes × List Token)
deriving Repr

/-- what a setup function is handed (`Controller`: Key, ServerBlockIndex, ServerBlockKeyIndex, the tokens) -/
structure Call where
  dir : Bytes
  block : Nat
  keyIdx : Nat
  key : Bytes
  tokens : List Token
deriving Repr, DecidableEq

def tokensFor (b : Block) (dir : Bytes) : Option (List Token) := (b.tokens.find? (·.1 == dir)).map (·.2)

/-- the inner two loops for one directive: `for i, sb := range sblocks { for j, key := range sb.Keys { … } }` -/
def callsForGo (dir : Bytes) : List Block → Nat → List Call
  | [], _ => []
  | b :: bs, i =>
    (match tokensFor b dir with
     | some ts => (b.keys.zipIdx).map fun kj => ⟨dir, i, kj.2, kj.1, ts⟩
     | none => []) ++ callsForGo dir bs (i + 1)

def callsFor (dir : Bytes) (blocks : List Block) : List Call := callsForGo dir blocks 0

def runCalls {σ ε : Type} (setup : Call → σ → Except ε σ) : List Call → σ → Except ε σ
  | [], s => .ok s
  | c :: cs, s => match setup c s with
    | .ok s' => runCalls setup cs s'
    | .error e => .error e

/-- `executeDirectives(inst, filename, directives, sblocks, justValidate)` -/
def execute {σ ε : Type} (setup : Call → σ → Except ε σ) (callback : Bytes → σ → Except ε σ)
    (justValidate : Bool) (blocks : List Block) : List Bytes → σ → Except ε σ
  | [], s => .ok s
  | dir :: dirs, s =>
    match runCalls setup (callsFor dir blocks) s with
    | .error e => .error e
    | .ok s1 =>
      if justValidate then execute setup callback justValidate blocks dirs s1
      else match callback dir s1 with
        | .error e => .error e
        | .ok s2 => execute setup callback justValidate blocks dirs s2

/-- all setup calls a load attempts when nothing fails, in order -/
def allCalls (blocks : List Block) (dirs : List Bytes) : List Call := dirs.flatMap fun d => callsFor d blocks


/-! ### a recording instance (what the probe of stream c11.exec does) -/

/-- what a load can be seen doing -/
inductive Ev where
  | setup (c : Call)
  | callback (dir : Bytes)
deriving Repr, DecidableEq

def Ev.isSetup : Ev → Bool
  | .setup _ => true
  | .callback _ => false

/-- a setup function that records its call and fails when `fails` says so; the error carries the trace -/
def recSetup (fails : Call → Bool) (c : Call) (tr : List Ev) : Except (List Ev) (List Ev) :=
  if fails c then .error (tr ++ [.setup c]) else .ok (tr ++ [.setup c])

/-- parsing callbacks registered after the directives `cbs`; the one after `failDir` fails -/
def recCallback (cbs : List Bytes) (failDir : Option Bytes) (dir : Bytes) (tr : List Ev) : Except (List Ev) (List Ev) :=
  if cbs.contains dir then
    (if failDir == some dir then .error (tr ++ [.callback dir]) else .ok (tr ++ [.callback dir]))
  else .ok tr

/-- the trace of a load, whether it succeeded or failed -/
def traceOf (r : Except (List Ev) (List Ev)) : List Ev := match r with | .ok t => t | .error t => t

end Casket.ExecSetup
