import Casket.Model.VHost
/-
Model of the per-listener TLS bookkeeping of casket:

  caskettls/config.go     SetDefaultTLSParams, buildStandardTLSConfig, MakeTLSConfig,
                          assertConfigsCompatible, assertClientCertsCompatible
  caskettls/handshake.go  configGroup.getConfig (the GetConfigForClient callback)
  caskethttp/httpserver/server.go  the strict SNI == Host branch of serveHTTP

Strings are byte lists (`Nat`), protocol versions / cipher suites / curves are their
wire numbers, client-CA files are abstracted to small numbers (file `n` exists iff
`n < caFilesPresent`).  The handshake itself (crypto/tls) and certificate selection
(certmagic) are not modelled.

CORE LEAN ONLY: this file is linked into the model driver.
-/
namespace Casket.TLSGroup
open Casket.VHost (Bytes lower hostCands)

def tls10 : Nat := 0x0301
def tls11 : Nat := 0x0302
def tls12 : Nat := 0x0303
def tls13 : Nat := 0x0304
/-- `tls.TLS_FALLBACK_SCSV` -/
def scsv : Nat := 0x5600
/-- "acme-tls/1" -/
def acmeALPN : Bytes := [97, 99, 109, 101, 45, 116, 108, 115, 47, 49]

/-- `defaultCiphers` (AES-NI present) and `defaultCiphersNonAESNI`; regenerated and compared in Props/C06 -/
def defaultCiphers : List Nat := [0xc02c, 0xc030, 0xc02b, 0xc02f, 0xcca9, 0xcca8]
def defaultCiphersNonAESNI : List Nat := [0xcca9, 0xcca8, 0xc02c, 0xc030, 0xc02b, 0xc02f]
/-- `defaultCurves`: X25519, P256 -/
def defaultCurves : List Nat := [29, 23]

def preferredDefaultCiphers (aesni : Bool) : List Nat :=
  if aesni then defaultCiphers else defaultCiphersNonAESNI

/-- the fields of `caskettls.Config` that the modelled functions read or write -/
structure Cfg where
  hostname : Bytes
  enabled : Bool
  minV : Nat
  maxV : Nat
  ciphers : List Nat
  curves : List Nat
  preferServer : Bool
  clientAuth : Nat            -- tls.ClientAuthType, 0 = NoClientCert
  clientCerts : List Nat      -- CA file ids
  alpn : List Bytes
  disableSNIMatching : Bool
deriving Repr, DecidableEq

/-- `SetDefaultTLSParams` -/
def setDefaults (aesni : Bool) (c : Cfg) : Cfg :=
  { c with
    ciphers := scsv :: (if c.ciphers.isEmpty then preferredDefaultCiphers aesni else c.ciphers)
    curves := if c.curves.isEmpty then defaultCurves else c.curves
    minV := if c.minV = 0 then tls12 else c.minV
    maxV := if c.maxV = 0 then tls13 else c.maxV
    preferServer := true }

/-- append-if-new, keeping first occurrences (`ciphersAdded` / `curvesAdded` maps) -/
def dedup : List Nat → List Nat → List Nat
  | [], acc => acc.reverse
  | x :: xs, acc => if acc.contains x then dedup xs acc else dedup xs (x :: acc)

/-- the `*tls.Config` stored in `cfg.tlsConfig` -/
structure Built where
  ciphers : List Nat
  curves : List Nat
  preferServer : Bool
  minV : Nat
  maxV : Nat
  clientAuth : Nat
  nextProtos : List Bytes
deriving Repr, DecidableEq

def caFilesPresent : Nat := 4

inductive Err where
  | mix (i : Nat)            -- "cannot multiplex … on same listener"
  | build (i : Nat)          -- buildStandardTLSConfig failed (client CA file)
  | incompatible (i : Nat)   -- "incompatible TLS configurations for the same SNI name"
deriving Repr, DecidableEq

/-- the client-CA loop of `buildStandardTLSConfig`: every distinct file must be readable -/
def caFilesOk (c : Cfg) : Bool :=
  c.clientAuth = 0 || c.clientCerts.all (· < caFilesPresent)

/-- `buildStandardTLSConfig` for an enabled config: the new `c.ALPN` and the tls.Config -/
def build (aesni : Bool) (c : Cfg) : Option (Cfg × Built) :=
  if !caFilesOk c then none
  else
    let alpn := if c.alpn.contains acmeALPN then c.alpn else c.alpn ++ [acmeALPN]
    let cs0 := dedup c.ciphers []
    let cs1 := if cs0.isEmpty then preferredDefaultCiphers aesni else cs0
    let cs2 := if cs1.head? = some scsv then cs1 else scsv :: cs1
    some ({ c with alpn := alpn },
      { ciphers := cs2, curves := dedup c.curves [], preferServer := c.preferServer,
        minV := c.minV, maxV := c.maxV, clientAuth := c.clientAuth, nextProtos := alpn })

/-- `assertClientCertsCompatible` (true = compatible) -/
def clientCertsCompatible (c1 c2 : Cfg) (b1 b2 : Built) : Bool :=
  b1.clientAuth == b2.clientAuth &&
  (b1.clientAuth == 0 || b2.clientAuth == 0 || c1.clientCerts == c2.clientCerts)

/-- `assertConfigsCompatible` (true = compatible); `none` = tlsConfig is nil -/
def compatible (c1 c2 : Cfg) (b1 b2 : Option Built) : Bool :=
  match b1, b2 with
  | none, none => true
  | some _, none => false
  | none, some _ => false
  | some x, some y =>
    x.ciphers == y.ciphers && x.curves == y.curves && x.nextProtos == y.nextProtos &&
    x.preferServer == y.preferServer && x.minV == y.minV && x.maxV == y.maxV &&
    clientCertsCompatible c1 c2 x y

/-- an entry of `configGroup`: which config (index in the listener's list), the config as
`buildStandardTLSConfig` left it, and its tls.Config -/
structure Entry where
  idx : Nat
  cfg : Cfg
  built : Option Built
deriving Repr, DecidableEq

abbrev Group := List (Bytes × Entry)

def groupLookup (g : Group) (k : Bytes) : Option Entry :=
  match g with
  | [] => none
  | (k', e) :: rest => if k' = k then some e else groupLookup rest k

def groupSet (g : Group) (k : Bytes) (e : Entry) : Group :=
  match g with
  | [] => [(k, e)]
  | (k', e') :: rest => if k' = k then (k, e) :: rest else (k', e') :: groupSet rest k e

def host0000 : Bytes := [48, 46, 48, 46, 48, 46, 48]
def hostV6Any : Bytes := [58, 58]

/-- the map key of a config: `0.0.0.0` and `::` are stored under the empty name -/
def mapKey (h : Bytes) : Bytes := if h = host0000 ∨ h = hostV6Any then [] else h

/-- the loop of `MakeTLSConfig` from index `i` on (`prev` = `configs[i-1].Enabled`) -/
def makeLoop (aesni : Bool) : List Cfg → Nat → Option Bool → Group → Except Err Group
  | [], _, _, g => .ok g
  | c :: rest, i, prev, g =>
    if prev.isSome ∧ prev ≠ some c.enabled then .error (.mix i)
    else
      let r : Option (Cfg × Option Built) :=
        if c.enabled then (build aesni c).map (fun p => (p.1, some p.2)) else some (c, none)
      match r with
      | none => .error (.build i)
      | some (c', b) =>
        let k := mapKey c'.hostname
        match groupLookup g k with
        | some other =>
          if compatible c' other.cfg b other.built then
            makeLoop aesni rest (i + 1) (some c.enabled) (groupSet g k ⟨i, c', b⟩)
          else .error (.incompatible i)
        | none => makeLoop aesni rest (i + 1) (some c.enabled) (groupSet g k ⟨i, c', b⟩)

/-- `MakeTLSConfig`: error, or `none` (plaintext listener: returned tls.Config is nil),
or the group behind `GetConfigForClient` -/
def makeTLS (aesni : Bool) (cfgs : List Cfg) : Except Err (Option Group) :=
  match cfgs with
  | [] => .ok none
  | c0 :: _ =>
    match makeLoop aesni cfgs 0 none [] with
    | .error e => .error e
    | .ok g => if c0.enabled then .ok (some g) else .ok none

/-- `normalizedName`: TrimSpace (ASCII blanks) + lower -/
def isSpace (b : Nat) : Bool := b = 32 || (9 ≤ b && b ≤ 13)
def trimSpace (s : Bytes) : Bytes :=
  ((s.dropWhile isSpace).reverse.dropWhile isSpace).reverse
def normalizedName (s : Bytes) : Bytes := lower (trimSpace s)

/-- what `getConfig` answers -/
inductive Choice where
  | entry (e : Entry)     -- found by name
  | any                   -- "failover with a random config" (map iteration order)
  | nothing               -- empty group: nil
deriving Repr, DecidableEq

/-- `configGroup.getConfig` for a hello with server name `sni` (`defaultSNI` =
certmagic.Default.DefaultServerName; `localAddr` = `hello.Conn.LocalAddr().String()` when there
is a connection; its host part is preferred when the name is empty) -/
def getConfig (g : Group) (sni defaultSNI : Bytes) (localAddr : Option Bytes) : Choice :=
  let name0 := normalizedName sni
  let name := if name0 = [] then normalizedName defaultSNI else name0
  let byIP : Option Entry :=
    if name = [] then localAddr.bind (fun a => groupLookup g (Casket.VHost.stripPort a)) else none
  match byIP with
  | some e => .entry e
  | none =>
    match (hostCands name ++ [[]]).findSome? (groupLookup g) with
    | some e => .entry e
    | none =>
      match g with
      | [] => .nothing
      | [(_, e)] => .entry e
      | _ => .any

/-- what a client of the listener can observe of the choice -/
inductive Obs where
  | error (cls : Nat)         -- MakeTLSConfig failed: 0 mix, 1 build, 2 incompatible
  | plain                     -- nil tls.Config: plaintext listener
  | nothing                   -- GetConfigForClient returned nil
  | any                       -- some config of the group, by map iteration order
  | cfg (idx : Nat) (b : Built)
deriving Repr, DecidableEq

def Err.cls : Err → Nat
  | .mix _ => 0
  | .build _ => 1
  | .incompatible _ => 2

/-- the configs as the `tls` directive / auto-HTTPS leave them: defaults filled in for
every TLS-enabled site -/
def withDefaults (aesni : Bool) (raw : List Cfg) : List Cfg :=
  raw.map (fun c => if c.enabled then setDefaults aesni c else c)

/-- setup → MakeTLSConfig → GetConfigForClient(hello) -/
def pipeline (aesni : Bool) (raw : List Cfg) (sni : Bytes) (localAddr : Option Bytes) : Obs :=
  match makeTLS aesni (withDefaults aesni raw) with
  | .error e => .error e.cls
  | .ok none => .plain
  | .ok (some g) =>
    match getConfig g sni [] localAddr with
    | .nothing => .nothing
    | .any => .any
    | .entry e =>
      match e.built with
      | some b => .cfg e.idx b
      | none => .nothing

/-! ### what a handshake shows (crypto/tls and certmagic: modelled for the explored profiles only,
nothing below is used by a theorem about crypto/tls itself) -/

/-- outcome of a handshake as a test client sees it -/
inductive HS where
  | fail
  | ok (version : Nat) (san : Bytes) (certRequested : Bool)
deriving Repr, DecidableEq

/-- certmagic's cache lookup by server name: exact, then wildcard labels (no catch-all) -/
def certFor (raw : List Cfg) (name : Bytes) : Option Bytes :=
  (hostCands name).find? (fun k => raw.any (fun c => c.hostname == k))

/-- the ECDSA CBC suites usable below TLS 1.2 (the test certificates are ECDSA P-256) -/
def cbcECDSA : List Nat := [0xc009, 0xc00a]
/-- the ECDSA suites usable at TLS 1.2 -/
def ecdsa12 : List Nat := [0xc02c, 0xc02b, 0xcca9, 0xc00a, 0xc009]

/-- can version `v` be negotiated with an ECDSA certificate and the configured suites
(TLS 1.3 suites are not configurable) -/
def usable (v : Nat) (ciphers : List Nat) : Bool :=
  if v ≥ tls13 then true
  else if v = tls12 then ciphers.any (fun x => ecdsa12.contains x)
  else ciphers.any (fun x => cbcECDSA.contains x)

/-- a client offering versions `cmin..cmax` with server name `sni` against the listener of `raw`:
config by `pipeline`, certificate by `certFor`, version = the highest common one -/
def handshake (aesni : Bool) (raw : List Cfg) (sni : Bytes) (cmin cmax : Nat) (localAddr : Option Bytes) : HS :=
  match pipeline aesni raw sni localAddr with
  | .cfg _ b =>
    let name := normalizedName sni
    if name = [] then .fail
    else
      match certFor raw name with
      | none => .fail
      | some san =>
        let v := min cmax b.maxV
        if v < max cmin b.minV then .fail
        else if !usable v b.ciphers then .fail
        else .ok v san (b.clientAuth != 0)
  | _ => .fail

/-- the strict host-matching branch of `serveHTTP`: `true` = answered 403 -/
def strictSNIForbidden (c : Cfg) (tlsConn : Bool) (sni hostname : Bytes) : Bool :=
  !c.disableSNIMatching && tlsConn && c.clientAuth != 0 && lower sni != lower hostname

/-- what a request over a (TLS) connection gets: a site's chain, 403, or site-not-found -/
inductive Served where
  | site (i : Nat)
  | forbidden
  | notFound (status : Nat)
deriving Repr, DecidableEq

/-- `serveHTTP`: vhost lookup (the C01 model), then the strict SNI check with the TLS settings
of the site found (`cfgs[i]` = `sites[i].TLS`; `sni = none`: `r.TLS == nil`) -/
def serveTLS (sites : List Casket.VHost.Site) (cfgs : List Cfg) (r : Casket.VHost.Req) (sni : Option Bytes) : Served :=
  match Casket.VHost.route sites r with
  | .notFound st => .notFound st
  | .site i _ =>
    match cfgs[i]? with
    | none => .site i
    | some c =>
      if strictSNIForbidden c sni.isSome (sni.getD []) (Casket.VHost.stripPort r.host) then .forbidden else .site i

/-! ### one connection: handshake choice and request routing under the same name -/

/-- the listener of `sites` with TLS settings `cfgs` (`cfgs[i]` belongs to `sites[i]`; its
`hostname` is the site's `Addr.Host`, as `InspectServerBlocks` sets `TLS.Hostname`), a client that
uses `name` both as SNI and as Host: which config governs the handshake, and what the request gets -/
def connect (aesni : Bool) (sites : List Casket.VHost.Site) (cfgs : List Cfg) (name path : Bytes) : Obs × Served :=
  match pipeline aesni cfgs name none with
  | .error n => (.error n, .notFound 0)                                   -- NewServer fails: no listener
  | .plain => (.plain, serveTLS sites cfgs ⟨name, path, 1⟩ none)          -- plaintext listener
  | sel => (sel, serveTLS sites cfgs ⟨name, path, 1⟩ (some name))

/-- the same listener, the two names of a connection taken apart: the ClientHello carries `sni`
(it alone decides which config governs the handshake), the request sent over that connection
carries Host `host` (it alone decides the site; the strict check then compares the two) -/
def connectSH (aesni : Bool) (sites : List Casket.VHost.Site) (cfgs : List Cfg) (sni host path : Bytes) : Obs × Served :=
  match pipeline aesni cfgs sni none with
  | .error n => (.error n, .notFound 0)                                   -- NewServer fails: no listener
  | .plain => (.plain, serveTLS sites cfgs ⟨host, path, 1⟩ none)          -- plaintext listener
  | sel => (sel, serveTLS sites cfgs ⟨host, path, 1⟩ (some sni))

end Casket.TLSGroup
