import Casket.Model.FileServe
/-
Model of a site's middleware chain as far as C03 needs it, in the fixed directive order of
caskethttp/httpserver/plugin.go:

   tryfiles → rewrite → ext → basicauth → internal → proxy → browse → static files

  tryfiles/tryfiles.go, rewrite/to.go, rewrite/rewrite.go (simple rules with a literal pattern,
  base-path rules without regexp), extensions/ext.go, basicauth/basicauth.go,
  internalsrv/internal.go (+ setup.go: internal paths join the hide list), proxy.match.

It follows the code on the verified branch, including the repair made there: `rewrite.To`
always yields a rooted path.

Not modelled: regular expressions beyond a literal (anchored or not), `if` conditions,
placeholders other than `{path}`, X-Accel-Redirect (sent only by a backend the operator
controls), templates/markdown/fastcgi/websocket, htpasswd files, realm strings.

CORE LEAN ONLY.
-/
namespace Casket.Chain
open Casket.Path Casket.FS Casket.FileServe

/-- a piece of a rewrite target: literal text or the placeholder `{path}` (path of the original URL) -/
inductive Piece
  | lit (b : Bytes)
  | origPath
deriving Repr, DecidableEq

abbrev Template := List Piece

def instantiate (orig : Bytes) (t : Template) : Bytes :=
  t.flatMap fun
    | .lit b => b
    | .origPath => orig

inductive RewriteRule
  | exact (pat : Bytes) (to : List Template)       -- `rewrite ^/lit$ to…`
  | substr (pat : Bytes) (to : List Template)      -- `rewrite /lit to…` (unanchored pattern)
  | base (base : Bytes) (to : List Template)       -- `rewrite /base { to … }`
deriving Repr

structure TryFiles where
  to : List Template
  except : List Bytes
  without : Bytes
deriving Repr

structure AuthRule where
  user : Bytes
  pass : Bytes
  resources : List Bytes
  excludes : List Bytes
deriving Repr

structure ChainSite where
  site : Site                      -- root, hide list (already including the internal paths), index, browse…
  tryfiles : Option TryFiles
  rewrites : List RewriteRule
  exts : List Bytes
  auth : List AuthRule
  internal : List Bytes
  proxies : List (Bytes × Nat)     -- `proxy <from> <backend>`; the backend is named by a number
deriving Repr

structure CReq where
  method : Bytes
  target : Bytes
  acceptEncoding : Bytes
  creds : Option (Bytes × Bytes)   -- user, password of a well-formed Authorization: Basic header
deriving Repr

inductive CResp
  | served (r : Resp)              -- browse / static files answered
  | unauthorized                   -- 401 from basicauth
  | backend (id : Nat)             -- the request was handed to this proxy backend
deriving Repr, DecidableEq

/-! ### rewrite.To -/

/-- `validFile` -/
def validFile (fs : FS) (root : List Bytes) (t : Bytes) : Bool :=
  match dirOpen fs root t with
  | .ok e => if hasSuffix t [slash] then e.isDir else !e.isDir
  | .error _ => false

/-- one candidate of `To`: the cleaned, rooted path and the query it carries (if any) -/
def candidate (orig without : Bytes) (t : Template) : Bytes × Option Bytes :=
  let raw := instantiate orig t
  let c := cut 63 raw
  let p := clean (slash :: trimPrefix c.1 without)
  let p := if hasSuffix c.1 [slash] ∧ !hasSuffix p [slash] then p ++ [slash] else p
  (p, if c.2.2 then some c.2.1 else none)

/-- the loop of `To`: first candidate naming an existing file (directory if it ends in `/`),
else the last one; the query is the last one seen up to there -/
def pickTarget (fs : FS) (root : List Bytes) (orig without : Bytes) : List Template → Bytes → Bytes → Bytes × Bytes
  | [], t, q => (t, q)
  | tpl :: rest, _, q =>
    let c := candidate orig without tpl
    let q' := match c.2 with | some x => x | none => q
    if validFile fs root c.1 then (c.1, q') else pickTarget fs root orig without rest c.1 q'

/-- `rewrite.To`: the URL after the rewrite (unchanged when the target does not parse) -/
def rewriteTo (fs : FS) (root : List Bytes) (orig without : Bytes) (to : List Template) (u : Url) : Url :=
  let tq := pickTarget fs root orig without to [] []
  let t := tq.1
  if hasCTL t then u
  else
    let c := cut 35 t
    if c.2.2 ∧ (unescape false c.2.1).isNone then u
    else match unescape false c.1 with
      | none => u
      | some p => { u with path := p, rawQuery := if tq.2 ≠ [] then tq.2 else u.rawQuery }

/-! ### the rewriting stages -/

def tryfilesStep (fs : FS) (cs : ChainSite) (orig : Bytes) (u : Url) : Url :=
  match cs.tryfiles with
  | none => u
  | some tf =>
    if tf.except.any (pathMatches u.path) then u
    else rewriteTo fs cs.site.root orig tf.without tf.to u

def isInfix (pat s : Bytes) : Bool :=
  match s with
  | [] => pat = []
  | _ :: rest => hasPrefix s pat || isInfix pat rest

def RewriteRule.matches (r : RewriteRule) (p : Bytes) : Bool :=
  match r with
  | .exact pat _ => p = pat
  | .substr pat _ => isInfix pat p
  | .base b _ => pathMatches p b

def RewriteRule.baseLen : RewriteRule → Nat
  | .exact _ _ => 1
  | .substr _ _ => 1
  | .base b _ => b.length

def RewriteRule.to : RewriteRule → List Template
  | .exact _ t => t
  | .substr _ t => t
  | .base _ t => t

/-- `ConfigSelector.Select`: the matching rule with the longest base path (first among equals) -/
def selectRule (p : Bytes) : List RewriteRule → Option RewriteRule → Option RewriteRule
  | [], best => best
  | r :: rest, best =>
    if r.matches p then
      match best with
      | none => selectRule p rest (some r)
      | some b => if r.baseLen > b.baseLen then selectRule p rest (some r) else selectRule p rest best
    else selectRule p rest best

def rewriteStep (fs : FS) (cs : ChainSite) (orig : Bytes) (u : Url) : Url :=
  match selectRule u.path cs.rewrites none with
  | none => u
  | some r => rewriteTo fs cs.site.root orig [] r.to u

/-- `os.Stat(SafePath(root, p))` succeeds; `extra` is appended to the joined path -/
def safeStat (fs : FS) (root : List Bytes) (p extra : Bytes) : Bool :=
  let els := jailElems (p.filter (· ≠ 0))
  let els := if extra = [] then els else
    match els.getLast? with
    | some l => els.dropLast ++ [l ++ extra]
    | none => els   -- the path names the root itself, which exists: the extension search is not reached
  match osOpen fs (root ++ els) with
  | .ok _ => true
  | .error _ => false

def extStep (fs : FS) (cs : ChainSite) (u : Url) : Url :=
  if cs.exts ≠ [] ∧ u.path ≠ [] ∧ u.path.getLast? ≠ some slash then
    if safeStat fs cs.site.root u.path [] then u
    else match cs.exts.find? (fun e => safeStat fs cs.site.root u.path e) with
      | some e => { u with path := u.path ++ e }
      | none => u
  else u

/-! ### basicauth, internal, proxy -/

def ruleCovers (r : AuthRule) (p : Bytes) : Bool :=
  r.resources.any (pathMatches p) && !r.excludes.any (pathMatches p)

def ruleAccepts (r : AuthRule) (creds : Option (Bytes × Bytes)) : Bool :=
  match creds with
  | some (u, pw) => u = r.user && pw = r.pass
  | none => false

/-- `BasicAuth.ServeHTTP` answers 401: some rule covers the path and no covering rule accepts
the credentials -/
def needsAuth (rules : List AuthRule) (p : Bytes) (creds : Option (Bytes × Bytes)) : Bool :=
  rules.any (fun r => ruleCovers r p) && !rules.any (fun r => ruleCovers r p && ruleAccepts r creds)

def isInternal (paths : List Bytes) (p : Bytes) : Bool := paths.any (pathMatches p)

/-- `Proxy.match`: longest `from` that matches (first among equals) -/
def bestLen : Option (Bytes × Nat) → Nat
  | some b => b.1.length
  | none => 0

def proxyMatch (p : Bytes) : List (Bytes × Nat) → Option (Bytes × Nat) → Option (Bytes × Nat)
  | [], best => best
  | x :: rest, best =>
    if pathMatches p x.1 ∧ x.1.length > bestLen best then proxyMatch p rest (some x)
    else proxyMatch p rest best

/-- the URL basicauth, internal and the content handlers see -/
def authUrl (fs : FS) (cs : ChainSite) (orig : Bytes) (u : Url) : Url :=
  extStep fs cs (rewriteStep fs cs orig (tryfilesStep fs cs orig u))

/-- the chain below the rewriting stages -/
def guarded (fs : FS) (cs : ChainSite) (r : CReq) (u : Url) : CResp :=
  if r.method ≠ mOPTIONS ∧ needsAuth cs.auth u.path r.creds then .unauthorized
  else if isInternal cs.internal u.path then .served (.status 404)
  else match proxyMatch u.path cs.proxies none with
    | some x => .backend x.2
    | none => .served (browseServe fs cs.site { method := r.method, url := u, acceptEncoding := r.acceptEncoding })

/-- One request through the site. -/
def chainServe (fs : FS) (cs : ChainSite) (r : CReq) : CResp :=
  match parseRequestURI r.target with
  | none => .served (.status 400)
  | some u0 =>
    if cs.site.pathPrefix ≠ [slash] ∧ !hasPrefix u0.path cs.site.pathPrefix then .served (.status 404)
    else
      let u := if cs.site.pathPrefix = [slash] then u0 else trimPathPrefix u0 cs.site.pathPrefix
      guarded fs cs r (authUrl fs cs u0.path u)

/-- the URL basicauth, internal and the content handlers see for this request (none: rejected
before the chain) -/
def finalUrl (fs : FS) (cs : ChainSite) (r : CReq) : Option Url :=
  match parseRequestURI r.target with
  | none => none
  | some u0 =>
    if cs.site.pathPrefix ≠ [slash] ∧ !hasPrefix u0.path cs.site.pathPrefix then none
    else
      let u := if cs.site.pathPrefix = [slash] then u0 else trimPathPrefix u0 cs.site.pathPrefix
      some (authUrl fs cs u0.path u)

end Casket.Chain
