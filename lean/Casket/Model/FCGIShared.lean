import Casket.Model.FCGI
/-
Several FastCGI responses in flight in one process (fcgiclient.go: `streamReader.Read`,
`record.read`), with the ownership of the record buffers made explicit.

`Model/FCGI.lean` describes one `streamReader` by value: `SR.buf` IS the unread remainder of the
last record.  In the Go code `w.buf` is a slice: it points into `rec.rbuf`, the buffer
`record.read` read the record into, and it goes on pointing there between two `Read` calls while
other requests are being served by the same process.  Here the buffers live on a heap shared by
all readers, `w.buf` is a reference (buffer, offset, length), and where `record.read` gets its
buffer from is a parameter (`Alloc`):

  * the code as it is — `rec := &record{}` for every record, hence `make([]byte, n)` for every
    record — is `allocFresh`;
  * any scheme that uses a buffer again (a free list, a `sync.Pool`) is some other `Alloc`.  It is
    `Safe` if it never hands out a buffer that a reader still has unread bytes in: a record buffer
    belongs to one reader until its content is consumed.

Proofs/FCGIShared.lean shows that under every safe allocator the shared system behaves, reader by
reader, like the isolated by-value readers, for every interleaving of the `Read` calls.

CORE LEAN ONLY.
-/
namespace Casket.FCGI
open Casket.Fault

/-- `w.buf` as a slice: `heap[id][off : off+len]` -/
structure BufRef where
  id  : Nat := 0
  off : Nat := 0
  len : Nat := 0
deriving Repr, DecidableEq

/-- one `streamReader` with its client: bytes not yet read from `rwc`, `w.buf`, `c.stderr` -/
structure HR where
  inp    : Bytes
  ref    : BufRef := {}
  stderr : Bytes := []
deriving Repr, DecidableEq

/-- the record buffers of the process and the readers in flight (`readers i = none`: no reader `i`) -/
structure Shared where
  heap    : List Bytes := []
  readers : Nat → Option HR := fun _ => none

/-- where `record.read` takes the buffer for the next record from, given the state of the process:
`none` = a new one (`make`), `some k` = buffer `k` is used again -/
abbrev Alloc := Shared → Option Nat

/-- fcgiclient.go: `rec := &record{}` inside the loop, so `len(rec.rbuf) < n` holds for every record
with content or padding and `record.read` makes a new buffer each time -/
def allocFresh : Alloc := fun _ => none

/-- an allocator is safe if it never hands out a buffer in which some reader still has unread
bytes: a record buffer belongs to one reader until its content is consumed -/
def Alloc.Safe (a : Alloc) : Prop :=
  ∀ sh k, a sh = some k → ∀ j r, sh.readers j = some r → r.ref.len ≠ 0 → r.ref.id ≠ k

/-- the bytes a slice denotes -/
def deref (heap : List Bytes) (r : BufRef) : Bytes :=
  (((heap[r.id]?).getD []).drop r.off).take r.len

/-- `io.ReadFull(r, rec.rbuf[:n])` into the chosen buffer: the record's bytes replace the front of
the buffer, what the buffer held behind them stays.  Returns the new heap and the buffer's id.
(Only the content is kept; padding bytes land behind it and are never part of a slice handed on.) -/
def storeRecord (heap : List Bytes) (dst : Option Nat) (content : Bytes) : List Bytes × Nat :=
  match dst with
  | some k =>
    if k < heap.length then (heap.set k (content ++ ((heap[k]?).getD []).drop content.length), k)
    else (heap ++ [content], heap.length)
  | none => (heap ++ [content], heap.length)

def setReader (f : Nat → Option HR) (i : Nat) (r : HR) : Nat → Option HR :=
  fun j => if j = i then some r else f j

/-- the `for { rec.read … }` loop of reader `i` (entered when its `w.buf` is empty); `r` is the
reader's state, `sh.readers` keeps the state it had when the call began -/
def Shared.fill (a : Alloc) : Nat → Shared → HR → List Rec → R (Shared × HR × Option ReadErr × List Rec)
  | 0, _, _, _ => .error .fuel
  | f + 1, sh, r, acc =>
    match readRecord r.inp with
    | .error e => .error e
    | .ok (.error e, rest) => .ok (sh, { r with inp := rest }, some e, acc)
    | .ok (.ok rec, rest) =>
      let st := storeRecord sh.heap (a sh) rec.content
      let sh' : Shared := { sh with heap := st.1 }
      if rec.typ = typeStderr then
        -- `w.c.stderr.Write(buf)`: copied out of the buffer at once
        Shared.fill a f sh' { r with inp := rest, stderr := r.stderr ++ deref st.1 { id := st.2, off := 0, len := rec.content.length } }
          (acc ++ [rec])
      else
        .ok (sh', { r with inp := rest, ref := { id := st.2, off := 0, len := rec.content.length } }, none, acc ++ [rec])

/-- `n = min(len(p), len(w.buf)); copy(p, w.buf[:n]); w.buf = w.buf[n:]` -/
def HR.deliver (heap : List Bytes) (r : HR) (plen : Nat) (consumed : List Rec) : HR × ReadOut :=
  let n := min plen r.ref.len
  ({ r with ref := { r.ref with off := r.ref.off + n, len := r.ref.len - n } },
   { data := deref heap { r.ref with len := n }, err := none, consumed := consumed })

/-- one `Read(p)`, `len(p) = plen`, of reader `i` -/
def Shared.read (a : Alloc) (sh : Shared) (i plen : Nat) : R (Shared × ReadOut) :=
  match sh.readers i with
  | none => .ok (sh, { data := [], err := none, consumed := [] })
  | some r =>
    if plen = 0 then .ok (sh, { data := [], err := none, consumed := [] })
    else if r.ref.len ≠ 0 then
      let d := r.deliver sh.heap plen []
      .ok ({ sh with readers := setReader sh.readers i d.1 }, d.2)
    else
      match Shared.fill a (r.inp.length + 1) sh r [] with
      | .error e => .error e
      | .ok (sh', r', some e, c) =>
        .ok ({ sh' with readers := setReader sh'.readers i r' }, { data := [], err := some e, consumed := c })
      | .ok (sh', r', none, c) =>
        let d := r'.deliver sh'.heap plen c
        .ok ({ sh' with readers := setReader sh'.readers i d.1 }, d.2)

/-! ### schedules

What the caller of reader `i` has so far: the bytes delivered and the error that ended the stream.
A reader that has reported an error is not read again (`io.ReadAll`, `io.Copy`, `bufio.Reader`). -/

structure Got where
  data : Bytes := []
  fin  : Option ReadErr := none
deriving Repr, DecidableEq

def setGot (f : Nat → Got) (i : Nat) (g : Got) : Nat → Got := fun j => if j = i then g else f j

def Got.add (g : Got) (o : ReadOut) : Got := { data := g.data ++ o.data, fin := o.err }

/-- a schedule: `(i, plen)` = reader `i` is called with a buffer of `plen` bytes -/
abbrev Sched := List (Nat × Nat)

def Shared.run (a : Alloc) : Shared → (Nat → Got) → Sched → R (Shared × (Nat → Got))
  | sh, g, [] => .ok (sh, g)
  | sh, g, (i, plen) :: rest =>
    if (g i).fin.isSome then Shared.run a sh g rest
    else
      match sh.read a i plen with
      | .error e => .error e
      | .ok (sh', o) => Shared.run a sh' (setGot g i ((g i).add o)) rest

/-- the same schedule over readers that share nothing (`Model/FCGI.lean`, by value) -/
def Indep.run : (Nat → Option SR) → (Nat → Got) → Sched → R ((Nat → Option SR) × (Nat → Got))
  | srs, g, [] => .ok (srs, g)
  | srs, g, (i, plen) :: rest =>
    if (g i).fin.isSome then Indep.run srs g rest
    else
      match srs i with
      | none => Indep.run srs (setGot g i ((g i).add { data := [], err := none, consumed := [] })) rest
      | some s =>
        match s.read plen with
        | .error e => .error e
        | .ok (s', o) =>
          Indep.run (fun j => if j = i then some s' else srs j) (setGot g i ((g i).add o)) rest

/-- one reader alone, called with the buffer sizes `plens` in turn -/
def SR.readUntil : SR → Got → List Nat → R (SR × Got)
  | s, g, [] => .ok (s, g)
  | s, g, plen :: rest =>
    if g.fin.isSome then SR.readUntil s g rest
    else
      match s.read plen with
      | .error e => .error e
      | .ok (s', o) => SR.readUntil s' (g.add o) rest

/-- the calls of reader `i` in a schedule -/
def plensOf (i : Nat) (sched : Sched) : List Nat := (sched.filter (·.1 == i)).map (·.2)

/-- readers over the responders' bytes `raws`, nothing read yet -/
def Shared.init (raws : List Bytes) : Shared :=
  { readers := fun i => (raws[i]?).map fun raw => { inp := raw } }

def Indep.init (raws : List Bytes) : Nat → Option SR := fun i => (raws[i]?).map fun raw => { inp := raw }

/-- reading every reader to its end after the schedule: `2·len+2` further calls with `plen` bytes
each are allowed (a finished reader ignores the rest) -/
def drainFrom (plen : Nat) : Nat → List Bytes → Sched
  | _, [] => []
  | i, raw :: rest => List.replicate (2 * raw.length + 2) (i, plen) ++ drainFrom plen (i + 1) rest

def drainSched (raws : List Bytes) (plen : Nat) : Sched := drainFrom plen 0 raws

/-- what every caller ends up with: stdout bytes, the end of the stream, the error log -/
structure Ending where
  out    : Bytes
  fin    : Option ReadErr
  stderr : Bytes
deriving Repr, DecidableEq

/-- c13.overlap, level r: the schedule, then every reader to its end with `drain`-byte buffers -/
def overlapRun (a : Alloc) (raws : List Bytes) (sched : Sched) (drain : Nat) : R (List Ending) :=
  match Shared.run a (Shared.init raws) (fun _ => {}) (sched ++ drainSched raws drain) with
  | .error e => .error e
  | .ok (sh, g) =>
    .ok ((List.range raws.length).map fun i =>
      { out := (g i).data, fin := (g i).fin, stderr := ((sh.readers i).map (·.stderr)).getD [] })

/-- a pool the way the seeded regression used it: the buffer goes back at the end of every `Read`
and comes out again at the next `record.read` of ANY reader — buffer 0, once it exists -/
def allocAlwaysFirst : Alloc := fun sh => if sh.heap.isEmpty then none else some 0

end Casket.FCGI
