/-
Model of casket's instance lifecycle (casket.go: Start, startWithListenerFds, startServers,
Instance.Restart, Instance.Stop, Stop; sigtrap.go: executeShutdownCallbacks, allShutdownCallbacks;
controller.go: the six callback lists).

A history is a list of operations; the k-th operation (1-based) creates — if it loads a
configuration — the instance of generation k.  The output of every operation is a segment:
its result and the ordered list of lifecycle events that the callbacks and the servers of
the instances observe.  The process state is what the code keeps between calls: the
`instances` list, the `shutdownCallbacksOnce` guard and one wait-group counter per lineage
(`Start` creates a wait group, `Restart` hands it to the new instance).

Atomicity: every operation is one step.  `Serve` runs on goroutines that `startServers`
creates after its last `Listen`; the model places the serve events at that point (the
earliest possible one) and counts one wait-group unit per running `Serve` call (the
`ServePacket` unit of a TCP-only server is added and released at once).  The transient
`wg.Add(1)/Done()` bracket inside `Restart` and `Stop` is not represented.
-/
namespace Casket.Lifecycle

/-- what a server offers to casket: `file` = GracefulServer whose listener implements
`casket.Listener` (has `File()`), `nofile` = GracefulServer whose listener has no `File()`,
`plain` = only `casket.Server` (no `Stop`, no `Address`). -/
inductive SrvKind where
  | file | nofile | plain
deriving DecidableEq, Repr

structure Srv where
  kind : SrvKind
  addr : Nat
  listenFail : Bool
  /-- its `Stop()` returns an error (for the http server: the drain timed out).  `Instance.Stop` logs it and goes on to the
  remaining servers, so it has no effect on the trace. -/
  stopErr : Bool := false
deriving DecidableEq, Repr

/-- `s.server.(GracefulServer)` succeeds -/
def Srv.graceful (s : Srv) : Bool := s.kind != .plain

/-- the stage at which loading a configuration fails (Listen failures are per server) -/
inductive Stage where
  | none | parse | setup | make | first | startup
deriving DecidableEq, Repr

structure Cfg where
  servers : List Srv
  fail : Stage
  /-- the first OnRestart callback of the instance returns an error -/
  restartErr : Bool
  /-- the first OnShutdown callback of the instance returns an error -/
  shutdownErr : Bool
deriving DecidableEq, Repr

inductive Op where
  | start (c : Cfg)
  | restart (c : Cfg)
  | stopAll
  | signal (n : Nat)
deriving DecidableEq, Repr

/-- the six callback lists of `Instance` -/
inductive CB where
  | fs | su | rs | rf | sd | fd
deriving DecidableEq, Repr

inductive Event where
  | cb (k : CB) (gen idx : Nat)
  | listen (gen k : Nat)
  | inherit (gen k : Nat)
  | serve (gen k : Nat)
  | stop (gen k : Nat)
deriving DecidableEq, Repr

inductive Res where
  | ok | err | noinst
deriving DecidableEq, Repr

structure Seg where
  res : Res
  events : List Event
deriving DecidableEq, Repr

structure Inst where
  gen : Nat
  lineage : Nat
  cfg : Cfg
deriving DecidableEq, Repr

structure State where
  /-- generation of the next operation -/
  next : Nat
  /-- casket.go `instances` -/
  insts : List Inst
  /-- sigtrap.go `shutdownCallbacksOnce` has fired -/
  once : Bool
  /-- wait-group counter of each lineage (a lineage is named by the generation of its Start) -/
  wg : Nat → Int
  /-- generations of the Start calls so far (each returned an instance one can Wait on) -/
  lineages : List Nat

def State.init : State := { next := 1, insts := [], once := false, wg := fun _ => 0, lineages := [] }

/-- every instance registers two callbacks of each kind -/
def cbs (k : CB) (g : Nat) : List Event := [.cb k g 0, .cb k g 1]

/-- `for _, fn := range list { err = fn(); if err != nil { return } }` with callback 0 failing iff `err`:
the events and whether the loop completed -/
def runCbs (k : CB) (g : Nat) (err : Bool) : List Event × Bool :=
  if err then ([.cb k g 0], false) else (cbs k g, true)

/-- first loop of `startServers`: a graceful server whose address is in `restartFds` takes the old
listener over (no `Listen` call), any other server calls `Listen`; the first failing `Listen` aborts. -/
def listenLoop (g : Nat) (fds : List Nat) : Nat → List Srv → List Event × Bool
  | _, [] => ([], true)
  | k, s :: rest =>
    if s.graceful && fds.contains s.addr then
      (.inherit g k :: (listenLoop g fds (k + 1) rest).1, (listenLoop g fds (k + 1) rest).2)
    else if s.listenFail then ([], false)
    else (.listen g k :: (listenLoop g fds (k + 1) rest).1, (listenLoop g fds (k + 1) rest).2)

/-- second loop of `startServers`: one Serve goroutine per server -/
def serves (g n : Nat) : List Event := (List.range n).map (.serve g)

/-- two stages in sequence: the second runs only if the first succeeded (`if err != nil { return err }`) -/
def andThen (a b : List Event × Bool) : List Event × Bool :=
  if a.2 then (a.1 ++ b.1, b.2) else a

/-- `startWithListenerFds`: events and success.  `isRestart` = `restartFds != nil`.
Parsing, directive setup and `MakeServers` produce no lifecycle event; then OnFirstStartup (not on a restart),
OnStartup, the listen loop and the serve loop, each stage only if the previous one succeeded. -/
def load (g : Nat) (c : Cfg) (isRestart : Bool) (fds : List Nat) : List Event × Bool :=
  if c.fail = .parse ∨ c.fail = .setup ∨ c.fail = .make then ([], false) else
  andThen (if isRestart then ([], true) else runCbs .fs g (c.fail == .first))
    (andThen (runCbs .su g (c.fail == .startup))
      (andThen (listenLoop g fds 0 c.servers) (serves g c.servers.length, true)))

/-- `Instance.Stop`: `Stop()` on every GracefulServer, in order — all of them, whatever errors they return -/
def stopLoop (g : Nat) : Nat → List Srv → List Event
  | _, [] => []
  | k, s :: rest => if s.graceful then .stop g k :: stopLoop g (k + 1) rest else stopLoop g (k + 1) rest

def stopEvents (i : Inst) : List Event := stopLoop i.gen 0 i.cfg.servers

def gracefulCount (i : Inst) : Nat := (i.cfg.servers.filter Srv.graceful).length

/-- addresses in `restartFds`: GracefulServers whose listener implements `Listener` -/
def restartFds (i : Inst) : List Nat := (i.cfg.servers.filter (·.kind == .file)).map (·.addr)

def wgAdd (wg : Nat → Int) (l n : Nat) : Nat → Int := fun x => if x = l then wg x + n else wg x
/-- `Done()` n times; Go panics when the counter becomes negative — `Props.C16.C16_wait_group_never_negative` shows it cannot -/
def wgSub (wg : Nat → Int) (l n : Nat) : Nat → Int := fun x => if x = l then wg x - n else wg x

/-- `casket.Stop`: stop every instance, front first -/
def stopAllWg (wg : Nat → Int) : List Inst → (Nat → Int)
  | [] => wg
  | i :: rest => stopAllWg (wgSub wg i.lineage (gracefulCount i)) rest

/-- `ShutdownCallbacks` of every instance (errors do not stop it) -/
def shutdownEvents (insts : List Inst) : List Event :=
  insts.flatMap fun i => cbs .sd i.gen ++ cbs .fd i.gen

/-- one operation on the process state.  `Restart`: OnRestart callbacks of the running instance (an error aborts and
runs OnRestartFailed), the new instance is loaded on the old listeners (a failure runs OnRestartFailed and leaves
everything as it was), then the old instance is stopped and all its OnShutdown callbacks run. -/
def step (s : State) : Op → State × Seg
  | .start c =>
    let g := s.next
    let r := load g c false []
    if r.2 then
      ({ s with next := g + 1, lineages := s.lineages ++ [g], insts := s.insts ++ [⟨g, g, c⟩],
                wg := wgAdd s.wg g c.servers.length }, ⟨.ok, r.1⟩)
    else ({ s with next := g + 1, lineages := s.lineages ++ [g] }, ⟨.err, r.1⟩)
  | .restart c =>
    match s.insts with
    | [] => ({ s with next := s.next + 1 }, ⟨.noinst, []⟩)
    | o :: rest =>
      let g := s.next
      let rs := runCbs .rs o.gen o.cfg.restartErr
      if !rs.2 then ({ s with next := g + 1 }, ⟨.err, rs.1 ++ cbs .rf o.gen⟩) else
      let r := load g c true (restartFds o)
      if !r.2 then ({ s with next := g + 1 }, ⟨.err, rs.1 ++ r.1 ++ cbs .rf o.gen⟩) else
      -- the new instance is up: stop the old one, run all its OnShutdown callbacks (an error is only logged)
      ({ s with next := g + 1, insts := rest ++ [⟨g, o.lineage, c⟩],
                wg := wgSub (wgAdd s.wg o.lineage c.servers.length) o.lineage (gracefulCount o) },
       ⟨.ok, rs.1 ++ r.1 ++ stopEvents o ++ cbs .sd o.gen⟩)
  | .stopAll =>
    ({ s with next := s.next + 1, insts := [], wg := stopAllWg s.wg s.insts },
     ⟨.ok, s.insts.flatMap stopEvents⟩)
  | .signal _ =>
    if s.once then ({ s with next := s.next + 1 }, ⟨.ok, []⟩)
    else ({ s with next := s.next + 1, once := true }, ⟨.ok, shutdownEvents s.insts⟩)

/-- Wait() on the handle of each Start so far has returned -/
def waitBits (s : State) : List Bool := s.lineages.map fun l => s.wg l == 0

/-- run a history: the segments together with the wait observation after each -/
def runFrom (s : State) : List Op → List (Seg × List Bool)
  | [] => []
  | op :: rest =>
    let r := step s op
    (r.2, waitBits r.1) :: runFrom r.1 rest

def run (h : List Op) : List (Seg × List Bool) := runFrom State.init h

/-! ### the signal handlers (sigtrap.go, sigtrap_posix.go) -/

inductive Sig where
  | term | int | quit | hup
deriving DecidableEq, Repr

/-- the first signal that is not ignored decides what the process does before it exits -/
def deciding : List Sig → Option Sig
  | [] => none
  | .hup :: rest => deciding rest
  | s :: _ => some s

/-- a shutdown callback of a live instance returns an error (exit code 4) -/
def shutdownFails (insts : List Inst) : Bool := insts.any fun i => i.cfg.shutdownErr

/-- what the process does on the deciding signal, and its exit code (`none` = it keeps running):
SIGTERM runs the shutdown callbacks (once-guarded) and then stops every server; SIGINT runs the shutdown callbacks;
SIGQUIT exits at once; SIGHUP is ignored. -/
def sigRun (s : State) (sigs : List Sig) : List Event × Option Nat :=
  match deciding sigs with
  | none => ([], none)
  | some .quit => ([], some 0)
  | some .int => ((step s (.signal 1)).2.events, some (if !s.once && shutdownFails s.insts then 4 else 0))
  | some .term =>
    ((step s (.signal 1)).2.events ++ (step (step s (.signal 1)).1 .stopAll).2.events,
     some (if !s.once && shutdownFails s.insts then 4 else 0))
  | some .hup => ([], none)

/-! ### the shutdown pass, step by step (`allShutdownCallbacks`)

`step s (.signal n)` treats the pass as atomic.  Here it is cut into its steps so that other goroutines' attempts to
change the instance list can be interleaved: the pass is taken over the instances that are live when it BEGINS
(`for _, inst := range instances` under `instancesMu`); whatever happens to the list afterwards — in the code nothing can,
the mutex is held; a reload or stop has to wait — the pass visits exactly those instances, each once. -/

structure Pass where
  /-- casket.go `instances` -/
  live : List Inst
  /-- instances the running pass still has to visit (`none`: no pass is running) -/
  remaining : Option (List Inst)
  /-- callbacks run so far -/
  out : List Event

inductive PassAct where
  | begin
  | visit
  /-- some other goroutine changes the instance list (a reload appends and splices, a stop splices) -/
  | mutate (f : List Inst → List Inst)

def passStep (p : Pass) : PassAct → Pass
  | .begin =>
    match p.remaining with
    | none => { p with remaining := some p.live }
    | some _ => p
  | .visit =>
    match p.remaining with
    | some (i :: rest) => { p with remaining := some rest, out := p.out ++ (cbs .sd i.gen ++ cbs .fd i.gen) }
    | _ => p
  | .mutate f => { p with live := f p.live }

def passRun (p : Pass) : List PassAct → Pass
  | [] => p
  | a :: rest => passRun (passStep p a) rest

/-- the process state after a history -/
def stateAfter (s : State) : List Op → State
  | [] => s
  | op :: rest => stateAfter (step s op).1 rest

end Casket.Lifecycle
