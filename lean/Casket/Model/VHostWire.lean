import Casket.Model.VHost
/-
The request as it arrives ON THE WIRE (stream `c01.wire`): the request-target of the request line is
parsed by `http.ReadRequest` → `url.ParseRequestURI`, which for an origin-form target (leading `/`)
cuts the query at the first `?` and percent-decodes the rest into `URL.Path` (`url.unescape`, mode
`encodePath`: `%XX` with two hex digits ↦ one byte, any other `%` is an error → 400, every other byte —
bytes ≥ 0x80 included — is taken as it is).  `serveHTTP` then routes `hostname + URL.Path`, so a path
with multi-byte UTF-8 characters reaches the trie as the same BYTES whether the client sent it raw
(`/café`) or percent-encoded (`/caf%C3%A9`).

CORE LEAN ONLY.
-/
namespace Casket.VHostWire
open Casket.VHost

def cPct : Nat := 37
def cQm : Nat := 63

/-- `url.ishex` / `url.unhex` -/
def hexVal (c : Nat) : Option Nat :=
  if 48 ≤ c && c ≤ 57 then some (c - 48)
  else if 97 ≤ c && c ≤ 102 then some (c - 87)
  else if 65 ≤ c && c ≤ 70 then some (c - 55)
  else none

/-- `url.unescape(s, encodePath)`; `none` = `EscapeError` -/
def pctDecode : Bytes → Option Bytes
  | [] => some []
  | c :: rest =>
    if c = cPct then
      match rest with
      | h :: l :: rest' =>
        match hexVal h, hexVal l with
        | some a, some b => (pctDecode rest').map (fun t => (16 * a + b) :: t)
        | _, _ => none
      | _ => none
    else (pctDecode rest).map (fun t => c :: t)

def hexDigit (n : Nat) : Nat := if n < 10 then 48 + n else 55 + n

/-- what a client does to a path before putting it on the wire: `/` and ASCII letters, digits and
`- . _ ~` stay, every other byte becomes `%XX` (upper-case hex) -/
def unreserved (c : Nat) : Bool :=
  c = cSlash || (48 ≤ c && c ≤ 57) || (65 ≤ c && c ≤ 90) || (97 ≤ c && c ≤ 122) || c = 45 || c = 46 || c = 95 || c = 126

def pctEncode : Bytes → Bytes
  | [] => []
  | c :: rest => if unreserved c then c :: pctEncode rest else cPct :: hexDigit (c / 16) :: hexDigit (c % 16) :: pctEncode rest

/-- `URL.Path` of an origin-form request-target -/
def targetPath (target : Bytes) : Option Bytes := pctDecode (target.takeWhile (· != cQm))

inductive WireOutcome where
  | badRequest                 -- `http.ReadRequest` fails (the server answers 400 before any routing)
  | routed (path : Bytes) (o : Outcome)   -- `URL.Path` as parsed, then what the listener did
deriving Repr, DecidableEq

def wireRoute (sites : List Site) (host target : Bytes) (pm : Nat) : WireOutcome :=
  match targetPath target with
  | none => .badRequest
  | some p => .routed p (route sites { host := host, path := p, protoMajor := pm })

end Casket.VHostWire
