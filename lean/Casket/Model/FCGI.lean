import Casket.Model.Fault
/-
Model of caskethttp/fastcgi/fcgiclient.go (client side of the FastCGI wire):

  header.init, writeRecord, encodeSize, writePairs (with its bufio.Writer of
  size maxWrite and the flush threshold `nn`), streamWriter, Do (begin request,
  params, stdin), record.read, streamReader.Read.

The `pairs` map is given in its iteration order (a list); every theorem
quantifies over that order.  Index / slice expressions that take a peer- or
request-controlled bound are checked operations (`Casket.Fault`).

CORE LEAN ONLY.
-/
namespace Casket.FCGI
open Casket.Fault

def maxWrite : Nat := 65500
def maxPad : Nat := 255

def typeBeginRequest : Nat := 1
def typeAbortRequest : Nat := 2
def typeEndRequest : Nat := 3
def typeParams : Nat := 4
def typeStdin : Nat := 5
def typeStdout : Nat := 6
def typeStderr : Nat := 7
def roleResponder : Nat := 1

def b8 (n : Nat) : UInt8 := UInt8.ofNat (n % 256)

/-- `uint8(-contentLength & 7)` -/
def padLen (n : Nat) : Nat := (8 - n % 8) % 8

/-- `header.init` + `binary.Write`: the 8 header bytes (`ContentLength = uint16(len)`). -/
def headerBytes (typ id clen : Nat) : Bytes :=
  [1, b8 typ, b8 (id / 256), b8 id, b8 ((clen % 65536) / 256), b8 clen, b8 (padLen clen), 0]

/-- `writeRecord`: what is handed to one `rwc.Write`. -/
def writeRecord (typ id : Nat) (content : Bytes) : Bytes :=
  headerBytes typ id content.length ++ content ++ List.replicate (padLen content.length) 0

/-- `encodeSize` -/
def encodeSize (size : Nat) : Bytes :=
  if size > 127 then
    let s := size % 2147483648 + 2147483648        -- size |= 1<<31  (uint32)
    [b8 (s / 16777216), b8 (s / 65536), b8 (s / 256), b8 s]
  else [b8 size]

/-- `streamWriter.Write(p)`: records of at most maxWrite bytes, by fuel `len(p)+1`. -/
def streamWriteFuel (typ id : Nat) : Nat → Bytes → Bytes
  | 0, _ => []
  | f + 1, p =>
    if p.length = 0 then [] else
    let n := if p.length > maxWrite then maxWrite else p.length
    writeRecord typ id (p.take n) ++ streamWriteFuel typ id f (p.drop n)

def streamWrite (typ id : Nat) (p : Bytes) : Bytes := streamWriteFuel typ id (p.length + 1) p

/-- `streamWriter.Close`: the empty record. -/
def streamClose (typ id : Nat) : Bytes := writeRecord typ id []

/-- A `bufio.Writer` of size maxWrite over a streamWriter: bytes on the wire so far and the
buffered bytes. -/
structure BufW where
  wire : Bytes := []
  buf  : Bytes := []
deriving Repr, DecidableEq

def BufW.avail (w : BufW) : Nat := maxWrite - w.buf.length

/-- `bufio.Writer.Flush` (nothing is written when the buffer is empty) -/
def BufW.flush (typ id : Nat) (w : BufW) : BufW :=
  if w.buf.length = 0 then w else { wire := w.wire ++ streamWrite typ id w.buf, buf := [] }

/-- `bufio.Writer.Write` / `WriteString` (streamWriter is no StringWriter and no ReaderFrom):
while the data does not fit, an empty buffer forwards the whole write (`Write`) or, like a
non-empty one, is filled and flushed (`WriteString`). -/
def BufW.writeFuel (typ id : Nat) (isString : Bool) : Nat → BufW → Bytes → BufW
  | 0, w, _ => w
  | f + 1, w, p =>
    if p.length > w.avail then
      if w.buf.length = 0 ∧ !isString then
        { w with wire := w.wire ++ streamWrite typ id p }
      else
        let n := w.avail
        let w' := BufW.flush typ id { w with buf := w.buf ++ p.take n }
        BufW.writeFuel typ id isString f w' (p.drop n)
    else { w with buf := w.buf ++ p }

def BufW.write (typ id : Nat) (w : BufW) (p : Bytes) : BufW :=
  BufW.writeFuel typ id false (p.length + 2) w p

def BufW.writeString (typ id : Nat) (w : BufW) (p : Bytes) : BufW :=
  BufW.writeFuel typ id true (p.length + 2) w p

/-- `bufWriter.Close`: flush, then the stream's empty record. -/
def BufW.close (typ id : Nat) (w : BufW) : Bytes :=
  (BufW.flush typ id w).wire ++ streamClose typ id

abbrev Pair := Bytes × Bytes

/-- loop body of `writePairs` for one `k, v`; state = writer and `nn`.
A name that leaves no room for a value (`maxWrite - 8 - len(k) < 0`) is skipped. -/
def pairStep (typ id : Nat) (st : BufW × Nat) (kv : Pair) : R (BufW × Nat) :=
  let (w, nn) := st
  let (k, v) := kv
  let m := 8 + k.length + v.length
  let vr : R (Option Bytes) :=
    if m > maxWrite then
      let vl : Int := (maxWrite : Int) - 8 - k.length
      if vl < 0 then .ok none else
      match sliceInt v 0 vl with
      | .error e => .error e
      | .ok v' => .ok (some v')
    else .ok (some v)
  match vr with
  | .error e => .error e
  | .ok none => .ok (w, nn)
  | .ok (some v) =>
    let sizes := encodeSize k.length ++ encodeSize v.length
    let m := sizes.length + k.length + v.length
    let (w, nn) := if nn + m > maxWrite then (BufW.flush typ id w, 0) else (w, nn)
    let w := BufW.write typ id w sizes
    let w := BufW.writeString typ id w k
    let w := BufW.writeString typ id w v
    .ok (w, nn + m)

def pairsLoop (typ id : Nat) : List Pair → BufW × Nat → R (BufW × Nat)
  | [], st => .ok st
  | kv :: rest, st =>
    match pairStep typ id st kv with
    | .error e => .error e
    | .ok st' => pairsLoop typ id rest st'

/-- `writePairs(recType, pairs)`: the bytes written to the connection. -/
def writePairs (typ id : Nat) (pairs : List Pair) : R Bytes :=
  match pairsLoop typ id pairs ({}, 0) with
  | .error e => .error e
  | .ok (w, _) => .ok (BufW.close typ id w)

/-- `writeBeginRequest(role, flags)` -/
def beginRequest (id role flags : Nat) : Bytes :=
  writeRecord typeBeginRequest id [b8 (role / 256), b8 role, b8 flags, 0, 0, 0, 0, 0]

/-- stdin part of `Do`: `io.Copy(body, req); body.Close()` — full records of maxWrite bytes,
the remainder, the empty record. -/
def stdinRecords (id : Nat) (body : Bytes) : Bytes :=
  streamWrite typeStdin id body ++ streamClose typeStdin id

/-- How `Do`'s `req io.Reader` behaves under `io.Copy(body, req)`. -/
inductive BodyReader where
  | none                                   -- `req == nil`: nothing is copied
  | writerTo                               -- req has WriteTo (bytes.Reader, strings.Reader …): one `Write` of everything
  | plain (wants : List Nat) (eofWithData : Bool)
      -- a plain reader: the k-th Read returns at most `wants[k]` (≥1) bytes (everything available
      -- once the list is used up); `eofWithData`: the last Read returns its bytes together with io.EOF
deriving Repr, DecidableEq

/-- how many bytes one `Read(b.buf[b.n:])` returns: what the reader is willing to give, at most
the free space, at most what is left -/
def readCount (wants : List Nat) (remLen avail : Nat) : Nat :=
  let want := match wants with
    | [] => remLen
    | x :: _ => if x = 0 then 1 else x
  min (min want avail) remLen

/-- `bufio.Writer.ReadFrom(r)` (what `io.Copy` calls on the bufWriter): flush when the buffer is
full, read into the free space; on EOF flush pre-emptively if the buffer was filled exactly. -/
def BufW.readFromFuel (typ id : Nat) (eofWithData : Bool) : Nat → BufW → Bytes → List Nat → BufW
  | 0, w, _, _ => w
  | f + 1, w, rem, wants =>
    let w := if w.avail = 0 then BufW.flush typ id w else w
    if rem.length = 0 then w
    else
      let m := readCount wants rem.length w.avail
      let w' : BufW := { w with buf := w.buf ++ rem.take m }
      if (rem.drop m).length = 0 ∧ eofWithData then
        (if w'.avail = 0 then BufW.flush typ id w' else w')
      else BufW.readFromFuel typ id eofWithData f w' (rem.drop m) wants.tail

/-- the stdin part of `Do` as the code performs it: a bufio.Writer over the stream writer,
`io.Copy` from the body reader, `Close` -/
def stdinWire (id : Nat) (body : Bytes) : BodyReader → Bytes
  | .none => BufW.close typeStdin id {}
  | .writerTo => BufW.close typeStdin id (BufW.write typeStdin id {} body)
  | .plain wants e => BufW.close typeStdin id (BufW.readFromFuel typeStdin id e (body.length + 2) {} body wants)

/-- everything `Do(p, req)` writes -/
def clientWire (id : Nat) (pairs : List Pair) (body : Bytes) : R Bytes :=
  match writePairs typeParams id pairs with
  | .error e => .error e
  | .ok ps => .ok (beginRequest id roleResponder 0 ++ ps ++ stdinRecords id body)

/-- `Do(p, req)` with the body reader's behaviour spelled out (see `stdinWire`); Props/C13
proves it equals `clientWire` for every reader -/
def clientWireVia (id : Nat) (pairs : List Pair) (body : Bytes) (rk : BodyReader) : R Bytes :=
  match writePairs typeParams id pairs with
  | .error e => .error e
  | .ok ps => .ok (beginRequest id roleResponder 0 ++ ps ++ stdinWire id body rk)

/-! ### reading records (`record.read`, `streamReader`) -/

inductive ReadErr where
  | eof              -- io.EOF: clean end of input, or an EndRequest record
  | unexpectedEOF    -- input ends inside a header or a body
  | badVersion       -- "fcgi: invalid header version"
deriving Repr, DecidableEq

structure Rec where
  typ     : Nat
  id      : Nat
  content : Bytes
deriving Repr, DecidableEq

/-- second half of `record.read`: `rec.rbuf = make([]byte, n); io.ReadFull(r, rec.rbuf[:n]);
buf = rec.rbuf[:ContentLength]` with `n = ContentLength + PaddingLength` -/
def readBody (typ id clen plen : Nat) (rest : Bytes) : R (Except ReadErr Rec × Bytes) :=
  let n := clen + plen
  if rest.length < n then
    .ok (.error (if rest.length = 0 then .eof else .unexpectedEOF), [])
  else
    match slice rest 0 n with
    | .error e => .error e
    | .ok body =>
      match sliceFrom rest n with
      | .error e => .error e
      | .ok rest' =>
        match slice body 0 clen with
        | .error e => .error e
        | .ok content => .ok (.ok { typ := typ, id := id, content := content }, rest')

/-- the header fields `record.read` looks at: version, type, id, content length, padding length -/
def headerFields (h : Bytes) : R (Nat × Nat × Nat × Nat × Nat) :=
  match idx h 0 with
  | .error e => .error e
  | .ok ver =>
    match idx h 1 with
    | .error e => .error e
    | .ok typ =>
      match be16 h 2 with
      | .error e => .error e
      | .ok id =>
        match be16 h 4 with
        | .error e => .error e
        | .ok clen =>
          match idx h 6 with
          | .error e => .error e
          | .ok plen => .ok (ver.toNat, typ.toNat, id, clen, plen.toNat)

/-- `record.read`: one record off the input, or the error; the rest of the input. -/
def readRecord (inp : Bytes) : R (Except ReadErr Rec × Bytes) :=
  if inp.length = 0 then .ok (.error .eof, [])
  else if inp.length < 8 then .ok (.error .unexpectedEOF, [])
  else
    match slice inp 0 8 with
    | .error e => .error e
    | .ok h =>
      match sliceFrom inp 8 with
      | .error e => .error e
      | .ok rest =>
        match headerFields h with
        | .error e => .error e
        | .ok (ver, typ, id, clen, plen) =>
          if ver ≠ 1 then .ok (.error .badVersion, rest)
          else if typ = typeEndRequest then .ok (.error .eof, rest)
          else readBody typ id clen plen rest

/-- What a reader of `streamReader` sees: the stdout chunks in order (one per non-stderr
record, possibly empty), the bytes appended to `c.stderr`, and the error that ends the stream. -/
structure Demux where
  out : List Bytes := []
  err : Bytes := []
  fin : ReadErr := .eof
deriving Repr, DecidableEq

def demuxFuel : Nat → Bytes → R Demux
  | 0, _ => .error .fuel
  | f + 1, inp =>
    match readRecord inp with
    | .error e => .error e
    | .ok (.error e, _) => .ok { fin := e }
    | .ok (.ok rec, rest) =>
      match demuxFuel f rest with
      | .error e => .error e
      | .ok d =>
        if rec.typ = typeStderr then .ok { d with err := rec.content ++ d.err }
        else .ok { d with out := rec.content :: d.out }

/-- reading `streamReader` to the end over the responder's bytes `inp` -/
def demux (inp : Bytes) : R Demux := demuxFuel (inp.length + 1) inp

/-! ### the response: `FCGIClient.Request` on the demultiplexed stdout stream

`textproto.Reader.ReadMIMEHeader` belongs to the standard library; it is modelled for the
header blocks a CGI program writes: lines `Name: value` ended by LF or CRLF, names made of
token characters, values of printable ASCII, a blank line, then the body.  Everything else
(continuation lines, control bytes, missing blank line, chunked transfer encoding, Status values
that are not plain digits) is reported as `unmodelled`, and the harness does not generate it
for the compared streams. -/

structure Resp where
  status     : Nat
  statusText : Bytes                    -- resp.Status (text after the first space), may be empty
  headers    : List (Bytes × Bytes)     -- canonical key, value; in order of appearance
  body       : Bytes
deriving Repr, DecidableEq

inductive RespResult where
  | resp (r : Resp)
  | statusError           -- strconv.Atoi on the Status header failed: Request returns the error
  | unmodelled
deriving Repr, DecidableEq

def isTokenByte (b : UInt8) : Bool :=
  (0x30 ≤ b && b ≤ 0x39) || (0x41 ≤ b && b ≤ 0x5a) || (0x61 ≤ b && b ≤ 0x7a) ||
  "!#$%&'*+-.^_`|~".toList.any (fun c => c.toNat.toUInt8 == b)

def upper (b : UInt8) : UInt8 := if 0x61 ≤ b && b ≤ 0x7a then b - 32 else b
def lower (b : UInt8) : UInt8 := if 0x41 ≤ b && b ≤ 0x5a then b + 32 else b

/-- `textproto.CanonicalMIMEHeaderKey` on a token -/
def canonicalKey : Bytes → Bool → Bytes
  | [], _ => []
  | b :: rest, up => (if up then upper b else lower b) :: canonicalKey rest (b == 0x2d)

def trimSpTab (s : Bytes) : Bytes :=
  let l := s.dropWhile (fun b => b == 0x20 || b == 0x09)
  (l.reverse.dropWhile (fun b => b == 0x20 || b == 0x09)).reverse

/-- first line (without its LF / CRLF) and the rest; `none` = no LF -/
def cutLine (s : Bytes) : Option (Bytes × Bytes) :=
  match indexOf s [0x0a] with
  | none => none
  | some i =>
    let line := s.take i
    let line := if line.getLast? == some 0x0d then line.dropLast else line
    some (line, s.drop (i + 1))

/-- header lines up to the blank line; `none` = outside the modelled grammar -/
def parseHeaders : Nat → Bytes → Option (List (Bytes × Bytes) × Bytes)
  | 0, _ => none
  | fuel + 1, s =>
    match cutLine s with
    | none => none
    | some (line, rest) =>
      if line.isEmpty then some ([], rest) else
      if line.head? == some 0x20 || line.head? == some 0x09 then none else
      match indexOf line [0x3a] with
      | none => none
      | some i =>
        let name := line.take i
        let value := trimSpTab (line.drop (i + 1))
        if name.isEmpty || !name.all isTokenByte then none
        else if !value.all (fun b => 0x20 ≤ b && b ≤ 0x7e) then none
        else
          match parseHeaders fuel rest with
          | none => none
          | some (hs, body) => some ((canonicalKey name true, value) :: hs, body)

def isDigitB (b : UInt8) : Bool := 0x30 ≤ b && b ≤ 0x39

/-- `resp.Header.Get("Status")` handling of `Request` -/
def parseResponse (stdout : Bytes) : RespResult :=
  match parseHeaders (stdout.length + 1) stdout with
  | none => .unmodelled
  | some (hs, body) =>
    if hs.any (fun h => h.1 == bytes "Transfer-Encoding") then .unmodelled else
    match hs.find? (fun h => h.1 == bytes "Status") with
    | none => .resp { status := 200, statusText := [], headers := hs, body := body }
    | some (_, v) =>
      if v.isEmpty then .resp { status := 200, statusText := [], headers := hs, body := body } else
      let parts := splitFirst 0x20 v
      let code := parts.headD []
      let text := if parts.length > 1 then (parts.drop 1).headD [] else []
      if code.isEmpty then .statusError
      else if code.all isDigitB && code.length ≤ 9 then
        .resp { status := code.foldl (fun a d => a * 10 + (d.toNat - 0x30)) 0, statusText := text,
                headers := hs, body := body }
      else if code.any (fun b => !isDigitB b && b != 0x2b && b != 0x2d) then .statusError
      else .unmodelled

/-- stable insertion by key (what printing a Go `http.Header` with sorted keys gives) -/
def insertHeader (h : Bytes × Bytes) : List (Bytes × Bytes) → List (Bytes × Bytes)
  | [] => [h]
  | x :: rest => if bytesLtF h.1 x.1 then h :: x :: rest else x :: insertHeader h rest
where
  bytesLtF : Bytes → Bytes → Bool
    | [], [] => false
    | [], _ :: _ => true
    | _ :: _, [] => false
    | a :: as, b :: bs => a < b || (a == b && bytesLtF as bs)

def sortHeaders (hs : List (Bytes × Bytes)) : List (Bytes × Bytes) :=
  hs.foldl (fun acc h => insertHeader h acc) []

/-- What the caller of `Request` ends up with after reading the body to its end. -/
structure ClientView where
  status     : Nat
  statusText : Bytes
  headers    : List (Bytes × Bytes)   -- sorted by key, values of one key in order of arrival
  body       : Bytes
  stderr     : Bytes                  -- what went to `c.stderr` (the error log)
  fin        : ReadErr                -- how the body stream ended (`eof` = cleanly)
deriving Repr, DecidableEq

inductive ViewResult where
  | view (v : ClientView)
  | statusError
  | unmodelled
deriving Repr, DecidableEq

/-- `bufio.Reader` (which `Request` puts in front of the stream) gives up with io.ErrNoProgress
after this many consecutive reads that return no data and no error -/
def maxConsecutiveEmptyReads : Nat := 100

/-- `Request` + reading `resp.Body` to the end, over the responder's bytes `raw`.
The stream reader returns (0, nil) once per empty data record (see `SR.read`); responder output
with 100 or more of them is outside the model (bufio may report ErrNoProgress). A conforming
responder sends exactly one: the stdout terminator. -/
def clientView (raw : Bytes) : R ViewResult :=
  match demux raw with
  | .error e => .error e
  | .ok d =>
    if (d.out.filter (·.isEmpty)).length ≥ maxConsecutiveEmptyReads then .ok .unmodelled else
    match parseResponse d.out.flatten with
    | .unmodelled => .ok .unmodelled
    | .statusError => .ok .statusError
    | .resp r =>
      .ok (.view { status := r.status, statusText := r.statusText, headers := sortHeaders r.headers,
                   body := r.body, stderr := d.err, fin := d.fin })

/-! ### `streamReader.Read`, call by call (the io.Reader contract)

`demux` above says what all the reads together deliver.  This is the same reader one `Read(p)` at a
time, so that the number of bytes each call returns is visible: a caller such as bufio.Reader
tolerates only a bounded number of consecutive calls that return (0, nil). -/

/-- `streamReader` + the connection: bytes not yet read from `rwc`, `w.buf`, `c.stderr` -/
structure SR where
  inp    : Bytes
  buf    : Bytes := []
  stderr : Bytes := []
deriving Repr, DecidableEq

/-- what one `Read` reports: the bytes copied into `p`, the error, and the records it took off the
connection -/
structure ReadOut where
  data     : Bytes
  err      : Option ReadErr
  consumed : List Rec
deriving Repr, DecidableEq

/-- the `for { rec.read … }` loop entered when `w.buf` is empty: stderr records are diverted and
the loop goes on; any other record ends it -/
def SR.fill : Nat → SR → List Rec → R (SR × Option ReadErr × List Rec)
  | 0, _, _ => .error .fuel
  | f + 1, s, acc =>
    match readRecord s.inp with
    | .error e => .error e
    | .ok (.error e, rest) => .ok ({ s with inp := rest }, some e, acc)
    | .ok (.ok rec, rest) =>
      if rec.typ = typeStderr then
        SR.fill f { s with inp := rest, stderr := s.stderr ++ rec.content } (acc ++ [rec])
      else .ok ({ s with inp := rest, buf := rec.content }, none, acc ++ [rec])

/-- `n = min(len(p), len(w.buf)); copy; w.buf = w.buf[n:]` -/
def SR.deliver (s : SR) (plen : Nat) (consumed : List Rec) : SR × ReadOut :=
  let n := min plen s.buf.length
  ({ s with buf := s.buf.drop n }, { data := s.buf.take n, err := none, consumed := consumed })

/-- one `Read(p)` with `len(p) = plen` -/
def SR.read (s : SR) (plen : Nat) : R (SR × ReadOut) :=
  if plen = 0 then .ok (s, { data := [], err := none, consumed := [] })
  else if s.buf.length ≠ 0 then .ok (s.deliver plen [])
  else
    match SR.fill (s.inp.length + 1) s [] with
    | .error e => .error e
    | .ok (s', some e, c) => .ok (s', { data := [], err := some e, consumed := c })
    | .ok (s', none, c) => .ok (s'.deliver plen c)

/-- a whole sequence of `Read`s with the same buffer size until one reports an error -/
structure Trace where
  zero   : Nat := 0        -- calls that returned (0, nil)
  empties : Nat := 0       -- empty data records (type other than stderr) taken off the connection
  out    : Bytes := []
  stderr : Bytes := []
  fin    : ReadErr := .eof
deriving Repr, DecidableEq

def isEmptyData (r : Rec) : Bool := r.typ != typeStderr && r.content.isEmpty

def SR.readAll (plen : Nat) : Nat → SR → Trace → R Trace
  | 0, _, _ => .error .fuel
  | f + 1, s, t =>
    match s.read plen with
    | .error e => .error e
    | .ok (s', o) =>
      let t := { t with empties := t.empties + (o.consumed.filter isEmptyData).length }
      match o.err with
      | some e => .ok { t with stderr := s'.stderr, fin := e }
      | none =>
        SR.readAll plen f s'
          { t with zero := t.zero + (if o.data.isEmpty then 1 else 0), out := t.out ++ o.data }

/-- reading the responder's bytes `raw` to the end through `Read` calls with `len(p) = plen > 0` -/
def readTrace (raw : Bytes) (plen : Nat) : R Trace :=
  SR.readAll plen (2 * raw.length + 2) { inp := raw } {}

end Casket.FCGI
