import Casket.Model.Chain
/-
The `templates` middleware behind basicauth/internal, over a SEQUENCE of requests to one site
(C03; seeded regression C03-templates-buffer-not-reset-after-exec-error).

`Templates.ServeHTTP` (caskethttp/templates/templates.go) takes a `*bytes.Buffer` out of the
site's `sync.Pool` for every request that matches a rule, `Reset`s it, lets the next handler (the
file server) write the page SOURCE into it when the request path has one of the rule's
extensions, parses that text as a template, `Reset`s the buffer again and executes the template
INTO the same buffer; the deferred `Put` hands the buffer back to the pool with whatever it holds
at that moment: nothing (404 / pass-through), the page source (parse error), the partial output
(execution error) or the whole output (success).  The pool therefore carries page content — also
that of a basicauth-protected page rendered for the holder of the credentials — from one request
to whichever later request draws the same buffer.  That none of it is observable rests on the
`Reset` after `Get`; this model keeps the pool explicitly so that this is a theorem
(`Props/C03.lean`, `C03_tpl_pool_unobservable`) instead of an assumption, and so that the variant
without that `Reset` has a witness.

Abstraction.  A page is a list of items: literal text carrying a unique token, `{{.Include "f"}}`,
an action that fails at EXECUTION time (`{{.NoSuchField}}`), an action that fails at PARSE time
(`{{end}}`).  A buffer's content is a list of items as well: source text is the page's items,
rendered output consists of literal items only, and stale output in front of a source is parsed
as literal text (text/template is trusted for: literal text is copied, output is written
incrementally, an error stops execution and leaves what was written).  `Context.Include` reads
the file from the site root (no protection applies), parses and executes it with its own pooled
buffer (`includeBufs`, Reset after Get) and yields its output only when it succeeded.

Scope: GET requests whose path is the canonical URL of a file table entry or of nothing, and has
an extension (the Content-Type route of `shouldBuf` for extension-less paths is not modelled);
every step consumes fuel, include graphs are acyclic in the stream.

CORE LEAN ONLY.
-/
namespace Casket.TplPool
open Casket.Path Casket.Chain

inductive Item
  | lit (tok : Nat)        -- literal text with the unique token `tok`
  | incl (name : Bytes)    -- {{.Include "name"}}
  | fail                   -- an action whose execution fails ({{.NoSuchField}})
  | malformed              -- text that does not parse ({{end}})
deriving Repr, DecidableEq

abbrev Page := List Item

structure TplRule where
  path : Bytes
  exts : List Bytes
deriving Repr, DecidableEq

structure TSite where
  auth : List AuthRule
  internal : List Bytes
  rules : List TplRule
  files : List (Bytes × Page)     -- canonical rooted URL ↦ source of the regular file there
deriving Repr

structure TReq where
  path : Bytes
  creds : Option (Bytes × Bytes)
deriving Repr, DecidableEq

inductive TResp
  | unauthorized                 -- 401 (basicauth)
  | notFound                     -- 404 (internal, or no such file)
  | error                        -- 500 (parse or execution error)
  | rendered (out : List Nat)    -- 200, the template's output
  | raw (src : Page)             -- 200, the file as it is (no rule / extension applies)
deriving Repr, DecidableEq

def lookup (files : List (Bytes × Page)) (p : Bytes) : Option Page :=
  (files.find? (fun f => f.1 = p)).map (·.2)

/-- path.Ext: from the last dot of the last element -/
def extGo : Bytes → Bytes → Bytes
  | [], _ => []
  | c :: cs, acc => if c = slash then [] else if c = dot then dot :: acc else extGo cs (c :: acc)

def pathExt (p : Bytes) : Bytes := extGo p.reverse []

def parses (p : Page) : Bool := !p.contains .malformed

/-- `Template.Execute`: the tokens written before it stopped, and whether it completed.  An
include contributes its output only when it parsed and executed completely. -/
def exec (files : List (Bytes × Page)) : Nat → Page → List Nat × Bool
  | 0, _ => ([], false)
  | _ + 1, [] => ([], true)
  | fuel + 1, .lit t :: rest => let r := exec files fuel rest; (t :: r.1, r.2)
  | _ + 1, .fail :: _ => ([], false)
  | _ + 1, .malformed :: _ => ([], false)         -- unreachable after `parses`
  | fuel + 1, .incl n :: rest =>
    match lookup files n with
    | none => ([], false)                           -- fs.Open fails
    | some p =>
      if !parses p then ([], false)
      else
        let r := exec files fuel p
        if r.2 then let r2 := exec files fuel rest; (r.1 ++ r2.1, r2.2) else ([], false)

def asLits (out : List Nat) : Page := out.map .lit

def firstRule (rules : List TplRule) (p : Bytes) : Option TplRule := rules.find? fun r => pathMatches p r.path

/-- `Templates.ServeHTTP` for a request that reached it, with the buffer `b` drawn from the pool.
`resetOnGet` = the code as it is; `false` = the seeded variant (Reset where the handler is 'done'
with the buffer, but not on the return after a failed Execute).  Result: the response and the
buffer as it goes back to the pool (`none`: no rule matched, the pool was not touched). -/
def tplServe (resetOnGet : Bool) (fuel : Nat) (s : TSite) (b : Page) (p : Bytes) : TResp × Option Page :=
  match firstRule s.rules p with
  | none =>
    match lookup s.files p with
    | none => (.notFound, none)
    | some src => (.raw src, none)
  | some rule =>
    let b0 : Page := if resetOnGet then [] else b
    match lookup s.files p with
    | none => (.notFound, some [])                                    -- code >= 300: nothing was buffered; both variants hand back an empty buffer
    | some src =>
      if !rule.exts.contains (pathExt p) then (.raw src, some [])     -- streamed, not buffered
      else
        let text := b0 ++ src                                          -- the file server wrote the source into the buffer
        if !parses text then (.error, some (if resetOnGet then text else []))   -- as it is: the source stays in the buffer
        else
          let r := exec s.files fuel text                              -- buf.Reset(); Execute(buf, ctx)
          if r.2 then (.rendered r.1, some (if resetOnGet then asLits r.1 else []))
          else (.error, some (asLits r.1))                             -- the partial output goes back to the pool

/-- basicauth → internal → templates → file server for one request -/
def serveWith (resetOnGet : Bool) (fuel : Nat) (s : TSite) (b : Page) (r : TReq) : TResp × Option Page :=
  if needsAuth s.auth r.path r.creds then (.unauthorized, none)
  else if isInternal s.internal r.path then (.notFound, none)
  else tplServe resetOnGet fuel s b r.path

/-- `sync.Pool`: `Get` yields ANY buffer of the pool or a new one — the choice is the
scheduler's, here the second component of a step (`none`, or an index outside the pool = `New`). -/
def takeBuf (pool : List Page) : Option Nat → Page × List Page
  | none => ([], pool)
  | some i => match pool[i]? with
    | some b => (b, pool.eraseIdx i)
    | none => ([], pool)

/-- a sequence of requests, one after the other, each with the pool's choice of buffer -/
def run (resetOnGet : Bool) (fuel : Nat) (s : TSite) : List Page → List (TReq × Option Nat) → List TResp
  | _, [] => []
  | pool, (r, ch) :: rest =>
    let t := takeBuf pool ch
    let a := serveWith resetOnGet fuel s t.1 r
    match a.2 with
    | none => a.1 :: run resetOnGet fuel s pool rest          -- pool untouched (Get not reached)
    | some b' => a.1 :: run resetOnGet fuel s (b' :: t.2) rest

/-- the request on its own: a fresh buffer, no history -/
def serveFresh (fuel : Nat) (s : TSite) (r : TReq) : TResp := (serveWith true fuel s [] r).1

/-- what `sync.Pool` does for strictly sequential requests: the buffer of the last `Put` -/
def lifo (rs : List TReq) : List (TReq × Option Nat) := rs.map fun r => (r, some 0)

/-- the tokens a response carries -/
def tokensOf : TResp → List Nat
  | .rendered out => out
  | .raw src => src.filterMap fun | .lit t => some t | _ => none
  | _ => []

end Casket.TplPool
