/-
Model of the (status, error) handler contract across composed middleware:
  httpserver/server.go   Server.ServeHTTP (top-level recover, fallback DefaultErrorFunc)
  errors/errors.go       ErrorHandler.ServeHTTP, errorPage, recovery (plain, custom page, visible)
  log/log.go             Logger.ServeHTTP (recorder, failover error writer)
  gzip/gzip.go           Gzip.ServeHTTP (compressing writer, own fallback on the raw writer)
  header/header.go       responseWriterWrapper (WriteHeader once, deferred ops)
  templates/templates.go Templates.ServeHTTP over httpserver.ResponseBuffer (buffer, render or bail out)
The wrappers limits, request_id, rewrite, status, mime and internal do not touch the response of a
request that does not trigger them; they are the identity here (the stream puts them in the real
chain to check exactly that).

A handler is described by its *behaviour*: the calls it makes on the ResponseWriter it is given
and how it ends (returns (status, err) or panics).  A wrapper maps the behaviour of the handler
below it to its own.  Bodies are symbolic chunks; `enc` marks bytes that went through the gzip
writer.  Template bodies contain no actions (rendering is the identity on them).

CORE LEAN ONLY: this file is linked into the model driver.
-/
namespace Casket.Mw

abbrev Bytes := List UInt8

inductive Chunk where
  | inner (b : Bytes)     -- bytes written by the innermost handler
  | errText (s : Nat)     -- httpserver.DefaultErrorFunc: "<s> <status text>\n"
  | custom (s : Nat)      -- the error page configured for status s
  | debugErr              -- errors visible: "[ERROR <s> <path>] <err>\n"
  | debugPanic            -- errors visible: panic message and stack
deriving Repr, DecidableEq

inductive WOp where
  | hdr (code : Nat)
  | write (c : Chunk) (enc : Bool)
deriving Repr, DecidableEq

inductive Outcome where
  | ret (status : Nat) (err : Bool)
  | panic
deriving Repr, DecidableEq

structure Beh where
  ops : List WOp
  out : Outcome
deriving Repr, DecidableEq

/-- behaviours of the innermost handler (the `probe` directive scripts them) -/
inductive Inner where
  | ret (s : Nat) (err : Bool)                        -- return (s, err) without touching w
  | write (s : Option Nat) (b : Bytes) (err : Bool)   -- [WriteHeader(s)]; Write(b); return (0, err)
  | panicBefore                                       -- panic before touching w
  | panicAfter (s : Option Nat) (b : Bytes)           -- [WriteHeader(s)]; Write(b); panic
deriving Repr, DecidableEq

def wroteOps (s : Option Nat) (b : Bytes) : List WOp :=
  match s with
  | some c => [.hdr c, .write (.inner b) false]
  | none => [.write (.inner b) false]

def Inner.beh : Inner → Beh
  | .ret s e => ⟨[], .ret s e⟩
  | .write s b e => ⟨wroteOps s b, .ret 0 e⟩
  | .panicBefore => ⟨[], .panic⟩
  | .panicAfter s b => ⟨wroteOps s b, .panic⟩

/-- what a wrapper that remembers `wroteHeader` lets through: the first WriteHeader only, and
an explicit WriteHeader(200) before a Write that comes first -/
def normGo : Bool → List WOp → List WOp
  | _, [] => []
  | true, .hdr _ :: r => normGo true r
  | false, .hdr c :: r => .hdr c :: normGo true r
  | true, .write c e :: r => .write c e :: normGo true r
  | false, .write c e :: r => .hdr 200 :: .write c e :: normGo true r

def norm (ops : List WOp) : List WOp := normGo false ops

/-- `header`: responseWriterWrapper -/
def headerW (b : Beh) : Beh := { b with ops := norm b.ops }

def encOp : WOp → WOp
  | .hdr c => .hdr c
  | .write c _ => .write c true

def errResponse (s : Nat) : List WOp := [.hdr s, .write (.errText s) false]

/-- `gzip` when it applies to the request and the response is compressible: everything the
handlers below write goes through the compressing writer; an unhandled error status is answered
on the raw writer. -/
def gzipW (b : Beh) : Beh :=
  let ops := (norm b.ops).map encOp
  match b.out with
  | .panic => ⟨ops, .panic⟩
  | .ret s e => if s ≥ 400 then ⟨ops ++ errResponse s, .ret 0 e⟩ else ⟨ops, .ret s e⟩

inductive ErrMode where
  | plain      -- `errors` without pages
  | page404    -- a custom page for 404 only
  | visible    -- `errors visible`
deriving Repr, DecidableEq

def errPage (m : ErrMode) (s : Nat) : List WOp :=
  [.hdr s, .write (if m = .page404 ∧ s = 404 then .custom 404 else .errText s) false]

/-- `errors`: recovery, visible mode, error pages -/
def errorsW (m : ErrMode) (b : Beh) : Beh :=
  match b.out with
  | .panic =>
    if m = .visible then ⟨b.ops ++ [.hdr 500, .write .debugPanic false], .ret 0 false⟩
    else ⟨b.ops ++ errPage m 500, .ret 0 false⟩
  | .ret s e =>
    if e && m = .visible && s != 0 then ⟨b.ops ++ [.hdr s, .write .debugErr false], .ret 0 true⟩
    else if s ≥ 400 then ⟨b.ops ++ errPage m s, .ret 0 e⟩
    else b

/-- `log`: the recorder is transparent; failover error writer -/
def logW (b : Beh) : Beh :=
  match b.out with
  | .ret s e => if s ≥ 400 then ⟨b.ops ++ errResponse s, .ret 0 e⟩ else b
  | .panic => b

/-- status and body held by the ResponseBuffer -/
def bufStatus : List WOp → Nat
  | .hdr c :: _ => c
  | _ => 200

def bufWrites (ops : List WOp) : List WOp := ops.filter fun o => match o with
  | .write _ _ => true
  | .hdr _ => false

/-- `templates` (its rule matches every path).  The ResponseBuffer decides at the first
WriteHeader/Write whether to buffer: it does for a template extension (`html`), otherwise it
streams.  A handler that never writes leaves it in its initial, buffering, state. -/
def templatesW (html : Bool) (b : Beh) : Beh :=
  let n := norm b.ops
  if !html && !b.ops.isEmpty then ⟨n, b.out⟩
  else
    match b.out with
    | .panic => ⟨[], .panic⟩
    | .ret code e =>
      if code ≥ 300 || e then
        -- bail out; a response the handler below already wrote (code 0) is passed on unrendered
        if code = 0 then ⟨.hdr (bufStatus n) :: bufWrites n, .ret code e⟩ else ⟨[], .ret code e⟩
      else ⟨.hdr (bufStatus n) :: bufWrites n, .ret 0 false⟩

/-- `Server.ServeHTTP`: recover, fallback error response -/
def serverW (b : Beh) : List WOp :=
  match b.out with
  | .panic => b.ops ++ errResponse 500
  | .ret s _ => if s ≥ 400 then b.ops ++ errResponse s else b.ops

/-- what the connection-level ResponseWriter saw -/
structure Resp where
  commits : Nat                  -- WriteHeader calls, explicit or implied by a first Write
  status  : Nat                  -- code of the first one (0: none; net/http then sends 200)
  body    : List (Chunk × Bool)
deriving Repr, DecidableEq

def runGo : Resp → List WOp → Resp
  | r, [] => r
  | r, .hdr c :: ops => runGo { r with commits := r.commits + 1, status := if r.commits = 0 then c else r.status } ops
  | r, .write c e :: ops =>
    let r1 := if r.commits = 0 then { r with commits := 1, status := 200 } else r
    runGo { r1 with body := r1.body ++ [(c, e)] } ops

def runOps (ops : List WOp) : Resp := runGo { commits := 0, status := 0, body := [] } ops

structure Cfg where
  log       : Bool
  gzip      : Bool
  header    : Bool
  errors    : Option ErrMode
  templates : Bool
deriving Repr, DecidableEq

/-- request: has a template/gzip extension (.html), offers gzip -/
structure Req where
  html : Bool
  ae   : Bool
deriving Repr, DecidableEq

/-- httpContext.InspectServerBlocks: a site with `gzip` but without `errors` gets a plain
`errors` directive added (so error pages are written before the gzip writer is closed) -/
def effectiveErrors (c : Cfg) : Option ErrMode :=
  match c.errors with
  | some m => some m
  | none => if c.gzip then some .plain else none

/-- the site's chain in directive order: log, gzip, header, errors, templates, inner -/
def chain (c : Cfg) (r : Req) (i : Inner) : Beh :=
  let b1 := if c.templates then templatesW r.html i.beh else i.beh
  let b2 := match effectiveErrors c with
    | some m => errorsW m b1
    | none => b1
  let b3 := if c.header then headerW b2 else b2
  let b4 := if c.gzip && r.html && r.ae then gzipW b3 else b3
  if c.log then logW b4 else b4

def serve (c : Cfg) (r : Req) (i : Inner) : Resp := runOps (serverW (chain c r i))

end Casket.Mw
