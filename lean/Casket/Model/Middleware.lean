/-
Model of the (status, error) handler contract across composed middleware:
  httpserver/server.go   Server.ServeHTTP (top-level recover, fallback DefaultErrorFunc)
  errors/errors.go       ErrorHandler.ServeHTTP, errorPage, recovery (plain, custom page, visible)
  log/log.go             Logger.ServeHTTP (recorder, failover error writer)
  gzip/gzip.go           Gzip.ServeHTTP (compressing writer, own fallback on the raw writer)
  header/header.go       responseWriterWrapper (WriteHeader once, deferred ops)
  templates/templates.go Templates.ServeHTTP over httpserver.ResponseBuffer (buffer, render or bail out)
The wrappers limits, request_id, rewrite, status, mime and internal do not touch the response of a
request that does not trigger them; they are the identity here (the stream puts them in the real
chain to check exactly that).

A handler is described by its *behaviour*: the calls it makes on the ResponseWriter it is given
(WriteHeader, Write — io.Copy, io.WriteString and a trailing Flush count as Write: that is what the
property demands of every wrapper fast path —, setting/deleting Content-Length) and how it ends
(returns (status, err) or panics).  A wrapper maps the behaviour of the handler below it to its
own.  Bodies are symbolic chunks; `enc` marks bytes that went through the gzip writer.
text/template is abstract: a written body is plain (rendering is the identity), a template that
renders (to `rendered b`), one that does not parse, or one that parses but fails while executing.
Content-Length is tracked symbolically as "the length of chunk c"; the response is well formed
if the value committed with the header describes exactly the body sent (`clOK`).

CORE LEAN ONLY: this file is linked into the model driver.
-/
namespace Casket.Mw

abbrev Bytes := List UInt8

inductive Chunk where
  | inner (b : Bytes)     -- bytes written by the innermost handler
  | rendered (b : Bytes)  -- output of executing the template source b
  | errText (s : Nat)     -- httpserver.DefaultErrorFunc: "<s> <status text>\n"
  | custom (s : Nat)      -- the error page configured for status s
  | debugErr              -- errors visible: "[ERROR <s> <path>] <err>\n"
  | debugPanic            -- errors visible: panic message and stack
deriving Repr, DecidableEq

inductive WOp where
  | hdr (code : Nat)
  | write (c : Chunk) (enc : Bool)
  | setCL (v : Option Chunk)   -- Header().Set("Content-Length", len of chunk) / Del
  | info                       -- WriteHeader(1xx other than 101): an informational header, not the response header
deriving Repr, DecidableEq

/-- what text/template makes of a written body -/
inductive BodyKind where
  | plain      -- no actions: rendering is the identity
  | tplOK      -- parses and executes
  | tplParse   -- does not parse
  | tplExec    -- parses, fails during execution
deriving Repr, DecidableEq

inductive Outcome where
  | ret (status : Nat) (err : Bool)
  | panic
deriving Repr, DecidableEq

structure Beh where
  ops : List WOp
  out : Outcome
deriving Repr, DecidableEq

/-- behaviours of the innermost handler (the `probe` directive scripts them; `write … cl` with
an explicit Content-Length is also what the static file server does) -/
inductive Inner where
  | ret (s : Nat) (err : Bool)                        -- return (s, err) without touching w
  | write (s : Option Nat) (b : Bytes) (err : Bool) (k : BodyKind) (cl : Bool)
      -- [Content-Length: len b]; [WriteHeader(s)]; output b; return (0, err)
  | panicBefore                                       -- panic before touching w
  | panicAfter (s : Option Nat) (b : Bytes)           -- [WriteHeader(s)]; Write(b); panic
deriving Repr, DecidableEq

def wroteOps (s : Option Nat) (b : Bytes) : List WOp :=
  match s with
  | some c => [.hdr c, .write (.inner b) false]
  | none => [.write (.inner b) false]

def clOps (b : Bytes) (cl : Bool) : List WOp := if cl then [.setCL (some (.inner b))] else []

def Inner.beh : Inner → Beh
  | .ret s e => ⟨[], .ret s e⟩
  | .write s b e _ cl => ⟨clOps b cl ++ wroteOps s b, .ret 0 e⟩
  | .panicBefore => ⟨[], .panic⟩
  | .panicAfter s b => ⟨wroteOps s b, .panic⟩

/-- `n` informational headers (103 Early Hints, 102 Processing …) sent before anything else -/
def pre (n : Nat) (b : Beh) : Beh := ⟨List.replicate n .info ++ b.ops, b.out⟩

/-- what a wrapper that remembers `wroteHeader` lets through: the first WriteHeader only, and
an explicit WriteHeader(200) before a Write that comes first -/
def normGo : Bool → List WOp → List WOp
  | _, [] => []
  | true, .hdr _ :: r => normGo true r
  | false, .hdr c :: r => .hdr c :: normGo true r
  | true, .write c e :: r => .write c e :: normGo true r
  | false, .write c e :: r => .hdr 200 :: .write c e :: normGo true r
  | w, .setCL v :: r => .setCL v :: normGo w r
  | w, .info :: r => .info :: normGo w r   -- passed on; the response header proper is still to come

def norm (ops : List WOp) : List WOp := normGo false ops

/-- `header`: responseWriterWrapper -/
def headerW (b : Beh) : Beh := { b with ops := norm b.ops }

def encOp : WOp → WOp
  | .hdr c => .hdr c
  | .write c _ => .write c true
  | .setCL v => .setCL v
  | .info => .info

/-- gzipResponseWriter.WriteHeader deletes Content-Length just before the header goes out -/
def delCL : List WOp → List WOp
  | [] => []
  | .setCL v :: r => .setCL v :: delCL r
  | .info :: r => .info :: delCL r
  | op :: r => .setCL none :: op :: r

def errResponse (s : Nat) : List WOp := [.hdr s, .write (.errText s) false]

/-- `gzip` when it applies to the request and the response is compressible: everything the
handlers below write goes through the compressing writer; an unhandled error status is answered
on the raw writer. -/
def gzipW (b : Beh) : Beh :=
  let ops := delCL ((norm b.ops).map encOp)
  match b.out with
  | .panic => ⟨ops, .panic⟩
  | .ret s e => if s ≥ 400 then ⟨ops ++ errResponse s, .ret 0 e⟩ else ⟨ops, .ret s e⟩

/-- `gzip` when its response filters DECLINE the response (responsefilter.go: ResponseFilterWriter
with shouldCompress = false — `min_length` not met, the response already carries a
Content-Encoding, status 204): the header goes to the underlying writer once (statusCodeWritten),
an explicit 200 before a first Write or Flush, everything uncoded, Content-Length untouched; a
Flush goes straight to the underlying writer.  The fallback for an unhandled error status is the
same as when compressing. -/
def gzipPlainW (b : Beh) : Beh :=
  let ops := norm b.ops
  match b.out with
  | .panic => ⟨ops, .panic⟩
  | .ret s e => if s ≥ 400 then ⟨ops ++ errResponse s, .ret 0 e⟩ else ⟨ops, .ret s e⟩

/-- the header as ResponseFilterWriter.WriteHeader sees it when the decision is taken — at the
first WriteHeader that is not informational, or the first Write / Flush: the status code and the
Content-Length in the header map -/
def firstCommit : Option Chunk → List WOp → Option (Nat × Option Chunk)
  | _, [] => none
  | _, .setCL v :: r => firstCommit v r
  | l, .info :: r => firstCommit l r
  | l, .hdr c :: _ => some (c, l)
  | l, .write _ _ :: _ => some (200, l)

/-- the response filters of a config (setup.go: SkipCompressedFilter always, LengthFilter when
`min_length` is given) and the 204 rule: `true` = compress.  `ce`: the response carries a
Content-Encoding other than identity; `len c`: the number a Content-Length set from chunk `c`
parses to.  No Content-Length, or 0, never meets a `min_length`. -/
def respFilters (minLen : Option Nat) (ce : Bool) (len : Chunk → Nat) (ops : List WOp) : Bool :=
  match firstCommit none ops with
  | none => true   -- nothing committed below: both writers pass on the same calls
  | some (code, l) =>
    code != 204 && !ce &&
      (match minLen with
       | none => true
       | some m => match l with
         | none => false
         | some c => len c != 0 && decide (m ≤ len c))

/-- `gzip` with response filters: they decide (`dec` on the calls made below) between the
compressing and the plain writer -/
def gzipFW (dec : List WOp → Bool) (b : Beh) : Beh := if dec b.ops then gzipW b else gzipPlainW b

inductive ErrMode where
  | plain      -- `errors` without pages
  | page404    -- a custom page for 404 only
  | visible    -- `errors visible`
deriving Repr, DecidableEq

def errPage (m : ErrMode) (s : Nat) : List WOp :=
  [.hdr s, .write (if m = .page404 ∧ s = 404 then .custom 404 else .errText s) false]

/-- `errors`: recovery, visible mode, error pages -/
def errorsW (m : ErrMode) (b : Beh) : Beh :=
  match b.out with
  | .panic =>
    if m = .visible then ⟨b.ops ++ [.hdr 500, .write .debugPanic false], .ret 0 false⟩
    else ⟨b.ops ++ errPage m 500, .ret 0 false⟩
  | .ret s e =>
    if e && m = .visible && s != 0 then ⟨b.ops ++ [.hdr s, .write .debugErr false], .ret 0 true⟩
    else if s ≥ 400 then ⟨b.ops ++ errPage m s, .ret 0 e⟩
    else b

/-- `log`: the recorder is transparent; failover error writer -/
def logW (b : Beh) : Beh :=
  match b.out with
  | .ret s e => if s ≥ 400 then ⟨b.ops ++ errResponse s, .ret 0 e⟩ else b
  | .panic => b

def statusOf (s : Option Nat) : Nat := s.getD 200

/-- `templates` (its rule matches every path) over httpserver.ResponseBuffer.  The buffer decides
at the first WriteHeader/Write whether to buffer: it does for a template extension (`html`),
otherwise it streams (copying the header fields set so far).  A handler that never writes leaves
it in its initial, buffering, state.  A buffered response has its own header map: nothing of it
reaches the real ResponseWriter before templates copies it — after a successful execution, or
when it passes on unrendered what a handler wrote before returning (0, err). -/
def templatesW (html : Bool) (i : Inner) : Beh :=
  let b := i.beh
  if !html && !b.ops.isEmpty then ⟨norm b.ops, b.out⟩
  else
    match i with
    | .ret s e =>
      if s ≥ 300 || e then (if s = 0 then ⟨[.hdr 200], .ret s e⟩ else ⟨[], .ret s e⟩)
      else ⟨[.setCL (some (.inner [])), .hdr 200], .ret 0 false⟩   -- the empty template, rendered
    | .write s bb e k cl =>
      if e then ⟨clOps bb cl ++ [.hdr (statusOf s), .write (.inner bb) false], .ret 0 true⟩
      else match k with
        | .plain => ⟨[.setCL (some (.inner bb)), .hdr (statusOf s), .write (.inner bb) false], .ret 0 false⟩
        | .tplOK => ⟨[.setCL (some (.rendered bb)), .hdr (statusOf s), .write (.rendered bb) false], .ret 0 false⟩
        | .tplParse => ⟨[], .ret 500 true⟩
        | .tplExec => ⟨[], .ret 500 true⟩
    | .panicBefore => ⟨[], .panic⟩
    | .panicAfter _ _ => ⟨[], .panic⟩

/-- `Server.ServeHTTP`: recover, fallback error response -/
def serverW (b : Beh) : List WOp :=
  match b.out with
  | .panic => b.ops ++ errResponse 500
  | .ret s _ => if s ≥ 400 then b.ops ++ errResponse s else b.ops

/-- what the connection-level ResponseWriter saw -/
structure Resp where
  commits : Nat                  -- WriteHeader calls, explicit or implied by a first Write
  status  : Nat                  -- code of the first one (0: none; net/http then sends 200)
  body    : List (Chunk × Bool)
  cl      : Option Chunk         -- Content-Length committed with the header
  live    : Option Chunk         -- Content-Length currently in the header map
deriving Repr, DecidableEq

def runGo : Resp → List WOp → Resp
  | r, [] => r
  | r, .setCL v :: ops => runGo { r with live := v } ops
  | r, .info :: ops => runGo r ops   -- sent at once, commits nothing
  | r, .hdr c :: ops =>
    runGo { r with commits := r.commits + 1, status := if r.commits = 0 then c else r.status,
                   cl := if r.commits = 0 then r.live else r.cl } ops
  | r, .write c e :: ops =>
    let r1 := if r.commits = 0 then { r with commits := 1, status := 200, cl := r.live } else r
    runGo { r1 with body := r1.body ++ [(c, e)] } ops

def fresh : Resp := { commits := 0, status := 0, body := [], cl := none, live := none }

def runOps (ops : List WOp) : Resp := runGo fresh ops

/-- the declared Content-Length describes exactly the body sent -/
def clOK (r : Resp) : Bool :=
  match r.cl with
  | none => true
  | some c => r.body == [(c, false)] || (c == .inner [] && r.body.isEmpty)

structure Cfg where
  log       : Bool
  gzip      : Bool
  header    : Bool
  errors    : Option ErrMode
  templates : Bool
  inject    : Bool := true   -- the site was loaded from a Casketfile (InspectServerBlocks ran)
deriving Repr, DecidableEq

/-- request: has a template/gzip extension (.html), offers gzip, is a HEAD request -/
structure Req where
  html : Bool
  ae   : Bool
  head : Bool := false
deriving Repr, DecidableEq

/-- httpContext.InspectServerBlocks: a site with `gzip` but without `errors` gets a plain
`errors` directive added (so error pages are written before the gzip writer is closed) — when the
site is loaded from a Casketfile; a chain assembled through the httpserver API is taken as it is -/
def effectiveErrors (c : Cfg) : Option ErrMode :=
  match c.errors with
  | some m => some m
  | none => if c.gzip && c.inject then some .plain else none

/-- the site's chain in directive order: log, gzip, header, errors, templates, inner -/
def chain (c : Cfg) (r : Req) (n : Nat) (i : Inner) : Beh :=
  -- the informational headers go out at once through every wrapper (ResponseBuffer included)
  let b1 := pre n (if c.templates then templatesW r.html i else i.beh)
  let b2 := match effectiveErrors c with
    | some m => errorsW m b1
    | none => b1
  let b3 := if c.header then headerW b2 else b2
  let b4 := if c.gzip && r.html && r.ae then gzipW b3 else b3
  if c.log then logW b4 else b4

def serve (c : Cfg) (r : Req) (n : Nat) (i : Inner) : Resp := runOps (serverW (chain c r n i))

/-- the chain with gzip's response filters: `dec` is their verdict on the calls that reach gzip
(`chain` is the instance where they always say "compress") -/
def chainF (dec : List WOp → Bool) (c : Cfg) (r : Req) (n : Nat) (i : Inner) : Beh :=
  let b1 := pre n (if c.templates then templatesW r.html i else i.beh)
  let b2 := match effectiveErrors c with
    | some m => errorsW m b1
    | none => b1
  let b3 := if c.header then headerW b2 else b2
  let b4 := if c.gzip && r.html && r.ae then gzipFW dec b3 else b3
  if c.log then logW b4 else b4

def serveF (dec : List WOp → Bool) (c : Cfg) (r : Req) (n : Nat) (i : Inner) : Resp :=
  runOps (serverW (chainF dec c r n i))

/-! ### what net/http puts on the wire (trusted, as documented)

No body for a HEAD request and for the statuses 204 and 304 — whatever the handlers wrote is
dropped —; Content-Length is not sent with 204 and 304, it is kept for HEAD (it describes the body
a GET would get).  Informational 1xx headers precede the response header and are not part of it;
the model does not have them: the stream sends a 103 before some written responses and expects
the response to be the one without it. -/

def bodiless (head : Bool) (status : Nat) : Bool := head || status = 204 || status = 304

def wire (head : Bool) (r : Resp) : Resp :=
  if bodiless head r.status then
    { r with body := [], cl := if r.status = 204 || r.status = 304 then none else r.cl }
  else r

def serveWire (c : Cfg) (r : Req) (n : Nat) (i : Inner) : Resp := wire r.head (serve c r n i)

def serveWireF (dec : List WOp → Bool) (c : Cfg) (r : Req) (n : Nat) (i : Inner) : Resp :=
  wire r.head (serveF dec c r n i)

/-! ### what outlives a request

The site's middleware chain (`Cfg`) is built once and never written by a request; the `errors`
handler's `Next` is assigned when the chain is compiled.  What a request can touch and leave
behind are pooled scratch objects — the gzip writers of `writerPool` (setup.go), the buffers of
the templates `BufPool` — and the access log.  A pooled object still holds what its last user put
into it; `getWriter` / `buf.Reset()` clear it when it is taken, and the deferred `putWriter` /
`BufPool.Put` return it also when the handler below panics (defers run during the unwinding). -/

structure Pooled where
  id      : Nat          -- which object it is (its address)
  content : List Chunk
deriving Repr, DecidableEq

structure ServerState where
  gzPool   : List Pooled   -- gzip: writerPool[level]
  tplPool  : List Pooled   -- templates: BufPool
  logLines : Nat           -- entries written to the access log so far
  nextId   : Nat           -- objects made so far
deriving Repr, DecidableEq

/-- sync.Pool.Get: a pooled object if there is one, else a new one (`fresh` = its identity) -/
def getObj (fresh : Nat) : List Pooled → Pooled × List Pooled
  | [] => (⟨fresh, []⟩, [])
  | p :: ps => (p, ps)

/-- `buf.Reset()` / `w.Reset(ioutil.Discard)`; `resetOnGet = false` is the hypothetical server
that forgets it (used only to show that the isolation theorem is about this mechanism) -/
def takeClean (resetOnGet : Bool) (p : Pooled) : List Chunk := if resetOnGet then [] else p.content

/-- what a scratch object that was not cleared would add to the output: its old content ahead
of the first bytes written through it -/
def leak (pre : List Chunk) (enc : Bool) : List WOp → List WOp
  | [] => []
  | .write c e :: r => pre.map (fun p => WOp.write p enc) ++ .write c e :: r
  | op :: r => op :: leak pre enc r

/-- templates uses its buffer for this request (otherwise it streams) -/
def tplBuffers (html : Bool) (i : Inner) : Bool := html || i.beh.ops.isEmpty

/-- what the request leaves in the templates buffer -/
def tplLeaves (html : Bool) (i : Inner) : List Chunk :=
  if tplBuffers html i then (templatesW html i).ops.filterMap (fun o => match o with
    | .write c _ => some c
    | _ => none) else []

def templatesSt (pre : List Chunk) (html : Bool) (i : Inner) : Beh :=
  let b := templatesW html i
  if tplBuffers html i then ⟨leak pre false b.ops, b.out⟩ else b

/-- the gzip writer is taken from the pool when the decision to compress is taken, i.e. at
the first WriteHeader / Write of the handlers below -/
def gzUses (b : Beh) : Bool := b.ops.any fun o => match o with
  | .hdr _ => true
  | .write _ _ => true
  | .setCL _ => false
  | .info => false

def gzLeaves (b : Beh) : List Chunk := b.ops.filterMap fun o => match o with
  | .write c _ => some c
  | _ => none

def gzipSt (pre : List Chunk) (b : Beh) : Beh :=
  let g := gzipW b
  ⟨leak pre true g.ops, g.out⟩

/-- the deferred Put: the object taken (or made) for this request goes back into its pool -/
def putBack (fresh : Nat) (used : Bool) (leaves : List Chunk) (pool : List Pooled) : List Pooled :=
  if used then ⟨(getObj fresh pool).1.id, leaves⟩ :: (getObj fresh pool).2 else pool

def logAfter (logged : Bool) (n : Nat) : Nat := if logged then n + 1 else n

/-- one request against the server state: the response, and the state it leaves -/
def serveSt (resetOnGet : Bool) (c : Cfg) (r : Req) (n : Nat) (i : Inner) (st : ServerState) : Resp × ServerState :=
  let tbuf := (getObj st.nextId st.tplPool).1
  let b1 := pre n (if c.templates then templatesSt (takeClean resetOnGet tbuf) r.html i else i.beh)
  let b2 := match effectiveErrors c with
    | some m => errorsW m b1
    | none => b1
  let b3 := if c.header then headerW b2 else b2
  let gz := c.gzip && r.html && r.ae
  let gw := (getObj (st.nextId + 1) st.gzPool).1
  let b4 := if gz then gzipSt (takeClean resetOnGet gw) b3 else b3
  let b5 := if c.log then logW b4 else b4
  (runOps (serverW b5),
   { tplPool := putBack st.nextId c.templates (tplLeaves r.html i) st.tplPool,
     gzPool := putBack (st.nextId + 1) (gz && gzUses b3) (gzLeaves b3) st.gzPool,
     logLines := logAfter (c.log && b4.out != .panic) st.logLines,
     nextId := st.nextId + 2 })

/-- no object is in a pool twice, and none carries an identity not yet handed out -/
def poolsSound (st : ServerState) : Prop :=
  (st.gzPool.map (·.id) ++ st.tplPool.map (·.id)).Nodup ∧
  ∀ p, p ∈ st.gzPool ++ st.tplPool → p.id < st.nextId

/-- a sequence of requests on one server -/
def serveAll (c : Cfg) : ServerState → List (Req × Nat × Inner) → List Resp
  | _, [] => []
  | st, (r, n, i) :: rest =>
    let (resp, st') := serveSt true c r n i st
    resp :: serveAll c st' rest

/-! ### the site as it is WRITTEN

A directive may be written on several lines of a server block.  All lines of one directive reach
its setup function as one token stream, and it builds ONE middleware from them (setup.go of log,
gzip, header, errors, templates): a list of rules / configs, searched in the order written for the
first that matches the request; `errors` merges its lines into one handler.  `Site` is the
configuration as written (what the stream puts into the Casketfile, line by line); `Site.cfg`
computes its MEANING for a request path — which of the wrappers act on this request —, and
`siteChain` is the chain in terms of the rule lists, as the handlers are written.  `siteChain_eq`
(Proofs) shows that it is `chain` of the meaning, so every spelling of the same meaning gets the
same response and every theorem about `serve` is a theorem about every way of writing the site. -/

/-- httpserver.Path.Matches for rule paths without trailing or doubled slashes: "/" and ""
match everything, otherwise a prefix test that ignores letter case (CaseSensitivePath is off) -/
def pathMatches (path scope : String) : Bool :=
  scope == "/" || scope == "" || (scope.toList.map Char.toLower).isPrefixOf (path.toList.map Char.toLower)

/-- one `log` line: `log [<scope>] <out> [<format>]` — only what decides the response is kept
symbolic (the output name and the format are carried along to show that they decide nothing) -/
structure LogLine where
  scope : Option String    -- none: the one-argument form, scope "/"
  out   : String
  fmt   : Option String
deriving Repr, DecidableEq

/-- log.Entry: a format and its httpserver.Logger; `started`: the logger was opened by the
instance's startup callback (`entry.Log.Attach(c)` in setup registers it) — Println on a logger
that was never started dereferences a nil mutex -/
structure LogEntry where
  out     : String
  fmt     : String
  started : Bool
deriving Repr, DecidableEq

structure LogRule where
  scope   : String
  entries : List LogEntry
deriving Repr, DecidableEq

/-- setup.go appendEntry: a line whose scope already has a rule adds an entry to that rule -/
def appendEntry : List LogRule → String → LogEntry → List LogRule
  | [], sc, e => [⟨sc, [e]⟩]
  | r :: rs, sc, e => if r.scope = sc then { r with entries := r.entries ++ [e] } :: rs else r :: appendEntry rs sc e

def logParse (lines : List LogLine) : List LogRule :=
  lines.foldl (fun rules l => appendEntry rules (l.scope.getD "/") ⟨l.out, l.fmt.getD "{common}", false⟩) []

/-- log's setup(): every entry of every rule is attached, whatever output it names -/
def logSetup (lines : List LogLine) : List LogRule :=
  (logParse lines).map fun r => { r with entries := r.entries.map fun e => { e with started := true } }

/-- Logger.ServeHTTP: the first rule whose scope matches the path -/
def logRuleFor (rules : List LogRule) (path : String) : Option LogRule :=
  rules.find? fun r => pathMatches path r.scope

/-- Logger.ServeHTTP for the rule found: no rule — the request is passed on untouched; a rule —
`logW`, then one line per entry (an entry that was not started panics there, after the response) -/
def logRuleW (rule : Option LogRule) (b : Beh) : Beh :=
  match rule with
  | none => b
  | some r => if r.entries.all (·.started) then logW b else ⟨(logW b).ops, .panic⟩

/-- one `gzip` line: the paths excluded with `not`, the level; the extension filter is the default
one (`Req.html` says whether the request passes it) -/
structure GzipLine where
  notPaths : List String
  level    : Option Nat
  minLen   : Option Nat := none   -- `min_length`: a LengthFilter among the response filters
deriving Repr, DecidableEq

/-- Gzip.ServeHTTP: the first config all of whose request filters let the request through -/
def gzipConfigFor (cfgs : List GzipLine) (path : String) (html : Bool) : Option GzipLine :=
  cfgs.find? fun g => !g.notPaths.any (pathMatches path) && html

/-- one `header` line: the path it is for, the number of fields it gives (what the fields are
is not judged: the property allows configured header changes) -/
structure HeaderLine where
  scope  : String
  fields : Nat
deriving Repr, DecidableEq

inductive ErrArg where
  | none | visible | logFile (name : String)
deriving Repr, DecidableEq

/-- one `errors` line: its argument and the statuses its block gives pages for -/
structure ErrLine where
  arg   : ErrArg
  pages : List Nat
deriving Repr, DecidableEq

/-- errors.ErrorHandler as errorsParse leaves it: one handler for all lines -/
structure ErrHandler where
  debug  : Bool
  pages  : List Nat
  logOut : String
deriving Repr, DecidableEq

def errorsParse (lines : List ErrLine) : ErrHandler :=
  lines.foldl (fun h l =>
    let h1 := match l.arg with
      | .none => h
      | .visible => { h with debug := true }
      | .logFile n => { h with logOut := n }
    { h1 with pages := h1.pages ++ l.pages }) ⟨false, [], ""⟩

/-- the modes the model of `errors` has: visible without pages, a page for 404, neither -/
def errModeOf (h : ErrHandler) : ErrMode :=
  if h.debug then .visible else if h.pages.contains 404 then .page404 else .plain

/-- … and the handlers that are one of these modes -/
def ErrHandler.modelled (h : ErrHandler) : Bool :=
  (h.pages == [] || (h.pages == [404] && !h.debug))

/-- one `templates` line: its path; its extension list counts .html and not .bin (the two kinds
of request path the model has) -/
structure TplLine where
  path : String
deriving Repr, DecidableEq

/-- Templates.ServeHTTP: the first rule whose path matches -/
def tplRuleFor (rules : List TplLine) (path : String) : Option TplLine :=
  rules.find? fun t => pathMatches path t.path

structure Site where
  log       : List LogLine
  gzip      : List GzipLine
  header    : List HeaderLine
  errors    : List ErrLine
  templates : List TplLine
  loaded    : Bool := true   -- from a Casketfile (InspectServerBlocks ran)
deriving Repr, DecidableEq

/-- the `errors` handler of the site: the lines written, or — InspectServerBlocks — a plain
`errors` when the site has a `gzip` directive and none of its own -/
def Site.errMode (s : Site) : Option ErrMode :=
  if s.errors.isEmpty then (if !s.gzip.isEmpty && s.loaded then some .plain else none)
  else some (errModeOf (errorsParse s.errors))

def Site.modelled (s : Site) : Bool := (errorsParse s.errors).modelled

/-- the meaning of the site for a request: which wrappers act on it -/
def Site.cfg (s : Site) (path : String) : Cfg :=
  { log := (logRuleFor (logSetup s.log) path).isSome,
    gzip := (s.gzip.any fun g => !g.notPaths.any (pathMatches path)),
    header := !s.header.isEmpty,   -- Headers.ServeHTTP wraps the writer whether or not a rule matches
    errors := s.errMode,
    templates := (tplRuleFor s.templates path).isSome,
    inject := false }

/-- Templates.ServeHTTP for the rule found: none — the request is passed on untouched -/
def tplRuleW (rule : Option TplLine) (html : Bool) (i : Inner) : Beh :=
  match rule with
  | some _ => templatesW html i
  | none => i.beh

/-- Gzip.ServeHTTP for the config found: none ("no matching filter") — passed on untouched -/
def gzipConfigW (cfg : Option GzipLine) (b : Beh) : Beh :=
  match cfg with
  | some _ => gzipW b
  | none => b

def errorsOptW (m : Option ErrMode) (b : Beh) : Beh :=
  match m with
  | some mm => errorsW mm b
  | none => b

/-- the chain in terms of the rule lists: templates (first matching rule), errors (one handler),
header, gzip (first config that lets the request through), log (first matching rule) -/
def siteChain (s : Site) (path : String) (r : Req) (n : Nat) (i : Inner) : Beh :=
  let b1 := pre n (tplRuleW (tplRuleFor s.templates path) r.html i)
  let b2 := errorsOptW s.errMode b1
  let b3 := if s.header.isEmpty then b2 else headerW b2
  let b4 := if r.ae then gzipConfigW (gzipConfigFor s.gzip path r.html) b3 else b3
  logRuleW (logRuleFor (logSetup s.log) path) b4

def siteServe (s : Site) (path : String) (r : Req) (n : Nat) (i : Inner) : Resp :=
  runOps (serverW (siteChain s path r n i))

/-- what gzip's response filters read off the response header: see `respFilters` -/
structure RespFacts where
  len : Chunk → Nat
  ce  : Bool

/-- the response filters of the config found -/
def siteDec (f : RespFacts) (cfg : Option GzipLine) : List WOp → Bool :=
  respFilters (cfg.bind (·.minLen)) f.ce f.len

/-- Gzip.ServeHTTP for the config found, with that config's response filters -/
def gzipConfigWF (f : RespFacts) (cfg : Option GzipLine) (b : Beh) : Beh :=
  match cfg with
  | some _ => gzipFW (siteDec f cfg) b
  | none => b

def siteChainF (f : RespFacts) (s : Site) (path : String) (r : Req) (n : Nat) (i : Inner) : Beh :=
  let b1 := pre n (tplRuleW (tplRuleFor s.templates path) r.html i)
  let b2 := errorsOptW s.errMode b1
  let b3 := if s.header.isEmpty then b2 else headerW b2
  let b4 := if r.ae then gzipConfigWF f (gzipConfigFor s.gzip path r.html) b3 else b3
  logRuleW (logRuleFor (logSetup s.log) path) b4

def siteServeF (f : RespFacts) (s : Site) (path : String) (r : Req) (n : Nat) (i : Inner) : Resp :=
  runOps (serverW (siteChainF f s path r n i))

def siteServeWireF (f : RespFacts) (s : Site) (path : String) (r : Req) (n : Nat) (i : Inner) : Resp :=
  wire r.head (siteServeF f s path r n i)

def siteServeWire (s : Site) (path : String) (r : Req) (n : Nat) (i : Inner) : Resp :=
  wire r.head (siteServe s path r n i)

end Casket.Mw
