/-
Model of caskethttp/log (setup.go: `logParse`, `appendEntry`; log.go: `Logger.ServeHTTP`),
of `ResponseRecorder` (caskethttp/httpserver/recorder.go), of `Logger.ShouldLog`
(httpserver/logger.go) and of the outer layer `Server.ServeHTTP` (httpserver/server.go: panic
recovery and fallback error response).

  * `logParse`: every `log` directive of a server block yields one entry; entries with the same
    path scope share a rule; rules keep the order of first appearance.  An entry's exceptions are
    the `except` paths of ITS OWN directive.
  * `Logger.ServeHTTP`: only the FIRST rule whose scope matches the request path is used (the
    function returns from inside the loop).  The inner handler runs against a recorder; if it
    returns a status >= 400 the middleware writes the error response itself, through the recorder;
    then every entry of that rule whose exceptions do not match writes one line holding the
    recorder's status and size.  A panic of the inner handler leaves the function before any line
    is written.
  * the rule is chosen on the path the middleware receives and the `except` test runs on a copy of
    the URL taken before the inner handler is called: a handler that rewrites the path (in place or
    by replacing `r.URL`) does not influence which logs get a line (`Outcome.newPath` is unused).
  * the recorder keeps the first final status written (a Write without WriteHeader leaves the
    initial 200) and adds up the bytes of every Write; 1xx headers are not recorded.
  * the client side is net/http's ResponseWriter: the first final WriteHeader (or the first Write,
    as 200) fixes the status, later WriteHeader calls are ignored.
  * faults of the writer underneath: a handler may declare a Content-Length (`Op.declare`, in effect
    if set before the header goes out); net/http then REFUSES every Write that would exceed it
    (`http.ErrContentLength`, no byte is sent) — but the header is committed by that Write all the
    same.  The recorder is told whether the Write underneath succeeded (`ok`): a refused Write adds
    nothing to the size and still marks the header as written.

Path matching (`httpserver.Path.Matches`) is a parameter `m`.

CORE LEAN ONLY: this file is linked into the model driver.
-/
namespace Casket.Log

abbrev PathB := List UInt8

/-- one `log` directive as written in the Casketfile -/
structure Directive where
  scope   : PathB
  excepts : List PathB
deriving Repr, DecidableEq

/-- `Entry` (id = index of the directive that made it) with its `Logger.Exceptions` -/
structure Entry where
  id      : Nat
  excepts : List PathB
deriving Repr, DecidableEq

/-- `Rule` -/
structure Rule where
  scope   : PathB
  entries : List Entry
deriving Repr, DecidableEq

/-- `appendEntry` -/
def appendEntry : List Rule → PathB → Entry → List Rule
  | [], scope, e => [{ scope := scope, entries := [e] }]
  | r :: rs, scope, e =>
    if r.scope = scope then { r with entries := r.entries ++ [e] } :: rs
    else r :: appendEntry rs scope e

/-- `logParse`: the loop over `c.Next()`; `i` numbers the directives. -/
def logParseGo : List Directive → Nat → List Rule → List Rule
  | [], _, rules => rules
  | d :: ds, i, rules => logParseGo ds (i + 1) (appendEntry rules d.scope { id := i, excepts := d.excepts })

def logParse (ds : List Directive) : List Rule := logParseGo ds 0 []

/-! ### the response writers -/

/-- what a handler does to its ResponseWriter -/
inductive Op where
  | header (code : Nat)
  | write (n : Nat)
  /-- `w.Header().Set("Content-Length", n)`: the handler announces the body length (as a file
  server does from a stat) -/
  | declare (n : Nat)
deriving Repr, DecidableEq

/-- the inner handler's behaviour on one request -/
structure Outcome where
  ops    : List Op
  ret    : Nat
  panics : Bool
  /-- the handler (or a directive between `log` and it: rewrite, ext, internal) may leave the
  request with another path, by assigning `r.URL.Path` in place or by replacing `r.URL`.
  `Logger.ServeHTTP` took a COPY of the URL before calling it (`preURL := *r.URL`) and decides on
  that copy, so nothing below reads this field. -/
  newPath : Option PathB := none
deriving Repr, DecidableEq

/-- what the client receives -/
structure Client where
  wrote  : Bool := false
  status : Nat := 200
  size   : Nat := 0
  /-- the Content-Length in the header map (`declared`) and the one in effect since the header
  went out (`limit`, net/http's `response.contentLength`) -/
  declared : Option Nat := none
  limit    : Option Nat := none
  /-- net/http's `response.written`: the bytes of every Write call, refused ones included -/
  asked  : Nat := 0
deriving Repr, DecidableEq

/-- 1xx other than 101: sent at once, followed by the final status -/
def informational (code : Nat) : Bool := 100 ≤ code && code ≤ 199 && code != 101

/-- does the writer underneath accept this operation?  Only a Write can be refused: one of n > 0
bytes that takes the bytes asked for beyond the Content-Length in effect (when the header is not
out yet, the declared one comes into effect with this very Write). -/
def Client.accepts (c : Client) : Op → Bool
  | .write n =>
    match (if c.wrote then c.limit else c.declared) with
    | none => true
    | some l => n == 0 || c.asked + n ≤ l
  | _ => true

def Client.apply (c : Client) : Op → Client
  | .header code =>
    if c.wrote || informational code then c else { c with wrote := true, status := code, limit := c.declared }
  | .write n =>
    let ok := c.accepts (.write n)
    let sz := if ok then c.size + n else c.size
    if c.wrote then { c with size := sz, asked := c.asked + n }
    else { c with wrote := true, status := 200, size := sz, limit := c.declared, asked := c.asked + n }
  | .declare n => { c with declared := some n }

/-- `ResponseRecorder` (status starts as 200; `wroteHeader`) -/
structure Recorder where
  wrote  : Bool := false
  status : Nat := 200
  size   : Nat := 0
deriving Repr, DecidableEq

/-- `ResponseRecorder.WriteHeader` / `.Write`; `ok` = the Write of the writer underneath returned
no error.  `wroteHeader` is set BEFORE the Write underneath is attempted: net/http commits the
header on the first Write even when it refuses the bytes.  Header fields go to the header map of
the writer underneath, the recorder keeps nothing of them. -/
def Recorder.apply (r : Recorder) (ok : Bool) : Op → Recorder
  | .header code => if !r.wrote && !informational code then { r with status := code, wrote := true } else r
  | .write n => { r with wrote := true, size := if ok then r.size + n else r.size }
  | .declare _ => r

/-- a handler writing through the recorder: both see every operation -/
def runOps : List Op → Recorder × Client → Recorder × Client
  | [], s => s
  | op :: ops, (r, c) => runOps ops (r.apply (c.accepts op) op, c.apply op)

def clientOps : List Op → Client → Client
  | [], c => c
  | op :: ops, c => clientOps ops (c.apply op)

/-- `DefaultErrorFunc` = `WriteTextResponse(w, status, "<status> <text>\n")`; `errLen` is the
length of that body -/
def errorOps (errLen : Nat → Nat) (status : Nat) : List Op := [.header status, .write (errLen status)]

/-! ### Logger.ServeHTTP -/

/-- `Logger.ShouldLog` -/
def shouldLog (m : PathB → PathB → Bool) (e : Entry) (path : PathB) : Bool :=
  !(e.excepts.any fun exc => m path exc)

/-- one written log line: entry id, `{status}`, `{size}` -/
structure Line where
  entry  : Nat
  status : Nat
  size   : Nat
deriving Repr, DecidableEq

structure Result where
  lines    : List Line
  client   : Client
  ret      : Nat
  panicked : Bool
deriving Repr, DecidableEq

/-- `Logger.ServeHTTP` in front of a handler with outcome `o`, writing to client state `c`. -/
def loggerServe (m : PathB → PathB → Bool) (errLen : Nat → Nat) (rules : List Rule) (path : PathB)
    (o : Outcome) (c : Client) : Result :=
  match rules.find? fun r => m path r.scope with
  | none => { lines := [], client := clientOps o.ops c, ret := o.ret, panicked := o.panics }
  | some rule =>
    let (rec, cl) := runOps o.ops ({}, c)
    if o.panics then { lines := [], client := cl, ret := 0, panicked := true }
    else
      let (rec, cl, ret) :=
        if o.ret ≥ 400 then
          let (rec, cl) := runOps (errorOps errLen o.ret) (rec, cl)
          (rec, cl, 0)
        else (rec, cl, o.ret)
      { lines := rule.entries.filterMap fun e =>
          if shouldLog m e path then some { entry := e.id, status := rec.status, size := rec.size } else none,
        client := cl, ret := ret, panicked := false }

/-- `Server.ServeHTTP` around the chain: a panic is answered with 500, a returned status >= 400
with the default error response. -/
def serverServe (m : PathB → PathB → Bool) (errLen : Nat → Nat) (rules : List Rule) (path : PathB)
    (o : Outcome) : Result :=
  let r := loggerServe m errLen rules path o {}
  if r.panicked then { r with client := clientOps (errorOps errLen 500) r.client }
  else if r.ret ≥ 400 then { r with client := clientOps (errorOps errLen r.ret) r.client }
  else r

/-- The `errors` middleware (caskethttp/errors, default configuration) sitting between `log` and
the handler: it answers a returned status >= 400 itself (through the writer it was given, i.e. the
recorder) and recovers a panic with a 500; either way it returns 0. -/
def withErrors (errLen : Nat → Nat) (o : Outcome) : Outcome :=
  if o.panics then { o with ops := o.ops ++ errorOps errLen 500, ret := 0, panics := false }
  else if o.ret ≥ 400 then { o with ops := o.ops ++ errorOps errLen o.ret, ret := 0, panics := false }
  else o

/-- The `gzip` middleware between `log` and the handler: like `errors` it answers a returned status
>= 400 itself (`DefaultErrorFunc` on the writer it was given) and returns 0; a panic passes through.
The bytes it sends are the COMPRESSED bytes; their number is not computed by the model — statuses
and line counts are, and sizes are compared as differences (see the stream `c20.log`). -/
def withGzip (errLen : Nat → Nat) (o : Outcome) : Outcome :=
  if o.panics then o
  else if o.ret ≥ 400 then { o with ops := o.ops ++ errorOps errLen o.ret, ret := 0 }
  else o

/-- `httpserver.Path.Matches` on clean paths (no `.`/`..`/empty segments — what the stream
generates; the general function is C03's): "/" and "" match everything, otherwise a prefix test on
the lower-cased text (`CaseSensitivePath` is false by default). -/
def lowerByte (b : UInt8) : UInt8 := if 65 ≤ b ∧ b ≤ 90 then b + 32 else b

def isPrefixB : PathB → PathB → Bool
  | [], _ => true
  | _ :: _, [] => false
  | a :: as, b :: bs => a == b && isPrefixB as bs

def cleanPathMatches (p base : PathB) : Bool :=
  base == [47] || base == [] || isPrefixB (base.map lowerByte) (p.map lowerByte)

end Casket.Log
