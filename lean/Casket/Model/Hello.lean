import Casket.Model.Fault
/-
Model of caskethttp/httpserver/mitm.go: `parseRawClientHello` and
`clientHelloConn.Read` (the per-connection ClientHello buffer).

Every index / slice expression of the Go code is a checked operation of
`Casket.Fault`; the guards are the Go guards, in the Go order.  The loop over
extensions carries fuel (`len(data)+1` iterations always suffice; proved).

CORE LEAN ONLY.
-/
namespace Casket.Hello
open Casket.Fault

/-- `rawHelloInfo` (= caskettls.ClientHelloInfo) -/
structure Info where
  version     : Nat := 0
  ciphers     : List Nat := []
  compression : Bytes := []
  extensions  : List Nat := []
  curves      : List Nat := []
  points      : Bytes := []
deriving Repr, DecidableEq, Inhabited

def extensionSupportedCurves : Nat := 10
def extensionSupportedPoints : Nat := 11

/-- `for i := 0; i < n; i++ { out[i] = uint16(data[off+2i])<<8 | uint16(data[off+1+2i]) }` -/
def readU16s (data : Bytes) : Nat → Nat → R (List Nat)
  | _, 0 => .ok []
  | off, n + 1 =>
    match be16 data off with
    | .error e => .error e
    | .ok x =>
      match readU16s data (off + 2) n with
      | .error e => .error e
      | .ok rest => .ok (x :: rest)

/-- `for i := 0; i < numCurves; i++ { c[i] = CurveID(d[0])<<8 | CurveID(d[1]); d = d[2:] }` -/
def readCurves : Bytes → Nat → R (List Nat)
  | _, 0 => .ok []
  | d, n + 1 =>
    match be16 d 0 with
    | .error e => .error e
    | .ok x =>
      match sliceFrom d 2 with
      | .error e => .error e
      | .ok d' =>
        match readCurves d' n with
        | .error e => .error e
        | .ok rest => .ok (x :: rest)

/-- the `switch extension` body.  Result: the info and whether the loop continues
(`false` = the Go code `return`s). -/
def extBody (ext length : Nat) (data : Bytes) (info : Info) : R (Info × Bool) :=
  if ext = extensionSupportedCurves then
    if length < 2 then .ok (info, false) else
    match be16 data 0 with
    | .error e => .error e
    | .ok l =>
      if l % 2 = 1 ∨ length ≠ l + 2 then .ok (info, false) else
      match sliceFrom data 2 with
      | .error e => .error e
      | .ok d =>
        match readCurves d (l / 2) with
        | .error e => .error e
        | .ok cs => .ok ({ info with curves := cs }, true)
  else if ext = extensionSupportedPoints then
    if length < 1 then .ok (info, false) else
    match idx data 0 with
    | .error e => .error e
    | .ok lb =>
      let l := lb.toNat
      if length ≠ l + 1 then .ok (info, false) else
      match sliceFrom data 1 with
      | .error e => .error e
      | .ok src =>
        -- make([]uint8, l); copy(info.Points, data[1:])
        .ok ({ info with points := src.take l ++ List.replicate (l - src.length) 0 }, true)
  else .ok (info, true)

/-- `for len(data) != 0 { … }` -/
def parseExts : Nat → Bytes → Info → R Info
  | 0, _, _ => .error .fuel
  | fuel + 1, data, info =>
    if data.length = 0 then .ok info else
    if data.length < 4 then .ok info else
    match be16 data 0 with
    | .error e => .error e
    | .ok ext =>
      match be16 data 2 with
      | .error e => .error e
      | .ok length =>
        match sliceFrom data 4 with
        | .error e => .error e
        | .ok data =>
          if data.length < length then .ok info else
          let info := { info with extensions := info.extensions ++ [ext] }
          match extBody ext length data info with
          | .error e => .error e
          | .ok (info, false) => .ok info
          | .ok (info, true) =>
            match sliceFrom data length with
            | .error e => .error e
            | .ok data => parseExts fuel data info

/-- after the compression methods -/
def parseTail (data : Bytes) (info : Info) : R Info :=
  if data.length < 2 then .ok info else
  match be16 data 0 with
  | .error e => .error e
  | .ok extLen =>
    match sliceFrom data 2 with
    | .error e => .error e
    | .ok data =>
      if extLen ≠ data.length then .ok info else
      parseExts (data.length + 1) data info

/-- from the compression methods on -/
def parseCompression (data : Bytes) (info : Info) : R Info :=
  if data.length < 1 then .ok info else
  match idx data 0 with
  | .error e => .error e
  | .ok cmb =>
    let cmLen := cmb.toNat
    if data.length < 1 + cmLen then .ok info else
    match slice data 1 (1 + cmLen) with
    | .error e => .error e
    | .ok cm =>
      match sliceFrom data (1 + cmLen) with
      | .error e => .error e
      | .ok data => parseTail data { info with compression := cm }

/-- from the cipher suites on -/
def parseCiphers (data : Bytes) (info : Info) : R Info :=
  if data.length < 2 then .ok info else
  match be16 data 0 with
  | .error e => .error e
  | .ok csLen =>
    if csLen % 2 = 1 ∨ data.length < 2 + csLen then .ok info else
    match readU16s data 2 (csLen / 2) with
    | .error e => .error e
    | .ok cs =>
      match sliceFrom data (2 + csLen) with
      | .error e => .error e
      | .ok data => parseCompression data { info with ciphers := cs }

/-- `parseRawClientHello` -/
def parseRawClientHello (data : Bytes) : R Info :=
  if data.length < 42 then .ok {} else
  match be16 data 4 with
  | .error e => .error e
  | .ok version =>
    let info : Info := { version := version }
    match idx data 38 with
    | .error e => .error e
    | .ok sb =>
      let sidLen := sb.toNat
      if sidLen > 32 ∨ data.length < 39 + sidLen then .ok info else
      match sliceFrom data (39 + sidLen) with
      | .error e => .error e
      | .ok data => parseCiphers data info

/-! ### `clientHelloConn` -/

/-- `clientHelloConn`: the tee buffer, the `readHello` flag and the entry of
`tlsHelloListener.helloInfos` for this connection's remote address. -/
structure Conn where
  buf       : Bytes := []
  readHello : Bool := false
  recorded  : Option Info := none
deriving Repr, DecidableEq

/-- length field of the TLS record header at the front of the buffer (`hdr[3]<<8 | hdr[4]`) -/
def recordLen (buf : Bytes) : R Nat :=
  match slice buf 0 5 with
  | .error e => .error e
  | .ok hdr => be16 hdr 3

/-- One `Read` that delivered `seg` with a nil error.  The header is only
looked at (`c.buf.Bytes()[:5]`); header and message are consumed together once
the whole message is buffered. -/
def Conn.read (c : Conn) (seg : Bytes) : R Conn :=
  if c.readHello then .ok c else
  let buf := c.buf ++ seg
  if buf.length < 5 then .ok { c with buf := buf } else
  match recordLen buf with
  | .error e => .error e
  | .ok length =>
    if buf.length < 5 + length then .ok { c with buf := buf } else
    match slice buf 5 (5 + length) with
    | .error e => .error e
    | .ok hello =>
      match parseRawClientHello hello with
      | .error e => .error e
      | .ok info => .ok { buf := [], readHello := true, recorded := some info }

def Conn.readAll : Conn → List Bytes → R Conn
  | c, [] => .ok c
  | c, s :: ss =>
    match c.read s with
    | .error e => .error e
    | .ok c' => c'.readAll ss

/-- the `helloInfos` entry after a connection in state `c` delivered `segs` -/
def recordedFrom (c : Conn) (segs : List Bytes) : R (Option Info) :=
  match c.readAll segs with
  | .error e => .error e
  | .ok c => .ok c.recorded

/-- what ends up in `helloInfos` after a fresh connection delivered `segs` -/
def recorded (segs : List Bytes) : R (Option Info) := recordedFrom {} segs

/-! ### `bufpool` and several connections through one `tlsHelloListener`

`tlsHelloListener.Accept` takes the capture buffer of a new connection from `bufpool` (a
`sync.Pool` of `*bytes.Buffer`) and `Reset`s it; `clientHelloConn.Read` hands it back once the
ClientHello is complete — still holding whatever arrived after the message in the same reads.
`clientHelloConn` has no `Close` of its own: a connection that goes away before its hello is
complete leaves its buffer to the garbage collector.  `sync.Pool` promises nothing about which
pooled buffer `Get` returns; that choice is a parameter (`k`) of the model. -/

/-- the buffers that were `Put` back, each with the bytes still in it -/
structure Pool where
  free : List Bytes := []
deriving Repr, DecidableEq

/-- `bufpool.Get()`: the `k`-th pooled buffer, or `New` (an empty buffer) if there is none -/
def Pool.get (p : Pool) (k : Nat) : Bytes × Pool :=
  match p.free[k]? with
  | some b => (b, { free := p.free.eraseIdx k })
  | none => ([], p)

/-- `bufpool.Put(buf)` -/
def Pool.put (p : Pool) (b : Bytes) : Pool := { free := b :: p.free }

/-- `buf.Reset()` -/
def bufReset (_ : Bytes) : Bytes := []

/-- `Accept`: `buf := bufpool.Get().(*bytes.Buffer); buf.Reset(); &clientHelloConn{…, buf: buf}` -/
def acceptConn (p : Pool) (k : Nat) : Conn × Pool :=
  let (b, p') := p.get k
  ({ buf := bufReset b }, p')

/-- `Conn.read` with the pool it touches: `c.buf.Next(5); io.ReadFull(c.buf, hello);
bufpool.Put(c.buf)` — the buffer goes back holding the bytes that followed the message. -/
def Conn.readP (c : Conn) (p : Pool) (seg : Bytes) : R (Conn × Pool) :=
  if c.readHello then .ok (c, p) else
  let buf := c.buf ++ seg
  if buf.length < 5 then .ok ({ c with buf := buf }, p) else
  match recordLen buf with
  | .error e => .error e
  | .ok length =>
    if buf.length < 5 + length then .ok ({ c with buf := buf }, p) else
    match slice buf 5 (5 + length) with
    | .error e => .error e
    | .ok hello =>
      match parseRawClientHello hello with
      | .error e => .error e
      | .ok info =>
        .ok ({ buf := [], readHello := true, recorded := some info }, p.put (buf.drop (5 + length)))

/-- `Close` of a `clientHelloConn` is the embedded `net.Conn`'s: the pool is not touched -/
def Conn.closeP (_ : Conn) (p : Pool) : Pool := p

/-- what happens at a listener, in the order it happens: connection `i` is accepted (the pool
hands out its `k`-th buffer), one `Read` of connection `i` delivers `seg`, connection `i` is closed -/
inductive Step where
  | accept (i k : Nat)
  | read (i : Nat) (seg : Bytes)
  | close (i : Nat)
deriving Repr, DecidableEq

structure ConnSt where
  conn   : Conn
  closed : Bool := false

/-- `bufpool` and the connections of one `tlsHelloListener` (`conns i = none`: never accepted).
`(conns i).conn.recorded` is the `helloInfos` entry of connection `i`'s remote address. -/
structure Listener where
  pool  : Pool := {}
  conns : Nat → Option ConnSt := fun _ => none

def setConn (f : Nat → Option ConnSt) (i : Nat) (s : ConnSt) : Nat → Option ConnSt :=
  fun j => if j = i then some s else f j

/-- one step; accepting an id twice, reading or closing a connection that is not open do nothing -/
def Listener.step (l : Listener) : Step → R Listener
  | .accept i k =>
    match l.conns i with
    | some _ => .ok l
    | none =>
      let (c, p) := acceptConn l.pool k
      .ok { pool := p, conns := setConn l.conns i { conn := c } }
  | .read i seg =>
    match l.conns i with
    | some { conn := c, closed := false } =>
      match c.readP l.pool seg with
      | .error e => .error e
      | .ok (c', p) => .ok { pool := p, conns := setConn l.conns i { conn := c' } }
    | _ => .ok l
  | .close i =>
    match l.conns i with
    | some { conn := c, closed := false } =>
      .ok { pool := c.closeP l.pool, conns := setConn l.conns i { conn := c, closed := true } }
    | _ => .ok l

def Listener.run : Listener → List Step → R Listener
  | l, [] => .ok l
  | l, s :: ss =>
    match l.step s with
    | .error e => .error e
    | .ok l' => l'.run ss

/-- the `helloInfos` entry of connection `i` -/
def Listener.recordedOf (l : Listener) (i : Nat) : Option Info :=
  match l.conns i with
  | some s => s.conn.recorded
  | none => none

/-- the entries of connections `0 … n-1` after the steps, starting with the pool `p` -/
def recordedSeq (p : Pool) (steps : List Step) (n : Nat) : R (List (Option Info)) :=
  match Listener.run { pool := p } steps with
  | .error e => .error e
  | .ok l => .ok ((List.range n).map l.recordedOf)

end Casket.Hello
