import Casket.Model.VHost
import Casket.Model.AutoHTTPSAddr
/-
C01 through the real loader: Casketfile site addresses → `InspectServerBlocks`
(standardizeAddress, Normalize, Key, duplicate rejection — the model of slice I,
`Casket.AutoHTTPS.inspect`, reused as is) → `MakeServers`/`groupSiteConfigsByListenAddr`
(one listener per port; no `bind`, default `-host`/`-port` flags, no TLS) → `NewServer` per
group (the C01 trie model) → a request on one listener.

CORE LEAN ONLY: linked into the model driver.
-/
namespace Casket.VHostStack
open Casket.VHost

def toNats (b : Casket.AutoHTTPS.Bytes) : Bytes := b.map UInt8.toNat

/-- the port a site listens on: its own, else the default `-port` -/
def listenPort (a : Casket.AutoHTTPS.Address) : Casket.AutoHTTPS.Bytes :=
  if a.port.isEmpty then Casket.Generated.defaultPort else a.port

/-- the SiteConfig `NewServer` sees for a parsed address -/
def siteOfAddr (a : Casket.AutoHTTPS.Address) : Site :=
  { key := toNats a.original, fallback := false, addrHost := toNats a.host }

/-- the sites of the listener on `port`, with their positions in the Casketfile -/
def groupOf : List Casket.AutoHTTPS.Address → Casket.AutoHTTPS.Bytes → Nat → List (Casket.AutoHTTPS.Address × Nat)
  | [], _, _ => []
  | a :: rest, port, i =>
    if listenPort a = port then (a, i) :: groupOf rest port (i + 1) else groupOf rest port (i + 1)

inductive StackOutcome where
  | loadError (e : Casket.AutoHTTPS.AddrErr)   -- InspectServerBlocks rejects the Casketfile
  | noListener                                 -- no site listens on that port
  | site (i : Nat) (pathPrefix : Bytes)        -- i = position of the site address in the Casketfile
  | notFound (status : Nat)
deriving Repr, DecidableEq

def stackRoute (addrs : List Casket.AutoHTTPS.Bytes) (port : Casket.AutoHTTPS.Bytes) (r : Req) : StackOutcome :=
  match Casket.AutoHTTPS.inspect addrs with
  | .error e => .loadError e
  | .ok as =>
    match groupOf as port 0 with
    | [] => .noListener
    | g =>
      match route (g.map (fun p => siteOfAddr p.1)) r with
      | .notFound st => .notFound st
      | .site j pfx =>
        match g[j]? with
        | some p => .site p.2 pfx
        | none => .notFound 0    -- unreachable: route answers an index of its site list

end Casket.VHostStack
