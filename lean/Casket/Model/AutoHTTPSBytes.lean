/-
Byte strings and the handful of Go `strings` functions the C15 models use.
Go strings are byte sequences; every model of C15 works on `List UInt8`.
Core Lean only (this file is linked into the model driver).
-/
namespace Casket.AutoHTTPS

abbrev Bytes := List UInt8

open Lean in
/-- `b!"text"` = the UTF-8 bytes of the literal as an explicit `List UInt8` (expanded at elaboration time,
so the kernel sees numerals, not a `String`). -/
macro:max "b!" s:str : term => do
  let bytes := s.getString.toUTF8.toList
  let elems ← bytes.mapM fun b => `(($(Syntax.mkNumLit (toString b.toNat)) : UInt8))
  `(([$(elems.toArray),*] : List UInt8))

/-- strings.HasPrefix -/
def hasPrefix (s p : Bytes) : Bool := p.isPrefixOf s
/-- strings.HasSuffix -/
def hasSuffix (s p : Bytes) : Bool := p.isSuffixOf s
/-- strings.IndexByte(s, c) >= 0 -/
def hasByte (s : Bytes) (c : UInt8) : Bool := s.contains c
/-- strings.ContainsAny with an ASCII character set -/
def containsAny (s chars : Bytes) : Bool := s.any fun c => chars.contains c
/-- strings.Count(s, string(c)) -/
def countByte (s : Bytes) (c : UInt8) : Nat := s.count c
/-- strings.IndexByte -/
def indexByte (s : Bytes) (c : UInt8) : Option Nat := s.findIdx? (· == c)
/-- strings.LastIndexByte -/
def lastIndexByte (s : Bytes) (c : UInt8) : Option Nat :=
  (s.reverse.findIdx? (· == c)).map fun r => s.length - 1 - r

def lowerByte (b : UInt8) : UInt8 := if 65 ≤ b ∧ b ≤ 90 then b + 32 else b
/-- strings.ToLower restricted to its effect on ASCII letters.  (Go also maps non-ASCII runes and replaces
invalid UTF-8; no rune outside ASCII maps to a byte that occurs in any constant the models compare with, see docs/C15.md.) -/
def toLower (s : Bytes) : Bytes := s.map lowerByte

/-- strings.Trim(s, cutset) with an ASCII cutset -/
def trimCutset (s cut : Bytes) : Bytes :=
  ((s.dropWhile cut.contains).reverse.dropWhile cut.contains).reverse

/-- strings.Index(s, sub) >= 0 -/
def containsSub : Bytes → Bytes → Bool
  | [], sub => sub.isEmpty
  | c :: t, sub => sub.isPrefixOf (c :: t) || containsSub t sub

/-- strings.Replace(s, old, new, 1) -/
def replaceFirst : Bytes → Bytes → Bytes → Bytes
  | [], old, new => if old.isEmpty then new else []
  | c :: t, old, new =>
    if old.isPrefixOf (c :: t) then new ++ (c :: t).drop old.length else c :: replaceFirst t old new

/-- strings.Cut(s, string(c)): (before, after, found) -/
def cutByte (s : Bytes) (c : UInt8) : Bytes × Bytes × Bool :=
  match indexByte s c with
  | none => (s, [], false)
  | some i => (s.take i, s.drop (i + 1), true)

def isDigit (c : UInt8) : Bool := 48 ≤ c && c ≤ 57
def isHexDigit (c : UInt8) : Bool := isDigit c || (97 ≤ c && c ≤ 102) || (65 ≤ c && c ≤ 70)
def isAlpha (c : UInt8) : Bool := (97 ≤ c && c ≤ 122) || (65 ≤ c && c ≤ 90)
def hexVal (c : UInt8) : Nat :=
  if isDigit c then c.toNat - 48 else if 97 ≤ c && c ≤ 102 then c.toNat - 87 else c.toNat - 55

/-- decimal text of a byte value (what strconv gives for 0…255) -/
def decByte (n : Nat) : Bytes :=
  if n ≥ 100 then [UInt8.ofNat (48 + n / 100), UInt8.ofNat (48 + n / 10 % 10), UInt8.ofNat (48 + n % 10)]
  else if n ≥ 10 then [UInt8.ofNat (48 + n / 10), UInt8.ofNat (48 + n % 10)]
  else [UInt8.ofNat (48 + n)]

def hexDigitLower (n : Nat) : UInt8 := if n < 10 then UInt8.ofNat (48 + n) else UInt8.ofNat (87 + n)
def hexDigitUpper (n : Nat) : UInt8 := if n < 10 then UInt8.ofNat (48 + n) else UInt8.ofNat (55 + n)

def joinWith (sep : Bytes) : List Bytes → Bytes
  | [] => []
  | [x] => x
  | x :: rest => x ++ sep ++ joinWith sep rest

end Casket.AutoHTTPS
