import Casket.Model.AutoHTTPS
/-
Model of site-address handling in caskethttp/httpserver/plugin.go:
  standardizeAddress (with the part of net/url.Parse it exercises), Address.Normalize, Address.Key,
  Address.VHost, Address.String, and the address bookkeeping of InspectServerBlocks
  (duplicate site key / duplicate site address), for the default host and port flags.

Domain: address strings made of printable ASCII without '#', '?', '%', '@' (`inAddrDomain`).
Inside that domain net/url.Parse has no query, fragment, userinfo or escapes, and the model follows
it branch by branch (Go 1.23).  Outside it the model answers `outOfModel`; the stream c15.addr applies the same guard.
Core Lean only.
-/
namespace Casket.AutoHTTPS
open Casket.Generated

def inAddrDomain (s : Bytes) : Bool :=
  s.all fun c => 0x21 ≤ c && c ≤ 0x7e && c != 35 && c != 63 && c != 37 && c != 64

inductive AddrErr | url | convention | dupKey | dupAddr | outOfModel
  deriving Repr, DecidableEq, Inhabited

structure Address where
  original : Bytes := []
  scheme : Bytes := []
  host : Bytes := []
  port : Bytes := []
  path : Bytes := []
  deriving Repr, DecidableEq, Inhabited

/-- net/url getScheme: (scheme, rest) or none = "missing protocol scheme" -/
def getSchemeGo : Bytes → Bytes → Nat → Option (Bytes × Bytes)
  | [], whole, _ => some ([], whole)
  | c :: t, whole, i =>
    if isAlpha c then getSchemeGo t whole (i + 1)
    else if isDigit c || c == 43 || c == 45 || c == 46 then
      if i == 0 then some ([], whole) else getSchemeGo t whole (i + 1)
    else if c == 58 then
      if i == 0 then none else some (whole.take i, t)
    else some ([], whole)

def getScheme (s : Bytes) : Option (Bytes × Bytes) := getSchemeGo s s 0

/-- net/url validOptionalPort -/
def validOptionalPort : Bytes → Bool
  | [] => true
  | c :: t => c == 58 && t.all isDigit

/-- bytes net/url accepts unescaped in a host (shouldEscape(c, encodeHost) = false), for ASCII c -/
def hostByteOK (c : UInt8) : Bool :=
  isAlpha c || isDigit c || (b!"!$&'()*+,;=:[]<>\"-_.~").contains c

/-- net/url parseHost for hosts without '%': the host unchanged, or none on error -/
def parseHost (h : Bytes) : Option Bytes :=
  let portOK :=
    if hasPrefix h b!"[" then
      match lastIndexByte h 93 with
      | none => false
      | some i => validOptionalPort (h.drop (i + 1))
    else match lastIndexByte h 58 with
      | none => true
      | some i => validOptionalPort (h.drop i)
  if !portOK then none
  else if h.all (fun c => c ≥ 0x80 || hostByteOK c) then some h else none

/-- net/url.Parse for strings of the address domain: (scheme, host, path) or none on error.
An opaque URL (scheme, no leading slash) has empty host and path. -/
def urlParse (raw : Bytes) : Option (Bytes × Bytes × Bytes) :=
  if raw == b!"*" then some ([], [], b!"*")
  else match getScheme raw with
    | none => none
    | some (scheme, rest) =>
      let scheme := toLower scheme
      if !hasPrefix rest b!"/" then
        if !scheme.isEmpty then some (scheme, [], [])                          -- opaque
        else if hasByte (cutByte rest 47).1 58 then none                       -- first path segment cannot contain colon
        else some (scheme, [], rest)
      else if (!scheme.isEmpty || !hasPrefix rest b!"///") && hasPrefix rest b!"//" then
        let r := rest.drop 2
        let (authority, path) := match indexByte r 47 with
          | none => (r, [])
          | some i => (r.take i, r.drop i)
        match parseHost authority with
        | none => none
        | some h => some (scheme, h, path)
      else some (scheme, [], rest)

/-- how standardizeAddress separates host and port of the URL's host: SplitHostPort, then SplitHostPort with ":" appended
(no port written), else the whole thing -/
def splitURLHost (uhost : Bytes) : Bytes × Bytes :=
  match splitHostPort uhost with
  | some hp => hp
  | none => match splitHostPort (uhost ++ b!":") with
    | some hp => hp
    | none => (uhost, [])

/-- the second half of standardizeAddress, after net/url.Parse: host/port split, port from the scheme, the convention
check, scheme from the port -/
def finishStandardize (input scheme uhost path : Bytes) : Except AddrErr Address :=
  let (host, port) := splitURLHost uhost
  let port := if port.isEmpty then
      (if scheme == b!"http" then httpPort else if scheme == b!"https" then httpsPort else port)
    else port
  if (scheme == b!"http" && port == httpsPort) || (scheme == b!"https" && port == httpPort) then .error .convention
  else
    let scheme := if scheme.isEmpty then
        (if port == httpPort then b!"http" else if port == httpsPort then b!"https" else scheme)
      else scheme
    .ok { original := input, scheme := scheme, host := host, port := port, path := path }

/-- the address text as net/url.Parse sees it: service names replaced by port numbers, "//" prepended unless the text
contains "//" or starts with "/" -/
def urlText (input : Bytes) : Bytes :=
  let str := replaceFirst input b!":https" (b!":" ++ httpsPort)
  let str := replaceFirst str b!":http" (b!":" ++ httpPort)
  if !containsSub str b!"//" && !hasPrefix str b!"/" then b!"//" ++ str else str

/-- standardizeAddress -/
def standardizeAddress (input : Bytes) : Except AddrErr Address :=
  if !inAddrDomain input then .error .outOfModel
  else
    match urlParse (urlText input) with
    | none => .error .url
    | some (scheme, uhost, path) => finishStandardize input scheme uhost path

/-- what Address.Normalize does to an IP-literal host before lower-casing: net.ParseIP(host).String() -/
def canonHost (h : Bytes) : Bytes :=
  match parseIP h with
  | some ip => ipString ip
  | none => h

/-- Address.Normalize (CaseSensitivePath = false, its default) -/
def Address.normalize (a : Address) : Address :=
  let host := match parseIP a.host with
    | some ip => ipString ip
    | none => a.host
  { a with scheme := toLower a.scheme, host := toLower host, path := toLower a.path }

/-- Address.Key -/
def Address.key (a : Address) : Bytes :=
  let res := (if a.scheme.isEmpty then [] else a.scheme ++ b!"://") ++ a.host
  let res := if !a.port.isEmpty && a.original.length ≥ res.length &&
      hasPrefix (a.original.drop res.length) (b!":" ++ a.port) then res ++ b!":" ++ a.port else res
  res ++ a.path

/-- Address.VHost -/
def indexSub : Bytes → Bytes → Nat → Option Nat
  | [], sub, i => if sub.isEmpty then some i else none
  | c :: t, sub, i => if sub.isPrefixOf (c :: t) then some i else indexSub t sub (i + 1)

def Address.vhost (a : Address) : Bytes :=
  match indexSub a.original b!"://" 0 with
  | some i => a.original.drop (i + 3)
  | none => a.original

/-- Address.String -/
def Address.string (a : Address) : Bytes :=
  if a.host.isEmpty && a.port.isEmpty then []
  else
    let scheme := if a.scheme.isEmpty then (if a.port == httpsPort then b!"https" else b!"http") else a.scheme
    let s := scheme ++ b!"://"
    let s := if !a.port.isEmpty &&
        ((scheme == b!"https" && a.port != defaultHTTPSPort) || (scheme == b!"http" && a.port != defaultHTTPPort))
      then s ++ joinHostPort a.host a.port else s ++ a.host
    s ++ a.path

/-- the address with the default port filled in (`addrCopy` of InspectServerBlocks) -/
def Address.filled (a : Address) : Address :=
  let copy := if a.port.isEmpty then { a with port := defaultPort } else a
  if copy.path == b!"/" then { copy with path := [] } else copy   -- "host" and "host/" are one site (fix 76cc3c3)

/-- the text under which InspectServerBlocks books a site in `siteAddrs`: Address.String with the default port filled in -/
def Address.siteString (a : Address) : Bytes := a.filled.string

/-- standardizeAddress then Normalize: the Address InspectServerBlocks works with (none = standardizeAddress fails) -/
def normalizedAddr (k : Bytes) : Option Address :=
  match standardizeAddress k with
  | .ok a => some a.normalize
  | .error _ => none

/-- the address bookkeeping of InspectServerBlocks over the keys in order (host and port flags at their defaults):
`keys`/`addrs` = the maps keysToSiteConfigs / siteAddrs so far -/
def inspectGo : List Bytes → List Bytes → List Bytes → List Address → Except AddrErr (List Address)
  | [], _, _, acc => .ok acc.reverse
  | k :: rest, keys, addrs, acc =>
    match standardizeAddress k with
    | .error e => .error e
    | .ok a =>
      let a := a.normalize
      let key := a.key
      if keys.contains key then .error .dupKey
      else
        let copy := if a.port.isEmpty then { a with port := defaultPort } else a
        let copy := if copy.path == b!"/" then { copy with path := [] } else copy   -- "host" and "host/" are one site
        let s := copy.string
        if addrs.contains s then .error .dupAddr
        else inspectGo rest (key :: keys) (s :: addrs) (a :: acc)

def inspect (ks : List Bytes) : Except AddrErr (List Address) := inspectGo ks [] [] []

/-- the SiteConfig InspectServerBlocks creates for an address, after `bind` and `tls` have run -/
def siteOf (a : Address) (bind : Bytes) (v : TLSVariant) : Site :=
  applyTLS v { scheme := a.scheme, host := a.host, port := a.port, listen := bind }

/-- the same for a site block with several `tls` directives, in the order of the Casketfile -/
def siteOfL (a : Address) (bind : Bytes) (vs : List TLSVariant) : Site :=
  applyTLSs vs { scheme := a.scheme, host := a.host, port := a.port, listen := bind }

/-- setupTLS fails for `tls self_signed` on a site without host name ("self-signed: certificate has no names"),
which aborts the load; the certificate is generated after the directive loop, so not when a `tls off` returned before
(`enabled` is false exactly then, whenever a self_signed directive was read) -/
def directiveError (c : Site) : Bool := c.selfSigned && c.host.isEmpty && c.enabled

/-! ## the same functions with the configured HTTP / HTTPS ports as a parameter

`standardizeAddress`, `Address.String` and `InspectServerBlocks` read certmagic.HTTPPort / HTTPSPort (flags -http-port, -https-port);
the functions above are these at the default ports `Ports.std` (see `standardizeAddressP_std` etc. in Proofs). -/

def finishStandardizeP (P : Ports) (input scheme uhost path : Bytes) : Except AddrErr Address :=
  let (host, port) := splitURLHost uhost
  let port := if port.isEmpty then
      (if scheme == b!"http" then P.http else if scheme == b!"https" then P.https else port)
    else port
  if (scheme == b!"http" && port == P.https) || (scheme == b!"https" && port == P.http) then .error .convention
  else
    let scheme := if scheme.isEmpty then
        (if port == P.http then b!"http" else if port == P.https then b!"https" else scheme)
      else scheme
    .ok { original := input, scheme := scheme, host := host, port := port, path := path }

def urlTextP (P : Ports) (input : Bytes) : Bytes :=
  let str := replaceFirst input b!":https" (b!":" ++ P.https)
  let str := replaceFirst str b!":http" (b!":" ++ P.http)
  if !containsSub str b!"//" && !hasPrefix str b!"/" then b!"//" ++ str else str

/-- standardizeAddress with configured ports -/
def standardizeAddressP (P : Ports) (input : Bytes) : Except AddrErr Address :=
  if !inAddrDomain input then .error .outOfModel
  else
    match urlParse (urlTextP P input) with
    | none => .error .url
    | some (scheme, uhost, path) => finishStandardizeP P input scheme uhost path

/-- Address.String with configured ports: the missing scheme is inferred with the CONFIGURED HTTPS port, while the port is left
out when it equals the CONSTANT DefaultHTTPSPort / DefaultHTTPPort (as the code does) -/
def Address.stringP (P : Ports) (a : Address) : Bytes :=
  if a.host.isEmpty && a.port.isEmpty then []
  else
    let scheme := if a.scheme.isEmpty then (if a.port == P.https then b!"https" else b!"http") else a.scheme
    let s := scheme ++ b!"://"
    let s := if !a.port.isEmpty &&
        ((scheme == b!"https" && a.port != defaultHTTPSPort) || (scheme == b!"http" && a.port != defaultHTTPPort))
      then s ++ joinHostPort a.host a.port else s ++ a.host
    s ++ a.path

def Address.siteStringP (P : Ports) (a : Address) : Bytes := a.filled.stringP P

def normalizedAddrP (P : Ports) (k : Bytes) : Option Address :=
  match standardizeAddressP P k with
  | .ok a => some a.normalize
  | .error _ => none

def inspectGoP (P : Ports) : List Bytes → List Bytes → List Bytes → List Address → Except AddrErr (List Address)
  | [], _, _, acc => .ok acc.reverse
  | k :: rest, keys, addrs, acc =>
    match standardizeAddressP P k with
    | .error e => .error e
    | .ok a =>
      let a := a.normalize
      let key := a.key
      if keys.contains key then .error .dupKey
      else
        let s := a.siteStringP P
        if addrs.contains s then .error .dupAddr
        else inspectGoP P rest (key :: keys) (s :: addrs) (a :: acc)

def inspectP (P : Ports) (ks : List Bytes) : Except AddrErr (List Address) := inspectGoP P ks [] [] []

end Casket.AutoHTTPS
