import Casket.Model.FS
/-
Model of the file-serving path of a casket site (C02):

  httpserver/server.go   serveHTTP: site path prefix match and `trimPathPrefix`
  browse/browse.go       Browse.ServeHTTP, ServeListing, ServeArchive (+ statik `fs.Walk`)
  staticfiles/fileserver.go  FileServer.ServeHTTP / serveFile / IsHidden
  httpserver/plugin.go   hideCasketfile

as one function from (file system, site configuration, raw request) to an abstract
response.  It follows the code as it is on the verified branch, i.e. including the repairs
made there (archives and precompressed siblings honour the hide list; browse trims `//`
before redirecting; `trimPathPrefix` no longer re-parses the trimmed path as a URL with an
authority).

Not modelled: permissions (403), symbolic links, Range/conditional requests handled by
`http.ServeContent`, cookies of browse, the effective `limit=` truncation of a listing (the
model lists every visible entry, a superset), listing order, archive entry order.

CORE LEAN ONLY.
-/
namespace Casket.FileServe
open Casket.Path Casket.FS

structure BrowseCfg where
  scope : Bytes
  archives : List Bytes       -- `servearchive` types enabled for this scope
deriving Repr, DecidableEq

structure Site where
  root : List Bytes                 -- elements of the absolute, cleaned site root
  hide : List Bytes                 -- SiteConfig.HiddenFiles (paths relative to the root)
  indexPages : List Bytes
  encodings : List (Bytes × Bytes)  -- staticEncodingPriority: (name, extension)
  pathPrefix : Bytes                -- path of the site address; "/" when it has none
  browse : List BrowseCfg           -- in Casketfile order
deriving Repr

structure Req where
  method : Bytes
  url : Url
  acceptEncoding : Bytes
deriving Repr

/-- one entry of an archive: name inside the archive (elements), and the inode whose content
it carries (`none` for a directory entry) -/
structure Item where
  name : List Bytes
  content : Option Nat
deriving Repr, DecidableEq

inductive Resp
  | status (code : Nat)                         -- no resource content (error text only)
  | redirect (code : Nat) (loc : Bytes)
  | file (ino : Nat) (enc : Option Bytes)       -- 200, body = content of that inode
  | listing (names : List Bytes)                -- 200, directory listing
  | archive (items : List Item)                 -- 200, streamed archive
deriving Repr, DecidableEq

def mGET : Bytes := b! "GET"
def mHEAD : Bytes := b! "HEAD"
def mOPTIONS : Bytes := b! "OPTIONS"
def mPROPFIND : Bytes := b! "PROPFIND"

/-- `for strings.HasPrefix(p, "//") { p = strings.TrimPrefix(p, "/") }` -/
def trimSlashes (p : Bytes) : Bytes :=
  match p with
  | 47 :: rest => slash :: rest.dropWhile (· = slash)
  | _ => p

/-- `hideCasketfile`: the Casketfile is hidden when its absolute path has the absolute root
as a (byte) prefix. -/
def hideCasketfile (absRoot absCasketfile : Bytes) : List Bytes :=
  if absCasketfile = [] then []
  else if hasPrefix absCasketfile absRoot then [trimPrefix absCasketfile absRoot] else []

/-! ### staticfiles -/

/-- the client lists `name` in Accept-Encoding (exact match after trimming spaces) -/
def accepts (acceptEncoding name : Bytes) : Bool :=
  (splitOn 44 acceptEncoding).any fun a => trimSpace a = name

/-- first index page that opens: the entry and the path it was opened under -/
def findIndex (fs : FS) (root : List Bytes) (reqPath : Bytes) : List Bytes → Option (Entry × Bytes)
  | [] => none
  | ip :: rest =>
    let p := join2 reqPath ip
    match dirOpen fs root p with
    | .ok e => some (e, p)
    | .error _ => findIndex fs root reqPath rest

/-- first accepted precompressed sibling that opens, is a regular file and is not hidden -/
def findSibling (fs : FS) (site : Site) (reqPath acceptEncoding : Bytes) : List (Bytes × Bytes) → Option (Bytes × Entry)
  | [] => none
  | (name, ext) :: rest =>
    if accepts acceptEncoding name then
      match dirOpen fs site.root (reqPath ++ ext) with
      | .ok e =>
        if e.isDir || isHidden fs site.root site.hide e.ino then findSibling fs site reqPath acceptEncoding rest
        else some (name, e)
      | .error _ => findSibling fs site reqPath acceptEncoding rest
    else findSibling fs site reqPath acceptEncoding rest

/-- the path `serveFile` redirects on: the site's path prefix put back in front ("/" if empty) -/
def fullPath (site : Site) (reqPath : Bytes) : Bytes :=
  let up := if site.pathPrefix ≠ [slash] then site.pathPrefix ++ reqPath else reqPath
  if up = [] then [slash] else up

/-- "use contents of an index file, if present, for directory requests": the entry served and
the path it was opened under -/
def resolveIndex (fs : FS) (site : Site) (d : Entry) (reqPath : Bytes) : Entry × Bytes :=
  if d.isDir then
    match findIndex fs site.root reqPath site.indexPages with
    | some ep => ep
    | none => (d, reqPath)
  else (d, reqPath)

/-- the part of `serveFile` after the canonical-path redirects -/
def staticContent (fs : FS) (site : Site) (r : Req) (d : Entry) (reqPath : Bytes) : Resp :=
  let dp := resolveIndex fs site d reqPath
  if dp.1.isDir || isHidden fs site.root site.hide dp.1.ino then .status 404
  else
    match findSibling fs site dp.2 r.acceptEncoding site.encodings with
    | some ne => .file ne.2.ino (some ne.1)
    | none => .file dp.1.ino none

/-- `FileServer.ServeHTTP` -/
def staticServe (fs : FS) (site : Site) (r : Req) : Resp :=
  if r.method ≠ mGET ∧ r.method ≠ mHEAD then .status 405
  else
    let reqPath := r.url.path
    match dirOpen fs site.root reqPath with
    | .error .notExist => .status 404
    | .error .other => .status 503
    | .ok d =>
      let up := fullPath site reqPath
      if d.isDir ∧ up.getLast? ≠ some slash then
        .redirect 307 (redirectLocation reqPath (urlString { r.url with path := trimSlashes up ++ [slash] }))
      else if !d.isDir ∧ up.getLast? = some slash then
        .redirect 307 (redirectLocation reqPath (urlString { r.url with path := trimSlashes up.dropLast }))
      else staticContent fs site r d reqPath

/-! ### browse -/

/-- `fs.Walk` + the `ServeArchive` callback below directory `d` (depth bounded by `fuel`):
hidden entries are skipped (a hidden directory with everything below it). `pre` is the
archive name of `d`. -/
def walk (fs : FS) (site : Site) : Nat → List Bytes → List Bytes → List Item
  | 0, _, _ => []
  | fuel + 1, d, pre =>
    (readdir fs d).flatMap fun c =>
      if isHidden fs site.root site.hide c.ino then []
      else if c.isDir then
        { name := pre ++ [c.name], content := none } :: walk fs site fuel c.path (pre ++ [c.name])
      else [{ name := pre ++ [c.name], content := some c.ino }]

/-- `strconv.Atoi` succeeds -/
def atoiOk (s : Bytes) : Bool :=
  let (neg, ds) := match s with
    | 45 :: r => (true, r)
    | 43 :: r => (false, r)
    | _ => (false, s)
  ds ≠ [] && ds.all (fun c => 48 ≤ c ∧ c ≤ 57) &&
    (let v := ds.foldl (fun acc c => acc * 10 + (c.toNat - 48)) 0
     if neg then v ≤ 9223372036854775808 else v ≤ 9223372036854775807)

/-- `Browse.ServeListing` for an open directory `info` -/
def serveListing (fs : FS) (site : Site) (bc : BrowseCfg) (r : Req) (info : Entry) : Resp :=
  let items := readdir fs info.path
  if items.any (fun e => site.indexPages.contains e.name) then staticServe fs site r
  else
    let arch := queryGet r.url.rawQuery (b! "archive")
    if arch ≠ [] then
      if bc.archives.contains arch then
        let rel := jailElems (clean r.url.path)
        .archive (walk fs site (fs.length + 1) info.path (match rel.getLast? with | some l => [l] | none => []))
      else .status 404
    else
      let limit := queryGet r.url.rawQuery (b! "limit")
      if limit ≠ [] ∧ !atoiOk limit then .status 400
      else .listing ((items.filter fun e => !isHidden fs site.root site.hide e.ino).map Entry.name)

/-- `Browse.ServeHTTP` followed by the static file server (`Next`) -/
def browseServe (fs : FS) (site : Site) (r : Req) : Resp :=
  match site.browse.find? (fun bc => pathMatches r.url.path bc.scope) with
  | none => staticServe fs site r
  | some bc =>
    match dirOpen fs site.root r.url.path with
    | .error _ => staticServe fs site r
    | .ok info =>
      if !info.isDir then staticServe fs site r
      else if r.method = mGET ∨ r.method = mHEAD then
        let p := if r.url.path = [] then [slash] else r.url.path
        if p.getLast? ≠ some slash then
          .redirect 301 (redirectLocation r.url.path (urlString { r.url with path := trimSlashes p ++ [slash] }))
        else serveListing fs site bc r info
      else if r.method = mPROPFIND ∨ r.method = mOPTIONS then .status 501
      else staticServe fs site r

/-! ### server.go -/

/-- `trimPathPrefix` -/
def trimPathPrefix (u : Url) (pre : Bytes) : Url :=
  let t := trimPrefix (escapedPath u) pre
  let t := if hasPrefix t [slash] then t else slash :: t
  match setPath t with
  | none => u
  | some (p, rp) => { u with path := p, rawPath := rp }

/-- One request through a single-site server: parse the request target, match the site's path
prefix, strip it, run browse → static files. -/
def serve (fs : FS) (site : Site) (method target acceptEncoding : Bytes) : Resp :=
  match parseRequestURI target with
  | none => .status 400
  | some u =>
    if site.pathPrefix = [slash] then browseServe fs site { method := method, url := u, acceptEncoding := acceptEncoding }
    else if !hasPrefix u.path site.pathPrefix then .status 404
    else browseServe fs site { method := method, url := trimPathPrefix u site.pathPrefix, acceptEncoding := acceptEncoding }

end Casket.FileServe
