/-
Model of caskethttp/httpserver/vhosttrie.go and of the routing part of
server.go (`NewServer`'s trie construction, `serveHTTP`'s lookup and
`WriteSiteNotFound`).

Strings are lists of byte values (`Nat`; the driver feeds values < 256).
`strings.ToLower` is modelled on ASCII only (hosts outside ASCII are outside the
model; the streams do not generate them).

The Go trie is a tree of `map[string]*vhostTrie`: the root map is keyed by host
names, every level below by one path byte.  Here the root map is an association
list and the per-host path trie is a first-child/next-sibling tree
(`PTrie.node c val child sibling`: an edge labelled `c` to a node holding `val`
whose own edges are `child`, followed by the remaining edges `sibling` of the
same parent), so that plain structural recursion works.

CORE LEAN ONLY: this file is linked into the model driver.
-/
namespace Casket.VHost

abbrev Bytes := List Nat

def cColon : Nat := 58
def cSlash : Nat := 47
def cDot : Nat := 46
def cStar : Nat := 42
def cLbr : Nat := 91
def cRbr : Nat := 93

/-- ASCII part of `strings.ToLower` -/
def lowerByte (b : Nat) : Nat := if 65 ≤ b ∧ b ≤ 90 then b + 32 else b
def lower (s : Bytes) : Bytes := s.map lowerByte

/-! ### net.SplitHostPort (host result only; `none` = any error) -/

/-- split at the last `:` -/
def splitLastColon : Bytes → Option (Bytes × Bytes)
  | [] => none
  | c :: rest =>
    match splitLastColon rest with
    | some (a, b) => some (c :: a, b)
    | none => if c = cColon then some ([], rest) else none

/-- `net.SplitHostPort`: the port starts after the last colon; a leading `[` demands the
first `]` right before that colon; no further brackets; an unbracketed host has no colon. -/
def splitHostPort (s : Bytes) : Option Bytes :=
  if !s.contains cColon then none          -- missing port
  else match s with
  | [] => none
  | c :: rest =>
    if c = cLbr then
      match rest.dropWhile (· != cRbr) with
      | [] => none                          -- missing ']'
      | _ :: after =>
        match after with
        | [] => none                        -- missing port
        | d :: p =>
          if d = cColon ∧ !p.contains cColon then
            if rest.contains cLbr then none        -- unexpected '['
            else if after.contains cRbr then none  -- unexpected ']'
            else some (rest.takeWhile (· != cRbr))
          else none                         -- too many colons / missing port
    else
      match splitLastColon s with
      | none => none
      | some (h, _) =>
        if h.contains cColon then none      -- too many colons
        else if s.contains cLbr then none
        else if s.contains cRbr then none
        else some h

/-- `host, _, err := net.SplitHostPort(x); if err != nil { host = x }` -/
def stripPort (s : Bytes) : Bytes := (splitHostPort s).getD s

/-- a bracketed IP literal without port: `[v6]` ↦ `v6` (anything else unchanged) -/
def stripBrackets (s : Bytes) : Bytes :=
  match s with
  | [] => s
  | c :: rest =>
    if c = cLbr ∧ rest.getLast? = some cRbr then rest.dropLast else s

/-- `vhostTrie.splitHostPath`: host = lower-cased text before the first `/` with the port
stripped (and, when there was no port, the brackets of an IP literal dropped);
path = `/` + the rest. -/
def splitHostPath (key : Bytes) : Bytes × Bytes :=
  let h := lower (key.takeWhile (· != cSlash))
  let rest := (key.dropWhile (· != cSlash)).drop 1
  let host := match splitHostPort h with
    | some hn => hn
    | none => stripBrackets h
  (host, cSlash :: rest)

/-! ### labels and wildcard candidates (`matchHost`) -/

/-- `strings.Split(s, ".")` -/
def splitDot : Bytes → List Bytes
  | [] => [[]]
  | c :: rest =>
    if c = cDot then [] :: splitDot rest
    else match splitDot rest with
      | [] => [[c]]       -- unreachable: splitDot is never empty
      | l :: ls => (c :: l) :: ls

/-- `strings.Join(ls, ".")` -/
def joinDot : List Bytes → Bytes
  | [] => []
  | [l] => l
  | l :: ls => l ++ cDot :: joinDot ls

/-- the host with its first `k` labels replaced by `*` -/
def wildcard (k : Nat) (labels : List Bytes) : Bytes :=
  joinDot (List.replicate k [cStar] ++ labels.drop k)

/-- the keys `matchHost` looks up, in order: the host itself, then
`labels[0..i] = "*"` for `i = 0 … n-1` -/
def hostCands (host : Bytes) : List Bytes :=
  let labels := splitDot host
  host :: (List.range labels.length).map (fun i => wildcard (i + 1) labels)

/-! ### the path trie -/

/-- what a trie node carries: the site (index in declaration order) and `node.path` -/
abbrev Val := Nat × Bytes

inductive PTrie where
  | nil : PTrie
  | node (c : Nat) (val : Option Val) (child sibling : PTrie) : PTrie
deriving Repr

namespace PTrie

/-- `t.edges[c]` -/
def find (c : Nat) : PTrie → Option (Option Val × PTrie)
  | nil => none
  | node d val child sib => if c = d then some (val, child) else find c sib

/-- get-or-create `t.edges[c]` and replace that node by `f` of it -/
def update (c : Nat) (f : Option Val → PTrie → Option Val × PTrie) : PTrie → PTrie
  | nil => node c (f none nil).1 (f none nil).2 nil
  | node d val child sib =>
    if c = d then node d (f val child).1 (f val child).2 sib
    else node d val child (update c f sib)

/-- `insertPath(remaining, original, site)` below a host node -/
def ins : Bytes → Val → PTrie → PTrie
  | [], _, t => t
  | [c], v, t => t.update c (fun _ ch => (some v, ch))
  | c :: rest, v, t => t.update c (fun val ch => (val, ins rest v ch))

/-- `matchPath`: walk the bytes of the path while edges exist, remembering the
last node that carries a site -/
def matchPath : PTrie → Bytes → Option Val → Option Val
  | _, [], best => best
  | t, c :: rest, best =>
    match t.find c with
    | none => best
    | some (val, child) => matchPath child rest (if val.isSome then val else best)

end PTrie

/-! ### the root map and `Match` -/

abbrev Root := List (Bytes × PTrie)

def rootLookup (r : Root) (h : Bytes) : Option PTrie :=
  match r with
  | [] => none
  | (k, t) :: rest => if k = h then some t else rootLookup rest h

/-- `if _, ok := t.edges[host]; !ok { t.edges[host] = newVHostTrie() }; t.edges[host].insertPath(…)` -/
def rootInsert (r : Root) (h p : Bytes) (v : Val) : Root :=
  match r with
  | [] => [(h, PTrie.nil.ins p v)]
  | (k, t) :: rest => if k = h then (k, t.ins p v) :: rest else (k, t) :: rootInsert rest h p v

structure Trie where
  fallbacks : List Bytes
  root : Root

/-- `Address.VHost()`: the original address text after the first `://`, if any -/
def afterScheme : Bytes → Option Bytes
  | [] => none
  | c :: rest => if (c :: rest).take 3 = [58, 47, 47] then some (rest.drop 2) else afterScheme rest

def vhostOf (original : Bytes) : Bytes := (afterScheme original).getD original

/-- `vhostTrie.Insert(key, site)` -/
def Trie.insert (t : Trie) (key : Bytes) (site : Nat) : Trie :=
  let hp := splitHostPath key
  { t with root := rootInsert t.root hp.1 hp.2 (site, hp.2) }

/-- `matchHost` -/
def matchHost (r : Root) (host : Bytes) : Option PTrie :=
  (hostCands host).findSome? (rootLookup r)

/-- `vhostTrie.Match`: the given host, then the fallback hosts, each by `matchHost`;
then the longest path below the first branch found (no second try on a path miss). -/
def Trie.match_ (t : Trie) (key : Bytes) : Option Val :=
  let hp := splitHostPath key
  match (hp.1 :: t.fallbacks).findSome? (matchHost t.root) with
  | none => none
  | some branch => branch.matchPath hp.2 none

/-! ### NewServer / serveHTTP -/

/-- A site as `NewServer` sees it: `Addr.VHost()` (the address text without scheme),
the `FallbackSite` flag and `Addr.Host`. -/
structure Site where
  key : Bytes         -- Addr.Original
  fallback : Bool
  addrHost : Bytes
deriving Repr

structure Req where
  host : Bytes        -- r.Host
  path : Bytes        -- r.URL.Path
  protoMajor : Nat
deriving Repr

inductive Outcome where
  | site (i : Nat) (pathPrefix : Bytes)   -- exactly the chain of site `i` ran
  | notFound (status : Nat)               -- WriteSiteNotFound; no chain ran
deriving Repr, DecidableEq

/-- `newVHostTrie().fallbackHosts` (regenerated and compared in Props/C01) -/
def defaultFallbacks : List Bytes :=
  [[48, 46, 48, 46, 48, 46, 48], [58, 58], []]   -- "0.0.0.0", "::", ""

def insertAll : Trie → List Site → Nat → Trie
  | t, [], _ => t
  | t, s :: rest, i => insertAll (t.insert (vhostOf s.key) i) rest (i + 1)

/-- `NewServer`: fallback list = defaults ++ `getFallbacks(group)`; sites inserted in order -/
def newServer (sites : List Site) : Trie :=
  insertAll { fallbacks := defaultFallbacks ++ (sites.filter (·.fallback)).map (·.addrHost), root := [] } sites 0

def notFoundStatus (protoMajor : Nat) : Nat := if protoMajor ≥ 2 then 421 else 404

/-- `serveHTTP` up to the hand-over to the site's middleware chain -/
def route (sites : List Site) (r : Req) : Outcome :=
  let hostname := stripPort r.host
  match (newServer sites).match_ (hostname ++ r.path) with
  | none => .notFound (notFoundStatus r.protoMajor)
  | some (i, pfx) => .site i pfx

/-- several requests through one routing table, in order (`vhostTrie.Match` keeps no state) -/
def lookups (t : Trie) (qs : List Bytes) : List (Option Val) := qs.map t.match_

/-- judge of c01.seq: the answers of a sequence of lookups through one trie against the answers
the same lookups get one by one on a fresh trie -/
def seqVerdict (seq fresh : List String) : String :=
  if seq == fresh then "ok"
  else "bad:history:the site that answers a request depends on the requests made before it"

end Casket.VHost
