/-
basicauth rules that reach a request THROUGH the directive's setup (C19; seeded regression
C19-htpasswd-cached-nil-matcher): `GetHtpasswdMatcher` (caskethttp/basicauth/basicauth.go) hands the
setup a `PasswordMatcher` — a Go func value, `nil` when the user is not in the parsed table — and an
error; `BasicAuth.ServeHTTP` calls `rule.Password(password)` as soon as the peer's Authorization
header names the rule's user.  A nil matcher that got past the setup is a nil-func call on bytes the
peer chose.  The model keeps the matcher as an `Option` (none = nil func) so that "the handler never
calls a nil matcher" is a theorem about setup + serve over a whole HISTORY of loads sharing the
process-wide cache, not a property of one call.

One htpasswd file (the cache is keyed by path; different files do not interact).  A disk state is
`none` (no file) or a stamp (mtime, size) with the table parsed from it.  Users and passwords are
numbers (index into the harness' name tables).

CORE LEAN ONLY.
-/
namespace Casket.AuthCfg

/-- a parsed htpasswd file in file order: (user, password) -/
abbrev Table := List (Nat × Nat)

/-- `pm[user]`: the last line for the user; none = the map has no entry (a nil func) -/
def Table.lookup (t : Table) (u : Nat) : Option Nat :=
  (t.reverse.find? (fun e => e.1 == u)).map (·.2)

structure Disk where
  stamp : Nat
  table : Table
deriving Repr

/-- `htpasswords[filename]` with `htpasswordStamps[filename]` -/
abbrev Cache := Option (Nat × Table)

/-- the stale-entry test at the head of `GetHtpasswdMatcher` -/
def dropStale (d : Option Disk) (c : Cache) : Cache :=
  match c, d with
  | some (st, t), some dk => if dk.stamp = st then some (st, t) else none
  | _, _ => none

/-- the tail of `GetHtpasswdMatcher`: `if pm[username] == nil { return nil, err }; return pm[username], nil`.
`none` = error, `some m` = the returned matcher (m = none would be a nil func returned WITHOUT an error). -/
def finish (m : Option Nat) : Option (Option Nat) := if m.isNone then none else some m

/-- `GetHtpasswdMatcher(file, user, root)` -/
def getMatcher (d : Option Disk) (u : Nat) (c : Cache) : Option (Option Nat) × Cache :=
  match dropStale d c with
  | some (st, t) => (finish (t.lookup u), some (st, t))
  | none =>
    match d with
    | none => (none, none)                                  -- open fails
    | some dk => (finish (dk.table.lookup u), some (dk.stamp, dk.table))

/-- an installed rule: the user and the matcher the setup stored in `Rule.Password` -/
abbrev Rule := Nat × Option Nat

/-- the directive's setup over the rules of one load, in file order; the first error refuses the load
(the cache keeps what was parsed up to then) -/
def setup (d : Option Disk) : List Nat → Cache → Option (List Rule) × Cache
  | [], c => (some [], c)
  | u :: us, c =>
    match getMatcher d u c with
    | (none, c1) => (none, c1)
    | (some m, c1) =>
      match setup d us c1 with
      | (none, c2) => (none, c2)
      | (some rs, c2) => (some ((u, m) :: rs), c2)

inductive Outcome
  | panic            -- a nil `rule.Password` was called
  | code (c : Nat)   -- 200 (passed on) or 401
deriving Repr, DecidableEq

/-- `BasicAuth.ServeHTTP` for a protected path: `auth` = what `r.BasicAuth()` delivered -/
def serveGo : List Rule → Option (Nat × Nat) → Bool → Outcome
  | [], _, ok => .code (if ok then 200 else 401)
  | (u, m) :: rs, auth, ok =>
    match auth with
    | none => serveGo rs auth ok
    | some (au, pw) =>
      if au ≠ u then serveGo rs auth ok
      else match m with
        | none => .panic
        | some p => serveGo rs auth (ok || p == pw)

/-- a load without basicauth rules protects nothing: the request is passed on -/
def serve (rs : List Rule) (auth : Option (Nat × Nat)) : Outcome :=
  match rs with
  | [] => .code 200
  | _ :: _ => serveGo rs auth false

/-- one configuration load of a history: the file on disk at that moment and the users of the rules -/
abbrev Load := Option Disk × List Nat

/-- a history of loads through the process-wide cache; per load: refused, or the outcome of the
request against the handler that load installed -/
def run (auth : Option (Nat × Nat)) : List Load → Cache → List (Option Outcome)
  | [], _ => []
  | (d, us) :: ls, c =>
    match setup d us c with
    | (none, c1) => none :: run auth ls c1
    | (some rs, c1) => some (serve rs auth) :: run auth ls c1

def showOutcome : Option Outcome → String
  | none => "refused"
  | some .panic => "PANIC:model"
  | some (.code c) => s!"code={c}"

/-- the judge of c19.authcfg on decoded outcomes: the property clause is "request handling does not panic" -/
def verdict (os : List (Option Outcome)) : String :=
  if os.any (fun o => decide (o = some Outcome.panic)) then "bad:panic:basicauth called a nil password matcher" else "ok"

end Casket.AuthCfg
