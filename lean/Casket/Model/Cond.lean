import Casket.Model.FileServe
/-
Conditional and range requests on the static file server (C02, deepening).

`serveFile` sets `ETag` from size and mtime of the file it SERVES (the precompressed sibling if
one was substituted) and hands `http.ServeContent` the mtime of the file it RESOLVED (the named
file or index page).  `ServeContent` then evaluates If-None-Match / If-Modified-Since / Range.
Modelled here (cheap part): If-None-Match with entity tags naming fixture inodes, `*` and garbage;
If-Modified-Since as a number of seconds; a single byte range; the 304 / 206 / 416 outcomes and
which file each header identifies.  If-Match, If-Unmodified-Since, If-Range and multi-range
requests are EXPLORED only: the model predicts which files the headers identify, not the status.

Fixture convention (harness): a regular file with inode `i` has content `@@i@@` + `i` bytes of
padding + newline (size `fileSize i`, all distinct) and mtime `100*i` seconds after a base time,
so that ETag, Last-Modified, Content-Length and Content-Range each identify one inode.

CORE LEAN ONLY.
-/
namespace Casket.Cond
open Casket.Path Casket.FS Casket.FileServe

inductive InmItem
  | star
  | strong (k : Nat)     -- the entity tag casket would set for inode k
  | weak (k : Nat)       -- the same with W/ in front
  | garbage              -- not an entity tag: scanning stops here
deriving Repr, DecidableEq

inductive RangeSpec
  | fromTo (a b : Nat)   -- bytes=a-b
  | fromOn (a : Nat)     -- bytes=a-
  | suffix (n : Nat)     -- bytes=-n
  | garbage              -- not a byte range
deriving Repr, DecidableEq

structure Cond where
  inm : List InmItem              -- [] = no If-None-Match header
  ims : Option (Option Nat)       -- none = no header; some none = unparsable; some (some t) = t seconds after the base
  range : Option RangeSpec
  explored : Bool                 -- some header outside the model is present
deriving Repr

def digits (n : Nat) : Nat := (toString n).length

/-- size of the fixture file with inode `i` -/
def fileSize (i : Nat) : Nat := 5 + digits i + i

/-- mtime of the fixture file with inode `i`, seconds after the base -/
def fileMtime (i : Nat) : Nat := 100 * i

inductive RangeResult
  | full                      -- no usable range: whole content
  | part (a b : Nat)          -- 206, bytes a..b inclusive
  | noOverlap                 -- 416 with Content-Range: bytes */size
  | invalid                   -- 416
deriving Repr, DecidableEq

/-- `parseRange` + the single-range branch of `serveContent` -/
def rangeResult (size : Nat) : RangeSpec → RangeResult
  | .garbage => .invalid
  | .suffix n =>
    let n := if n > size then size else n
    .part (size - n) (size - 1)     -- `-0` gives the empty range size..size-1, as in Go
  | .fromOn a => if a ≥ size then (if size = 0 then .full else .noOverlap) else .part a (size - 1)
  | .fromTo a b =>
    if a ≥ size then (if size = 0 then .full else .noOverlap)
    else if a > b then .invalid
    else .part a (if b ≥ size then size - 1 else b)

/-- `checkIfNoneMatch` against the ETag of inode `f`: true = some tag matched (condFalse) -/
def inmMatches (f : Nat) : List InmItem → Bool
  | [] => false
  | .star :: _ => true
  | .strong k :: rest => k = f || inmMatches f rest
  | .weak k :: rest => k = f || inmMatches f rest
  | .garbage :: _ => false

inductive CondResp
  | plain (r : Resp)                                   -- not a 200 file answer: conditions play no role
  | notModified (f : Nat)                              -- 304: ETag of f, no Last-Modified
  | full (f : Nat) (enc : Option Bytes) (d : Nat)      -- 200: content/ETag/Content-Length of f, Last-Modified of d
  | part (f : Nat) (enc : Option Bytes) (d : Nat) (a b : Nat)   -- 206
  | unsatisfiable (f : Option Nat)                     -- 416; Content-Range */size names f when the range did not overlap
  | explored (f d : Nat)                               -- headers outside the model: ETag of f, Last-Modified of d
deriving Repr, DecidableEq

/-- `checkIfModifiedSince` says "not modified" -/
def imsHit (c : Cond) (d : Nat) : Bool :=
  match c.ims with
  | some (some t) => decide (fileMtime d ≤ t)
  | _ => false

/-- the Range part of `serveContent` -/
def rangeOutcome (f : Nat) (enc : Option Bytes) (d : Nat) : Option RangeSpec → CondResp
  | none => .full f enc d
  | some spec =>
    match rangeResult (fileSize f) spec with
    | .full => .full f enc d
    | .part a b => .part f enc d a b
    | .noOverlap => .unsatisfiable (some f)
    | .invalid => .unsatisfiable none

/-- `http.ServeContent` as called by `serveFile`, for the served inode `f` and the resolved inode `d` -/
def applyCond (c : Cond) (f : Nat) (enc : Option Bytes) (d : Nat) : CondResp :=
  if c.explored then .explored f d
  else if inmMatches f c.inm then .notModified f
  else if c.inm = [] ∧ imsHit c d = true then .notModified f
  else rangeOutcome f enc d c.range

/-- the file `serveFile` resolved before looking for siblings (its mtime goes into Last-Modified) -/
def resolvedIno (fs : FS) (site : Site) (u : Url) : Nat :=
  match dirOpen fs site.root u.path with
  | .ok d => (resolveIndex fs site d u.path).1.ino
  | .error _ => 0

def siteUrl (site : Site) (target : Bytes) : Option Url :=
  match parseRequestURI target with
  | none => none
  | some u =>
    if site.pathPrefix = [slash] then some u
    else if !hasPrefix u.path site.pathPrefix then none
    else some (trimPathPrefix u site.pathPrefix)

/-- One request with conditional / range headers through a single-site server. -/
def serveCond (fs : FS) (site : Site) (method target acceptEncoding : Bytes) (c : Cond) : CondResp :=
  match serve fs site method target acceptEncoding with
  | .file f enc =>
    match siteUrl site target with
    | some u => applyCond c f enc (resolvedIno fs site u)
    | none => .plain (.file f enc)
  | r => .plain r

end Casket.Cond
