/-
Model of caskethttp/limits (handler.go: maxBytesReader, Limit.ServeHTTP; setup.go:
addPathLimit, SortPathLimits), of httpserver.Path.Matches (path.go), of the listener-wide
merges in httpserver/server.go (makeHTTPServerWithTimeouts, makeHTTPServerWithHeaderLimit)
and of the 413 mapping of proxy.ServeHTTP.

Byte strings are `List UInt8`; paths are assumed ASCII (Go's strings.ToLower is modelled on
ASCII letters only).  The underlying request body is a *scripted reader*: the bytes it will
yield, the maximal size of each successive underlying Read, whether the last bytes arrive
together with the end-of-stream error, and which error ends the stream.

CORE LEAN ONLY: this file is linked into the model driver.
-/
namespace Casket.Limits

abbrev Bytes := List UInt8

/-! ### the body reader -/

/-- errors a Read can return: io.EOF, httpserver.ErrMaxBytesExceeded, any other transport error -/
inductive RErr where
  | eof | tooLarge | other
deriving Repr, DecidableEq

/-- The reader under the limit (`l.r`): a well-behaved `io.Reader` that yields `data`, at most
`script[i]` bytes in its i-th call (exhausted script = no bound), and ends with `endErr`
(io.EOF normally, `other` for an aborted upload), delivered together with the last bytes when
`errWithLast`. -/
structure Under where
  data        : Bytes
  script      : List Nat
  errWithLast : Bool
  endErr      : RErr
deriving Repr, DecidableEq

/-- how many bytes the next underlying Read may return into a buffer of `k` bytes -/
def chunk (script : List Nat) (k : Nat) : Nat :=
  match script with
  | [] => k
  | c :: _ => min k c

/-- one `l.r.Read(p)` with `len(p) = k` -/
def Under.read (u : Under) (k : Nat) : Bytes × Option RErr × Under :=
  if u.data.isEmpty then ([], some u.endErr, u)
  else
    let m := chunk u.script k
    let out := u.data.take m
    let rest := u.data.drop m
    let u' := { u with data := rest, script := u.script.tail }
    if rest.isEmpty && u.errWithLast then (out, some u.endErr, u') else (out, none, u')

/-- `maxBytesReader`: `n` bytes remaining, sticky `err`, underlying reader. -/
structure MBR where
  n     : Nat
  err   : Option RErr
  under : Under
deriving Repr, DecidableEq

/-- `maxBytesReader.Read(p)` with `len(p) = plen`. -/
def MBR.read (l : MBR) (plen : Nat) : Bytes × Option RErr × MBR :=
  match l.err with
  | some e => ([], some e, l)
  | none =>
    if plen = 0 then ([], none, l)
    else
      let k := if plen > l.n + 1 then l.n + 1 else plen
      let (bs, e, u') := l.under.read k
      if bs.length ≤ l.n then (bs, e, { n := l.n - bs.length, err := e, under := u' })
      else (bs.take l.n, some .tooLarge, { n := 0, err := some .tooLarge, under := u' })

/-- What the handler does with `r.Body`: successive Reads with the given buffer sizes.
The trace lists every Read's result. -/
def MBR.run (l : MBR) : List Nat → List (Bytes × Option RErr)
  | [] => []
  | b :: bs =>
    let (out, e, l') := l.read b
    (out, e) :: MBR.run l' bs

/-- the same loop on the bare underlying reader (no limit configured for the path) -/
def Under.run (u : Under) : List Nat → List (Bytes × Option RErr)
  | [] => []
  | b :: bs =>
    if b = 0 then ([], none) :: Under.run u bs   -- Go readers return 0, nil for an empty buffer
    else
      let (out, e, u') := u.read b
      (out, e) :: Under.run u' bs

abbrev Trace := List (Bytes × Option RErr)

def delivered (t : Trace) : Bytes := t.flatMap (·.1)

def firstErr : Trace → Option RErr
  | [] => none
  | (_, some e) :: _ => some e
  | (_, none) :: t => firstErr t

/-! ### path scopes -/

def slash : UInt8 := 47
def dot : UInt8 := 46

/-- split on '/' -/
def splitSlash : Bytes → List Bytes
  | [] => [[]]
  | c :: cs =>
    match splitSlash cs with
    | [] => [[c]]           -- unreachable: splitSlash never returns []
    | s :: ss => if c = slash then [] :: s :: ss else (c :: s) :: ss

/-- stack step of `path.Clean` for one segment -/
def cleanStep (rooted : Bool) (stack : List Bytes) (seg : Bytes) : List Bytes :=
  if seg = [] || seg = [dot] then stack
  else if seg = [dot, dot] then
    match stack.getLast? with
    | none => if rooted then stack else stack ++ [seg]
    | some top => if top = [dot, dot] then (if rooted then stack else stack ++ [seg]) else stack.dropLast
  else stack ++ [seg]

def joinSlash : List Bytes → Bytes
  | [] => []
  | [s] => s
  | s :: ss => s ++ slash :: joinSlash ss

/-- Go `path.Clean` -/
def clean (p : Bytes) : Bytes :=
  if p = [] then [dot]
  else
    let rooted := p.head? = some slash
    let stack := (splitSlash p).foldl (cleanStep rooted) []
    let body := joinSlash stack
    if rooted then slash :: body else if body = [] then [dot] else body

def lowerByte (b : UInt8) : UInt8 := if 65 ≤ b ∧ b ≤ 90 then b + 32 else b
def lower (p : Bytes) : Bytes := p.map lowerByte

def endsWithSlash (p : Bytes) : Bool := p.getLast? = some slash

/-- `httpserver.Path(p).Matches(base)`; `cs` = `httpserver.CaseSensitivePath` -/
def pathMatches (cs : Bool) (p base : Bytes) : Bool :=
  if base = [slash] || base = [] then true
  else
    let p' := clean p ++ (if endsWithSlash p then [slash] else [])
    let b' := clean base ++ (if endsWithSlash base then [slash] else [])
    if cs then b'.isPrefixOf p' else (lower b').isPrefixOf (lower p')

structure PathLimit where
  path  : Bytes
  limit : Nat
deriving Repr, DecidableEq

abbrev Table := List PathLimit

/-- `addPathLimit` (the path is non-empty here; an empty path makes the Go code panic, which
is C11's concern): leading slash enforced, an existing path keeps its place and takes the new limit. -/
def normPath (path : Bytes) : Bytes := if path.head? = some slash then path else slash :: path

def updateOrAppend (t : Table) (path : Bytes) (limit : Nat) : Table :=
  if t.any (·.path = path) then t.map (fun e => if e.path = path then { e with limit := limit } else e)
  else t ++ [{ path := path, limit := limit }]

def addPathLimit (t : Table) (path : Bytes) (limit : Nat) : Table :=
  updateOrAppend t (normPath path) limit

/-- `parseArguments`: fold of addPathLimit over the `body` lines in file order -/
def parseArguments (raw : List (Bytes × Nat)) : Table :=
  raw.foldl (fun t pl => addPathLimit t pl.1 pl.2) []

/-- insertion step of `SortPathLimits` (sort.Sort is an insertion sort up to 12 elements, hence
stable): the new element moves left past strictly shorter paths only. -/
def insertDesc (e : PathLimit) : Table → Table
  | [] => [e]
  | x :: xs => if x.path.length ≥ e.path.length then x :: insertDesc e xs else e :: x :: xs

def sortDesc (t : Table) : Table := t.foldl (fun acc e => insertDesc e acc) []

/-- the table `setupLimits` stores: parsed, then sorted longest path first -/
def buildTable (raw : List (Bytes × Nat)) : Table := sortDesc (parseArguments raw)

/-- `Limit.ServeHTTP`: the first entry whose path matches decides -/
def selectLimit (cs : Bool) (t : Table) (p : Bytes) : Option PathLimit :=
  t.find? (fun e => pathMatches cs p e.path)

/-- What the next handler sees when it drains the body of a request for `p` with read
buffer sizes `bufs`. -/
def serveBody (cs : Bool) (t : Table) (p : Bytes) (u : Under) (bufs : List Nat) : Trace :=
  match selectLimit cs t p with
  | some e => MBR.run { n := e.limit, err := none, under := u } bufs
  | none => Under.run u bufs

/-! ### listener-wide settings -/

/-- one timeout field of a site: `none` = not set, `some 0` = `timeouts none`, else nanoseconds -/
abbrev TSetting := Option Nat

/-- `stricterTimeout(a, b)`: 0 means "no timeout" and is the least strict value -/
def stricter (a b : Nat) : Bool := a ≠ 0 && (b = 0 || a < b)

/-- one field of `makeHTTPServerWithTimeouts` over the group: a set value replaces the running
one when nothing is set yet or when it is stricter. -/
def mergeStep (acc : TSetting) (v : TSetting) : TSetting :=
  match v, acc with
  | none, _ => acc
  | some d, none => some d
  | some d, some m => if stricter d m then some d else some m

def mergeTimeout (group : List TSetting) (dflt : Nat) : Nat :=
  (group.foldl mergeStep none).getD dflt

structure SiteTimeouts where
  read   : TSetting
  header : TSetting
  write  : TSetting
  idle   : TSetting
deriving Repr, DecidableEq

structure Timeouts where
  read   : Nat
  header : Nat
  write  : Nat
  idle   : Nat
deriving Repr, DecidableEq

/-- `defaultTimeouts` of server.go (tied to the source by the regenerated fact in Props/C17) -/
def defaultTimeouts : Timeouts := { read := 0, header := 0, write := 0, idle := 300000000000 }

def makeTimeouts (group : List SiteTimeouts) (d : Timeouts) : Timeouts :=
  { read := mergeTimeout (group.map (·.read)) d.read
    header := mergeTimeout (group.map (·.header)) d.header
    write := mergeTimeout (group.map (·.write)) d.write
    idle := mergeTimeout (group.map (·.idle)) d.idle }

/-- `makeHTTPServerWithHeaderLimit`: running minimum over the non-zero limits
(0 = the site does not set one); the result 0 leaves `http.Server.MaxHeaderBytes` untouched. -/
def headerStep (min limit : Nat) : Nat :=
  if limit = 0 then min
  else
    let min1 := if min = 0 then limit else min
    if limit < min1 then limit else min1

def makeHeaderLimit (group : List Nat) : Nat := group.foldl headerStep 0

/-! ### proxy -/

/-- status `proxy.ServeHTTP` returns for a body drained through the trace `t`
(0 = the backend's response was relayed) when the backend is up and reads its input. -/
def proxyStatus (t : Trace) : Nat :=
  match firstErr t with
  | some .tooLarge => 413
  | _ => 0

/-- a request body as net/http hands it over: no chunk bound, EOF after the last byte -/
def wireBody (data : Bytes) : Under := { data := data, script := [], errWithLast := false, endErr := .eof }

/-- limits + proxy for a request whose body is `data` (Content-Length framing unless `chunked`):
`createUpstreamRequest` drops the body of a request with Content-Length 0; otherwise the
transport drains it with 32 KiB reads until the first error. -/
def proxyServe (cs : Bool) (t : Table) (p : Bytes) (data : Bytes) (chunked : Bool) : Nat :=
  if !chunked && data.isEmpty then 0
  else proxyStatus (serveBody cs t p (wireBody data) (List.replicate (data.length + 2) 32768))

/-! ### the wire spelling of the request path

net/http builds `r.URL` from the request target with `url.ParseRequestURI`: `URL.Path` is
`unescape(target, encodePath)` and `URL.RawPath` keeps the spelling.  `Limit.ServeHTTP` matches the
scopes against `r.URL.Path`, the decoded form.  (Targets here are origin-form without a query.) -/

def isHexDigit (c : UInt8) : Bool := (48 ≤ c && c ≤ 57) || (97 ≤ c && c ≤ 102) || (65 ≤ c && c ≤ 70)

/-- net/url `unhex` -/
def hexVal (c : UInt8) : Nat :=
  if 48 ≤ c && c ≤ 57 then c.toNat - 48 else if 97 ≤ c && c ≤ 102 then c.toNat - 87 else c.toNat - 55

def hexDigit (upper : Bool) (n : Nat) : UInt8 :=
  if n < 10 then UInt8.ofNat (48 + n) else UInt8.ofNat ((if upper then 55 else 87) + n)

/-- net/url `unescape(s, encodePath)`: `none` on a malformed %-escape (net/http answers 400, no
handler runs) -/
def unescapePath : Bytes → Option Bytes
  | [] => some []
  | 37 :: a :: b :: t =>
    if isHexDigit a && isHexDigit b then (unescapePath t).map (UInt8.ofNat (hexVal a * 16 + hexVal b) :: ·) else none
  | 37 :: _ => none
  | c :: t => (unescapePath t).map (c :: ·)

/-- A spelling of the path `p` on the wire: per byte, `none` = written as it is, `some upper` =
percent-encoded with upper/lower-case hex digits (a literal `%` is always encoded; when the choices
run out the rest is written as it is). -/
def spell : List (Option Bool) → Bytes → Bytes
  | _, [] => []
  | ch, c :: t =>
    let o := if c = 37 then some ((ch.head?.getD none).getD true) else ch.head?.getD none
    match o with
    | some up => 37 :: hexDigit up (c.toNat / 16) :: hexDigit up (c.toNat % 16) :: spell ch.tail t
    | none => c :: spell ch.tail t

/-- What the next handler sees for a request whose request line carries `target`: `none` = the
target is not a path, the server refuses the request before any handler. -/
def serveTarget (cs : Bool) (t : Table) (target : Bytes) (u : Under) (bufs : List Nat) : Option Trace :=
  (unescapePath target).map (fun p => serveBody cs t p u bufs)

end Casket.Limits
