import Casket.Model.Path
/-
Model of the message path of caskethttp/proxy:
  proxy.go         createUpstreamRequest, the per-attempt part of Proxy.ServeHTTP
                   (Host, header_upstream rules), mutateHeadersByRules
  reverseproxy.go  singleJoiningSlash, the Director of NewSingleHostReverseProxy,
                   ReverseProxy.ServeHTTP (response side: hop-by-hop removal,
                   header_downstream rules, copyHeader with the skip list, announced and
                   unannounced trailers), shallowCopyTrailers

Go strings are byte lists.  An `http.Header` is an association list from key to value list,
observed through `Hdr.vals`/`Hdr.has` only (a Go map has no order).  The placeholder
replacer (`httpserver.Replacer`) is a parameter `repl : Str → Str` of the model.

Not modelled (the streams stay away from them, see docs/C04.md): unix/quic targets, websocket
upgrades, regex header replacements with a non-literal pattern or `$` in the replacement, non-ASCII white space in `Connection` values
(`strings.TrimSpace` is modelled for ASCII).

CORE LEAN ONLY: this file is linked into the model driver.
-/
namespace Casket.ProxyMsg

abbrev Str := List UInt8

/-! ### byte-string helpers (package strings) -/

def hasPrefix (s p : Str) : Bool := p.isPrefixOf s

/-- `strings.TrimPrefix` -/
def trimPrefix (s p : Str) : Str := if p.isPrefixOf s then s.drop p.length else s

/-- ASCII white space of `strings.TrimSpace` -/
def isSpace (c : UInt8) : Bool := c == 32 || (9 ≤ c && c ≤ 13)

def trimSpace (s : Str) : Str := ((s.dropWhile isSpace).reverse.dropWhile isSpace).reverse

/-- `strings.Split(s, ",")` -/
def splitComma : Str → List Str
  | [] => [[]]
  | c :: cs =>
    if c == 44 then [] :: splitComma cs
    else match splitComma cs with
      | [] => [[c]]
      | x :: xs => (c :: x) :: xs

def commaSpace : Str := [44, 32]

/-- `strings.Join(xs, ", ")` -/
def joinCommaSpace : List Str → Str
  | [] => []
  | [x] => x
  | x :: xs => x ++ commaSpace ++ joinCommaSpace xs

def indexOf (c : UInt8) : Str → Option Nat
  | [] => none
  | x :: xs => if x == c then some 0 else (indexOf c xs).map (· + 1)

def lastIndexOf (c : UInt8) : Str → Option Nat
  | [] => none
  | x :: xs =>
    match lastIndexOf c xs with
    | some i => some (i + 1)
    | none => if x == c then some 0 else none

/-- `net.SplitHostPort` (errors collapse to `none`) -/
def splitHostPort (s : Str) : Option (Str × Str) :=
  match lastIndexOf 58 s with
  | none => none
  | some i =>
    if s.head? == some 91 then
      match indexOf 93 s with
      | none => none
      | some e =>
        if e + 1 == s.length then none
        else if e + 1 == i then
          if (s.drop 1).contains 91 then none
          else if (s.drop (e + 1)).contains 93 then none
          else some ((s.take e).drop 1, s.drop (i + 1))
        else none
    else
      if (s.take i).contains 58 then none
      else if s.contains 91 then none
      else if s.contains 93 then none
      else some (s.take i, s.drop (i + 1))

/-! ### header keys (net/textproto.CanonicalMIMEHeaderKey) -/

def isLower (c : UInt8) : Bool := 97 ≤ c && c ≤ 122
def isUpper (c : UInt8) : Bool := 65 ≤ c && c ≤ 90
def isDigit (c : UInt8) : Bool := 48 ≤ c && c ≤ 57

/-- `validHeaderFieldByte`: RFC 7230 token characters -/
def validFieldByte (c : UInt8) : Bool :=
  isLower c || isUpper c || isDigit c ||
  [33, 35, 36, 37, 38, 39, 42, 43, 45, 46, 94, 95, 96, 124, 126].contains c

def canonGo : Bool → Str → Str
  | _, [] => []
  | upper, c :: cs =>
    let c' := if upper && isLower c then c - 32 else if !upper && isUpper c then c + 32 else c
    c' :: canonGo (c' == 45) cs

/-- a key with a byte outside the token alphabet is returned unchanged -/
def canon (s : Str) : Str := if s.all validFieldByte then canonGo true s else s

/-! ### http.Header -/

abbrev Hdr := List (Str × List Str)

/-- remove repeated elements, keeping first occurrences -/
def dedup : List Str → List Str
  | [] => []
  | x :: xs => x :: (dedup xs).filter (fun y => y != x)

namespace Hdr

/-- `h[k]` (raw map access) -/
def vals (h : Hdr) (k : Str) : List Str :=
  match h.find? (fun e => e.1 == k) with
  | some e => e.2
  | none => []

/-- `_, ok := h[k]` -/
def has (h : Hdr) (k : Str) : Bool := h.any (fun e => e.1 == k)

/-- `h.Get(name)`: first value under the canonical key, "" if none -/
def get (h : Hdr) (name : Str) : Str := (h.vals (canon name)).headD []

def delRaw (h : Hdr) (k : Str) : Hdr := h.filter (fun e => e.1 != k)

/-- `h.Del(name)` -/
def del (h : Hdr) (name : Str) : Hdr := h.delRaw (canon name)

/-- `h[k] = vv` -/
def setRaw (h : Hdr) (k : Str) (vv : List Str) : Hdr := (k, vv) :: h.delRaw k

/-- `h.Set(name, v)` -/
def set (h : Hdr) (name v : Str) : Hdr := h.setRaw (canon name) [v]

/-- `h.Add(name, v)` -/
def add (h : Hdr) (name v : Str) : Hdr := h.setRaw (canon name) (h.vals (canon name) ++ [v])

/-- the distinct keys, in first-occurrence order -/
def keys (h : Hdr) : List Str := dedup (h.map (·.1))

end Hdr

def sConnection : Str := [67, 111, 110, 110, 101, 99, 116, 105, 111, 110]
def sXFF : Str := [88, 45, 70, 111, 114, 119, 97, 114, 100, 101, 100, 45, 70, 111, 114]
def sHost : Str := [72, 111, 115, 116]
def sServer : Str := [83, 101, 114, 118, 101, 114]
def sTrailer : Str := [84, 114, 97, 105, 108, 101, 114]
/-- `http.TrailerPrefix` = "Trailer:" -/
def sTrailerPrefix : Str := [84, 114, 97, 105, 108, 101, 114, 58]
def sUpgrade : Str := [85, 112, 103, 114, 97, 100, 101]

/-- the non-empty, trimmed, comma separated tokens of one `Connection` value -/
def connTokens (c : Str) : List Str := ((splitComma c).map trimSpace).filter (fun t => t != [])

/-- every token of every `Connection` header line -/
def connListed (h : Hdr) : List Str := (h.vals sConnection).flatMap connTokens

/-- Removal of the headers named by `Connection` and of the hop-by-hop list: the two loops of
`createUpstreamRequest` (request) and of `ReverseProxy.ServeHTTP` (response).  Every `Connection`
line is read, every token of it is deleted, then every name of the hop-by-hop list is deleted
whatever its values are.  (The request side only copies the header map before the first
deletion; the copy is not observable at the backend and is not modelled.) -/
def stripHop (hop : List Str) (h : Hdr) : Hdr :=
  hop.foldl Hdr.del ((connListed h).foldl Hdr.del h)

/-! ### header rules (`mutateHeadersByRules`, without regex replacements) -/

/-- the rules map: rule field (`Name`, `+Name`, `-Name`) ↦ configured values, in some iteration order -/
abbrev Rules := List (Str × List Str)

def plus : UInt8 := 43
def minus : UInt8 := 45

def applyRule (repl : Str → Str) (h : Hdr) (rule : Str × List Str) : Hdr :=
  match rule.1 with
  | c :: rest =>
    if c == plus then
      rule.2.foldl (fun h v => if repl v != [] then h.add rest (repl v) else h) h
    else if c == minus then h.del rest
    else match rule.2.getLast? with
      | some v => if repl v != [] then h.set rule.1 (repl v) else h
      | none => h
  | [] =>
    match rule.2.getLast? with
    | some v => if repl v != [] then h.set rule.1 (repl v) else h
    | none => h

def applyRules (repl : Str → Str) (h : Hdr) (rules : Rules) : Hdr :=
  rules.foldl (applyRule repl) h

/-! ### URLs and the director -/

structure URL where
  scheme : Str
  host : Str
  path : Str
  rawPath : Str
  opaq : Str
  rawQuery : Str
deriving Repr, DecidableEq

def slash : UInt8 := 47

/-- `strings.HasSuffix(a, "/")` -/
def endsWithSlash (a : Str) : Bool := a.getLast? == some slash
/-- `strings.HasPrefix(b, "/")` -/
def startsWithSlash (b : Str) : Bool := b.head? == some slash

/-- `singleJoiningSlash` -/
def singleJoiningSlash (a b : Str) : Str :=
  let aSlash := endsWithSlash a
  let bSlash := startsWithSlash b
  if aSlash && bSlash then a ++ b.drop 1
  else if !aSlash && !bSlash && b != [] then a ++ [slash] ++ b
  else a ++ b

def prefer (val dflt : Str) : Str := if val != [] then val else dflt

def sHttp : Str := [104, 116, 116, 112]
def sHttps : Str := [104, 116, 116, 112, 115]
def sSrv : Str := [115, 114, 118]
def sSrvHttps : Str := [115, 114, 118, 43, 104, 116, 116, 112, 115]

/-- `URL.EscapedPath()` of a URL with the given Path and RawPath: RawPath when it is a valid
encoding of Path, else the default escaping of Path (model of net/url in Model/Path.lean) -/
def escapedOf (path raw : Str) : Str := Casket.Path.escapedPath { path := path, rawPath := raw, rawQuery := [] }

/-- the Director closure of `NewSingleHostReverseProxy` for a non-unix target -/
def director (t : URL) (without : Str) (u : URL) : URL :=
  let scheme := if t.scheme == sSrv then sHttp else if t.scheme == sSrvHttps then sHttps else t.scheme
  let path1 := if without != [] then trimPrefix u.path without else u.path
  let opaque1 := if without != [] && u.opaq != [] then trimPrefix u.opaq without else u.opaq
  let raw1 := if without != [] && u.rawPath != [] then trimPrefix u.rawPath without else u.rawPath
  let opaque2 :=
    if opaque1 != [] || t.opaq != [] then singleJoiningSlash (prefer t.opaq t.path) (prefer opaque1 path1)
    else opaque1
  let raw2 :=
    if raw1 != [] || t.rawPath != [] then
      singleJoiningSlash (escapedOf t.path t.rawPath) (escapedOf path1 raw1)
    else raw1
  let path2 := singleJoiningSlash t.path path1
  let query :=
    if t.rawQuery == [] || u.rawQuery == [] then t.rawQuery ++ u.rawQuery
    else t.rawQuery ++ [38] ++ u.rawQuery
  { scheme := scheme, host := t.host, path := path2, rawPath := raw2, opaq := opaque2, rawQuery := query }

/-! ### the request side -/

structure Request where
  method : Str
  url : URL
  host : Str
  remoteAddr : Str
  header : Hdr
  contentLength : Int
  /-- `none` = nil Body -/
  body : Option Str
deriving Repr, DecidableEq

/-- `createUpstreamRequest` (the copy-on-write of the header map is not observable and not modelled) -/
def createUpstreamRequest (hop : List Str) (r : Request) : Request :=
  let h2 := stripHop hop r.header
  let h3 :=
    match splitHostPort r.remoteAddr with
    | some (ip, _) =>
      h2.set sXFF (if h2.has sXFF then joinCommaSpace (h2.vals sXFF) ++ commaSpace ++ ip else ip)
    | none => h2
  { r with header := h3, body := if r.contentLength == 0 then none else r.body }

/-- regex header replacements (3-argument header_upstream), restricted to literal patterns:
canonical field ↦ (pattern, replacement) pairs in configuration order -/
abbrev Repls := List (Str × List (Str × Str))

/-- `regexp.ReplaceAllString` for a non-empty literal pattern and a `$`-free replacement:
leftmost non-overlapping occurrences (`skip` = bytes of the current match still to drop) -/
def replaceAllGo (pat to : Str) : Nat → Str → Str
  | _, [] => []
  | skip + 1, _ :: cs => replaceAllGo pat to skip cs
  | 0, c :: cs =>
    if pat.isPrefixOf (c :: cs) then to ++ replaceAllGo pat to (pat.length - 1) cs
    else c :: replaceAllGo pat to 0 cs

def replaceAll (s pat to : Str) : Str := if pat == [] then s else replaceAllGo pat to 0 s

/-- what one replacement makes of the value list of its field: only the first value is read
(`Get`), and `Set` leaves only the rewritten value -/
def replOn (repl : Str → Str) (vs : List Str) (pt : Str × Str) : List Str :=
  if repl pt.2 != [] && vs.headD [] != [] then [replaceAll (vs.headD []) pt.1 (repl pt.2)] else vs

/-- the second loop of `mutateHeadersByRules` for one field -/
def applyRepl (repl : Str → Str) (h : Hdr) (fr : Str × List (Str × Str)) : Hdr :=
  fr.2.foldl (fun h pt =>
    if repl pt.2 != [] && h.get fr.1 != [] then h.set fr.1 (replaceAll (h.get fr.1) pt.1 (repl pt.2)) else h) h

def applyRepls (repl : Str → Str) (h : Hdr) (repls : Repls) : Hdr := repls.foldl (applyRepl repl) h

def sAuthorization : Str := [65, 117, 116, 104, 111, 114, 105, 122, 97, 116, 105, 111, 110]

structure Upstream where
  target : URL
  without : Str
  upRules : Rules
  downRules : Rules
  /-- the `Authorization` value made from the credentials of the backend URL (`SetBasicAuth`), if it has any -/
  cred : Option Str := none
  upRepls : Repls := []

/-- "use upstream credentials by default": only when the request carries no Authorization of its own -/
def applyCred (cred : Option Str) (h : Hdr) : Hdr :=
  match cred with
  | some c => if h.get sAuthorization == [] then h.set sAuthorization c else h
  | none => h

/-- One attempt of `Proxy.ServeHTTP` on an outgoing request `o`: Host, upstream credentials,
header_upstream rules and replacements, Host override from the rules, then the Director (run by
`ReverseProxy.ServeHTTP`). -/
def attempt (repl : Str → Str) (u : Upstream) (o : Request) : Request :=
  let hdr := applyRepls repl (applyRules repl (applyCred u.cred o.header) u.upRules) u.upRepls
  let host :=
    match (hdr.vals sHost).getLast? with
    | some v => v
    | none => u.target.host
  { o with header := hdr, host := host, url := director u.target u.without o.url }

/-- what the backend transport is handed for the first attempt -/
def forward (hop : List Str) (repl : Str → Str) (u : Upstream) (r : Request) : Request :=
  attempt repl u (createUpstreamRequest hop r)

/-! ### body and framing of the outgoing request -/

/-- `requiresBuffering`: the body is read into memory (`newBufferedBody`) and rewound before every
attempt exactly when the request may be retried on another backend -/
def requiresBuffering (hostCount tryDuration : Nat) : Bool := decide (hostCount > 1) && tryDuration != 0

/-- The body handed to the transport: nil when Content-Length is 0, else the client's bytes —
read from the connection as they come (streamed) or from the buffer; `ContentLength` and
`TransferEncoding` of the request are not touched by either path. -/
def outgoingBody (buffered : Bool) (r : Request) : Option Str :=
  if r.contentLength == 0 then none
  else if buffered then r.body.map (fun b => b) else r.body

/-- how the outgoing request is framed on the wire -/
inductive Framing where
  /-- no body: `Content-Length: 0` or no length at all -/
  | none
  | length (n : Nat)
  | chunked
deriving Repr, DecidableEq

/-- net/http's choice (transfer writer of `http.Transport`) for a request with the given
ContentLength and Body: a declared length is sent as Content-Length; an unknown length (-1, which
the incoming request only has with `TransferEncoding: chunked`, carried over to the outgoing one)
as chunked coding, also when the body turns out empty. -/
def wireFraming (o : Request) : Framing :=
  match o.body with
  | Option.none => .none
  | some _ =>
    if o.contentLength > 0 then .length o.contentLength.toNat
    else if o.contentLength < 0 then .chunked
    else .none

/-- What the transports of two successive attempts are handed when the first backend fails and the
request is retried on a second one: `Proxy.ServeHTTP` restores URL and headers of the outgoing
request (as `createUpstreamRequest` made it) before every attempt after the first. -/
def forwardRetry (hop : List Str) (repl : Str → Str) (u1 u2 : Upstream) (r : Request) : Request × Request :=
  let o := createUpstreamRequest hop r
  (attempt repl u1 o, attempt repl u2 o)

/-! ### the response side -/

structure Response where
  status : Nat
  header : Hdr
  /-- keys of `res.Trailer` before the body is read -/
  announced : List Str
  /-- `res.Trailer` after the body was read to EOF -/
  trailer : Hdr
deriving Repr, DecidableEq

structure ClientView where
  status : Nat
  /-- header map at `WriteHeader` -/
  header : Hdr
  /-- header map after the handler returned (trailers are delivered through it) -/
  final : Hdr
deriving Repr, DecidableEq

/-- `copyHeader(dst, src)` with the skip list; `src` is visited key by key -/
def copyHeader (skip : List Str) (dst src : Hdr) : Hdr :=
  src.keys.foldl (fun d k =>
    if d.has k && skip.contains k then d
    else
      let d := if d.has k && k != sServer then d.del k else d
      (src.vals k).foldl (fun d v => d.add k v) d) dst

/-- `shallowCopyTrailers` -/
def shallowCopyTrailers (dst trailer : Hdr) (force : Bool) : Hdr :=
  trailer.keys.foldl (fun d k => d.setRaw (if force then sTrailerPrefix ++ k else k) (trailer.vals k)) dst

/-- `ReverseProxy.ServeHTTP` after the round trip, non-websocket branch.
`pre` is the header map of the ResponseWriter before the proxy runs. -/
def respond (hop skip : List Str) (repl : Str → Str) (down : Rules) (dr : Repls) (pre : Hdr) (res : Response) : ClientView :=
  let h := applyRepls repl (applyRules repl (stripHop hop res.header) down) dr
  let merged := copyHeader skip pre h
  let snap := if res.announced.length > 0 then merged.setRaw sTrailer res.announced else merged
  let force := res.trailer.keys.length != res.announced.length
  { status := res.status, header := snap, final := shallowCopyTrailers snap res.trailer force }

/-- the trailers a client receives (net/http server semantics, as implemented by
`httptest.ResponseRecorder.Result`): the announced keys that are present in the final map,
plus every `Trailer:`-prefixed key -/
def clientTrailers (v : ClientView) : Hdr :=
  let ann : Hdr := ((v.header.vals sTrailer).filter (fun k => v.final.has k)).map (fun k => (k, v.final.vals k))
  (v.final.keys.filter (fun k => hasPrefix k sTrailerPrefix)).foldl
    (fun t k => (v.final.vals k).foldl (fun t x => t.add (k.drop sTrailerPrefix.length) x) t) ann

end Casket.ProxyMsg
