import Casket.Model.Chain
/-
Concurrent requests on one basicauth rule with a plain password (C03; seeded regression
C03-plainmatcher-shared-hash-array).

`basicauth.PlainMatcher(passw)` (caskethttp/basicauth/basicauth.go) computes `passwSum`, the
SHA-1 of the configured password, ONCE when the rule is set up, and returns a closure.  Each CALL
of the closure hashes the presented password into `pwSum` — a variable of that call — and then
compares the two sums in constant time.  `BasicAuth.ServeHTTP` calls the closure only when the
presented user name equals the rule's.

Requests are served on separate goroutines, so the two steps of a call ("store my hash",
"compare") interleave freely with the steps of the other calls in flight on the same rule.  The
model makes that explicit: a SCHEDULE is a list of call numbers, each occurrence lets that call
take its next step; the hash slot belongs to the call (`slots[i]`).  That the decision of a call
depends on nothing but (rule, presented credentials) is then a theorem for every schedule
(Props/C03.lean) — and it is exactly what fails when the slot is shared by all calls of the rule
(`runShared`, the seeded change, with a witness).

`hash` stands for SHA-1; the theorems assume only that it is injective on the passwords in play
(collision resistance is trusted).

CORE LEAN ONLY.
-/
namespace Casket.AuthConc
open Casket.Path Casket.Chain

/-- the credentials one in-flight request presents -/
structure Call where
  user : Bytes
  pw : Bytes
deriving Repr, DecidableEq

inductive Slot
  | idle                 -- the call has not started
  | stored (h : Bytes)   -- `pwSum` of THIS call holds the hash of the presented password
  | done
deriving Repr, DecidableEq

/-- One step of call `i`.  Returns the new slots and, when the call finishes, its decision
(`true` = authenticated for this rule). -/
def stepCall (hash : Bytes → Bytes) (rule : AuthRule) (calls : List Call) (slots : List Slot) (i : Nat) :
    List Slot × Option (Nat × Bool) :=
  match calls[i]?, slots[i]? with
  | some c, some .idle =>
    -- `username != rule.Username ||` short-circuits: the matcher is not called
    if c.user ≠ rule.user then (slots.set i .done, some (i, false))
    else (slots.set i (.stored (hash c.pw)), none)
  | some _, some (.stored h) => (slots.set i .done, some (i, h = hash rule.pass))
  | _, _ => (slots, none)

/-- the decisions, in the order in which the calls finish under this schedule -/
def runSched (hash : Bytes → Bytes) (rule : AuthRule) (calls : List Call) : List Slot → List Nat → List (Nat × Bool)
  | _, [] => []
  | slots, i :: rest =>
    let r := stepCall hash rule calls slots i
    match r.2 with
    | some d => d :: runSched hash rule calls r.1 rest
    | none => runSched hash rule calls r.1 rest

def idleSlots (calls : List Call) : List Slot := calls.map fun _ => .idle

/-- every call runs to completion one after the other (what a sequential test sees) -/
def sequential (n : Nat) : List Nat := (List.range n).flatMap fun i => [i, i]

/-- all calls store, then all compare (maximal overlap) -/
def overlapped (n : Nat) : List Nat := List.range n ++ List.range n

/-! ### the seeded variant: ONE hash slot per rule, shared by every call -/

/-- per call only "has stored" / "done" is kept; the hash lives in the shared slot -/
def stepShared (hash : Bytes → Bytes) (rule : AuthRule) (calls : List Call) (st : Bytes × List Slot) (i : Nat) :
    (Bytes × List Slot) × Option (Nat × Bool) :=
  match calls[i]?, st.2[i]? with
  | some c, some .idle =>
    if c.user ≠ rule.user then ((st.1, st.2.set i .done), some (i, false))
    else ((hash c.pw, st.2.set i (.stored [])), none)
  | some _, some (.stored _) => ((st.1, st.2.set i .done), some (i, st.1 = hash rule.pass))
  | _, _ => (st, none)

def runShared (hash : Bytes → Bytes) (rule : AuthRule) (calls : List Call) : Bytes × List Slot → List Nat → List (Nat × Bool)
  | _, [] => []
  | st, i :: rest =>
    let r := stepShared hash rule calls st i
    match r.2 with
    | some d => d :: runShared hash rule calls r.1 rest
    | none => runShared hash rule calls r.1 rest

end Casket.AuthConc
