import Casket.Model.Policy
/-
Model of `Header.Select` (policy.go) as reached through `staticUpstream.Select`, for requests whose header map was
built by net/http: `policy header <names…>` keeps the names AS WRITTEN in the Casketfile; `request.Header.Get(name)`
canonicalises the name it is given and net/http canonicalised the names the client sent, so two spellings meet iff
they are equal ignoring ASCII case (names are tokens); `Get` returns the FIRST line of a header sent on several
lines, "" when absent.  The values of all configured names are concatenated; an empty result falls back to the
shared round robin, anything else goes through `hostByHashing`.

CORE LEAN ONLY.
-/
namespace Casket.Policy

/-- a header name, as bytes (names are tokens, ASCII) -/
abbrev Name := List UInt8

/-- a header line as the client sent it: name, value -/
abbrev HLine := Name × List UInt8
abbrev Req := List HLine

def lowerByte (b : UInt8) : UInt8 := if 65 ≤ b.toNat ∧ b.toNat ≤ 90 then b + 32 else b

/-- the case-folded name: what `CanonicalMIMEHeaderKey` identifies (for tokens it changes the case of letters only) -/
def foldName (a : Name) : Name := a.map lowerByte

/-- two spellings of a header name meet in the canonicalised header map -/
def sameName (a b : Name) : Bool := foldName a == foldName b

/-- `request.Header[CanonicalHeaderKey(name)]`: the values of all lines of that header, in order -/
def headerValues (req : Req) (name : Name) : List (List UInt8) :=
  (req.filter fun l => sameName l.1 name).map (·.2)

/-- `Header.Get` on a value list: the first value, "" when there is none -/
def firstValue (vs : List (List UInt8)) : List UInt8 := vs.headD []

/-- `request.Header.Get(name)` -/
def headerGet (req : Req) (name : Name) : List UInt8 := firstValue (headerValues req name)

/-- `val += request.Header.Get(name)` over the configured names -/
def headerKey (names : List Name) (req : Req) : List UInt8 :=
  (names.map (headerValues req)).flatMap firstValue

/-- `policy header` needs at least one header name: the upstream block parser refuses the line otherwise
(`Header.Select` returns nil for every request when it has no names) -/
def headerConfigOk (names : List Name) : Bool := !names.isEmpty

/-- `staticUpstream.Select` with the header policy: no value → shared round robin, else hash of the value -/
def headerUpstreamSelect (names : List Name) (p : Pool) (robin : Nat) (req : Req) : Option Nat × Nat :=
  let key := headerKey names req
  if key.isEmpty then upstreamSelect .roundRobin p robin 0 [] else upstreamSelect .hash p robin (fnv32a key) []

/-- consecutive requests on one upstream, availability unchanged; the shared counter is threaded through -/
def headerRun (names : List Name) (p : Pool) : List Req → Nat → List (Req × Option Nat) × Nat
  | [], robin => ([], robin)
  | r :: rest, robin =>
    let s := headerUpstreamSelect names p robin r
    let t := headerRun names p rest s.2
    ((r, s.1) :: t.1, t.2)

end Casket.Policy
