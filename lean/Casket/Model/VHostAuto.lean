import Casket.Model.VHost
import Casket.Model.AutoHTTPS
import Casket.Model.AutoHTTPSAddr
import Casket.Model.AutoHTTPSNet
/-
C01 with `bind`, `tls` and the synthesised HTTP->HTTPS redirect sites: Casketfile blocks
(address, bind value, tls variant) → `InspectServerBlocks` (slice I's `inspect`) → directive setup
(`siteOf` = bind + `applyTLS`) → the pure stages of `activateHTTPS` (`markQualifiedForAutoHTTPS`,
`enableAutoHTTPS`, `makePlaintextRedirects` — slice I's `pipeline`, reused unchanged) → `MakeServers`
(TLS off for plain-HTTP sites, default ports, `groupSiteConfigsByListenAddr`: one listener per
`net.ResolveTCPAddr(JoinHostPort(ListenHost, Port)).String()`, `NewServer` per group, which refuses a
listener that mixes TLS and plaintext sites) → the C01 `route` over ALL sites of the chosen listener,
the declared ones and the synthesised ones alike.

Bind values are the empty string or IP literals (no name resolution in the model).

CORE LEAN ONLY: linked into the model driver.
-/
namespace Casket.VHostAuto
open Casket.VHost

abbrev B8 := Casket.AutoHTTPS.Bytes

/-- one server block of the Casketfile: one address, an optional `bind`, a `tls` variant -/
structure Block where
  addr : B8
  bind : B8 := []
  tls : Casket.AutoHTTPS.TLSVariant := {}
deriving Repr, DecidableEq

def toNats (b : B8) : Bytes := b.map UInt8.toNat

/-- `net.ResolveTCPAddr("tcp", net.JoinHostPort(bind, port)).String()` for an empty bind or an IP literal:
the literal in canonical text (`IP.String`, so `::ffff:127.0.0.1` is `127.0.0.1`); `none` = not an IP literal -/
def listenKey (bind port : B8) : Option B8 :=
  if bind.isEmpty then some ([58] ++ port)
  else match Casket.AutoHTTPS.parseIP bind with
    | some ip => some (Casket.AutoHTTPS.joinHostPort (Casket.AutoHTTPS.ipString ip) port)
    | none => none

/-- a site of a listener: `idx` = position in the final config list (the declared sites in Casketfile order,
then the synthesised redirect sites in the order `makePlaintextRedirects` appended them); `key` =
`Addr.Original`, `addrHost` = `Addr.Host` -/
structure Member where
  idx : Nat
  key : Bytes
  addrHost : Bytes
deriving Repr, DecidableEq

def Member.site (m : Member) : Site := { key := m.key, fallback := false, addrHost := m.addrHost }

/-- `Addr.Original` of final config `i`: the address text for a declared site, `JoinHostPort(host, HTTPPort)`
for a synthesised one (`redirPlaintextHost`) -/
def originalOf (as : List Casket.AutoHTTPS.Address) (i : Nat) (s : Casket.AutoHTTPS.Site) : B8 :=
  match as[i]? with
  | some a => a.original
  | none => Casket.AutoHTTPS.joinHostPort s.host s.port

/-- final configs with position, `Addr.Original` and listener key -/
def keyed (as : List Casket.AutoHTTPS.Address) :
    List Casket.AutoHTTPS.Site → Nat → List (Member × Bool × Option B8)
  | [], _ => []
  | s :: rest, i =>
    ({ idx := i, key := toNats (originalOf as i s), addrHost := toNats s.host }, s.enabled, listenKey s.listen s.port)
      :: keyed as rest (i + 1)

/-- `MakeTLSConfig`: a listener whose neighbouring sites disagree about TLS is refused -/
def mixedTLS : List Bool → Bool
  | a :: b :: rest => a != b || mixedTLS (b :: rest)
  | _ => false

/-- some listener mixes TLS and plaintext sites (then `MakeServers` fails as a whole) -/
def anyMixed (ks : List (Member × Bool × Option B8)) : Bool :=
  ks.any fun k => mixedTLS ((ks.filter fun k' => k'.2.2 == k.2.2).map (·.2.1))

inductive AutoOutcome where
  | loadError (e : Casket.AutoHTTPS.AddrErr)   -- InspectServerBlocks rejects the Casketfile
  | directiveError                             -- `tls self_signed` on a site without host name
  | makeServersError                           -- unresolvable bind value, or TLS and plaintext on one listener
  | noListener                                 -- nothing listens on the chosen address
  | served (declared : Nat) (members : List Member) (o : Outcome)
      -- the sites of the listener; `o` = position in `members` of the one site whose handlers ran (+ path prefix), or not found
deriving Repr, DecidableEq

/-- the final configs: declared sites through bind/tls setup and the pure stages of activateHTTPS + MakeServers -/
def finalSites (as : List Casket.AutoHTTPS.Address) (blocks : List Block) : List Casket.AutoHTTPS.Site :=
  Casket.AutoHTTPS.pipeline ((as.zip blocks).map fun (a, b) => Casket.AutoHTTPS.siteOf a b.bind b.tls)

/-- `NewServer` + `ServeHTTP` of one listener group -/
def serveGroup (declared : Nat) (ms : List Member) (r : Req) : AutoOutcome :=
  if ms.isEmpty then .noListener else .served declared ms (route (ms.map Member.site) r)

/-- the listener on (`lbind`, `lport`) among the groups `groupSiteConfigsByListenAddr` makes -/
def serveListener (declared : Nat) (ks : List (Member × Bool × Option B8)) (lbind lport : B8) (r : Req) : AutoOutcome :=
  match listenKey lbind lport with
  | none => .noListener
  | some l => serveGroup declared ((ks.filter fun k => k.2.2 == some l).map (·.1)) r

/-- directive setup, the pure stages of activateHTTPS, MakeServers and the request, for an accepted Casketfile -/
def afterLoad (as : List Casket.AutoHTTPS.Address) (blocks : List Block) (lbind lport : B8) (r : Req) : AutoOutcome :=
  if ((as.zip blocks).map fun (a, b) => Casket.AutoHTTPS.siteOf a b.bind b.tls).any Casket.AutoHTTPS.directiveError then
    .directiveError
  else if (keyed as (finalSites as blocks) 0).any (fun k => k.2.2.isNone) || anyMixed (keyed as (finalSites as blocks) 0) then
    .makeServersError
  else serveListener as.length (keyed as (finalSites as blocks) 0) lbind lport r

def autoRoute (blocks : List Block) (lbind lport : B8) (r : Req) : AutoOutcome :=
  match Casket.AutoHTTPS.inspect (blocks.map (·.addr)) with
  | .error e => .loadError e
  | .ok as => afterLoad as blocks lbind lport r

end Casket.VHostAuto
