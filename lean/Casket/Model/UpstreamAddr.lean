/-
Model of `parseUpstream` (caskethttp/proxy/upstream.go): how the proxy directive's setup cuts an upstream address
(`to` argument or `upstream` line) into  host part `us` / port or port range `ports` / rest `ue`  and expands a range.

The Go function slices the address three times with computed bounds

    us    := u[:colonIdx]                       colonIdx = strings.LastIndex(u, ":")
    ue     = u[portsEnd:]                       portsEnd = colonIdx + strings.Index(u[colonIdx:], "/")   (or len(u))
    ports := u[len(us)+1 : portsEnd]

and a slice expression with low > high (or high > len) is a run-time panic — in a setup function: a crash while the
configuration is loaded.  `slice` is the checked slice; `parseUpstream` answers `.panic` when one of them is out of
range, so "this setup step is total" is a statement about the model (Props/C11: `C11_parseUpstream_never_panics`).
Core Lean only (linked into the driver).
-/
namespace Casket.UpstreamAddr

abbrev Bytes := List UInt8

def colon : UInt8 := 58
def slash : UInt8 := 47
def dash : UInt8 := 45
def plus : UInt8 := 43

/-- `strings.LastIndex(u, c)` for a one-byte needle -/
def lastIdx (c : UInt8) : Bytes → Option Nat
  | [] => none
  | x :: xs =>
    match lastIdx c xs with
    | some i => some (i + 1)
    | none => if x = c then some 0 else none

/-- `strings.Index(u, c)` for a one-byte needle -/
def firstIdx (c : UInt8) : Bytes → Option Nat
  | [] => none
  | x :: xs => if x = c then some 0 else (firstIdx c xs).map (· + 1)

/-- `strings.Index(u, p)` -/
def indexOf (p : Bytes) : Bytes → Option Nat
  | [] => if p.isEmpty then some 0 else none
  | x :: xs => if p.isPrefixOf (x :: xs) then some 0 else (indexOf p xs).map (· + 1)

/-- `u[lo:hi]` as Go evaluates it: `none` = the run-time panic "slice bounds out of range" -/
def slice (u : Bytes) (lo hi : Nat) : Option Bytes :=
  if lo ≤ hi ∧ hi ≤ u.length then some ((u.take hi).drop lo) else none

/-- the three cuts of parseUpstream for a given position of the last colon: (us, ports, ue) -/
def cut (u : Bytes) (colonIdx : Nat) : Option (Bytes × Bytes × Bytes) :=
  match slice u 0 colonIdx, slice u colonIdx u.length with
  | some us, some rest =>
    match firstIdx slash rest with
    | some k =>
      match slice u (colonIdx + k) u.length, slice u (us.length + 1) (colonIdx + k) with
      | some ue, some ports => some (us, ports, ue)
      | _, _ => none
    | none =>
      match slice u (us.length + 1) u.length with
      | some ports => some (us, ports, [])
      | none => none
  | _, _ => none

def isDigit (b : UInt8) : Bool := 48 ≤ b && b ≤ 57

def digitsVal (s : Bytes) : Nat := s.foldl (fun a b => a * 10 + (b.toNat - 48)) 0

/-- `strconv.Atoi` on a 64-bit platform: optional sign, at least one digit, only digits, no overflow -/
def atoi (s : Bytes) : Option Int :=
  let (neg, ds) : Bool × Bytes :=
    match s with
    | b :: rest => if b = plus then (false, rest) else if b = dash then (true, rest) else (false, s)
    | [] => (false, [])
  if ds.isEmpty || !ds.all isDigit then none
  else
    let v := digitsVal ds
    if neg then (if v ≤ 9223372036854775808 then some (-(Int.ofNat v)) else none)
    else (if v ≤ 9223372036854775807 then some (Int.ofNat v) else none)

def natBytes (n : Nat) : Bytes := (Nat.toDigits 10 n).map fun c => c.toNat.toUInt8

/-- `strings.Split(s, "-")` when s has exactly one dash -/
def splitDash (s : Bytes) : Bytes × Bytes :=
  match firstIdx dash s with
  | some i => (s.take i, s.drop (i + 1))
  | none => (s, [])

inductive Res where
  | hosts (hs : List Bytes)
  | err
  | panic
deriving DecidableEq, Repr

/-- "unix:" -/
def unixP : Bytes := [117, 110, 105, 120, 58]
/-- "srv://" -/
def srvP : Bytes := [115, 114, 118, 58, 47, 47]
/-- "srv+https://" -/
def srvsP : Bytes := [115, 114, 118, 43, 104, 116, 116, 112, 115, 58, 47, 47]
/-- "://" -/
def protoP : Bytes := [58, 47, 47]

/-- what comes after the cuts -/
def expand (u us ports ue : Bytes) : Res :=
  let separators := ports.count dash
  if separators = 0 then .hosts [u]
  else if separators > 1 then .err
  else
    let (a, b) := splitDash ports
    match atoi a with
    | none => .err
    | some pIni =>
      match atoi b with
      | none => .err
      | some pEnd =>
        if pEnd ≤ pIni then .err
        else if pIni < 0 || pEnd > 65535 then .err
        else
          let lo := pIni.toNat
          let n := pEnd.toNat + 1 - lo
          .hosts ((List.range n).map fun i => us ++ [colon] ++ natBytes (lo + i) ++ ue)

def parseUpstream (u : Bytes) : Res :=
  if unixP.isPrefixOf u then .hosts [u]
  else
    match lastIdx colon u with
    | none => .hosts [u]
    | some colonIdx =>
      if indexOf protoP u = some colonIdx then .hosts [u]
      else if srvP.isPrefixOf u || srvsP.isPrefixOf u then .err
      else
        match cut u colonIdx with
        | none => .panic
        | some (us, ports, ue) => expand u us ports ue

/-- judge of `c11.upstream`: the step returned (hosts or an error) -/
def verdict : Res → String
  | .panic => "bad:panic:parseUpstream panicked on an upstream address"
  | _ => "ok"

end Casket.UpstreamAddr
