/-
Byte-string and URL-path functions used by the file-serving models (C02, C03).

Go strings are byte strings, so a path is a `List UInt8`.  Modelled here:

  * `strings.Split/HasPrefix/TrimPrefix/HasSuffix/TrimSpace`, ASCII part of `strings.ToLower`
  * `path.Clean`, `path.Join`      (Go standard library; modelled by their documented
                                    segment semantics, tied to the real functions by the
                                    stream `c02.clean`)
  * `httpserver.Path.Matches`      (caskethttp/httpserver/path.go)
  * `net/url` escaping: `unescape`, `escape(…, encodePath)`, `validEncoded`, the
    `ParseRequestURI` fragment that matters for origin-form request targets,
    `URL.Query().Get`
  * `http.Redirect`'s rewriting of the Location it is given

CORE LEAN ONLY: this file is linked into the model driver.
-/
namespace Casket.Path

abbrev Bytes := List UInt8

open Lean in
/-- `b! "abc"` = the UTF-8 bytes of the literal, as a list literal (expanded at elaboration time). -/
macro "b!" s:str : term => do
  let bs := s.getString.toUTF8.toList
  let elems ← bs.toArray.mapM fun b => `(($(quote b.toNat) : UInt8))
  `([$elems,*])

def slash : UInt8 := 47
def dot : UInt8 := 46

/-! ### strings.* -/

/-- `strings.HasPrefix` -/
def hasPrefix : Bytes → Bytes → Bool
  | _, [] => true
  | [], _ :: _ => false
  | a :: as, b :: bs => a == b && hasPrefix as bs

/-- `strings.TrimPrefix` -/
def trimPrefix (s p : Bytes) : Bytes := if hasPrefix s p then s.drop p.length else s

/-- `strings.HasSuffix` -/
def hasSuffix (s p : Bytes) : Bool := hasPrefix s.reverse p.reverse

/-- `strings.TrimSuffix` -/
def trimSuffix (s p : Bytes) : Bytes := if hasSuffix s p then s.take (s.length - p.length) else s

/-- `strings.Split(s, string(sep))`: always at least one piece. -/
def splitOn (sep : UInt8) : Bytes → List Bytes
  | [] => [[]]
  | c :: cs =>
    if c = sep then [] :: splitOn sep cs
    else match splitOn sep cs with
      | [] => [[c]]
      | s :: ss => (c :: s) :: ss

/-- `strings.Join(segs, "/")` -/
def joinSlash : List Bytes → Bytes
  | [] => []
  | [s] => s
  | s :: rest => s ++ slash :: joinSlash rest

/-- `strings.Cut(s, string(sep))` : before, after, found -/
def cut (sep : UInt8) : Bytes → Bytes × Bytes × Bool
  | [] => ([], [], false)
  | c :: cs =>
    if c = sep then ([], cs, true)
    else let (a, b, f) := cut sep cs; (c :: a, b, f)

/-- ASCII white space plus nothing else: the part of `strings.TrimSpace` reachable through a
header value that net/http accepted (no control bytes other than TAB). -/
def isSpace (c : UInt8) : Bool := c = 32 || c = 9

def trimLeft : Bytes → Bytes
  | [] => []
  | c :: cs => if isSpace c then trimLeft cs else c :: cs

def trimSpace (s : Bytes) : Bytes := (trimLeft (trimLeft s).reverse).reverse

def lowerByte (c : UInt8) : UInt8 := if 65 ≤ c ∧ c ≤ 90 then c + 32 else c

/-- `strings.ToLower` on the inputs that matter for prefix matching against an ASCII
base: ASCII letters fold; the two non-ASCII runes whose lower case is ASCII fold to it
(U+212A KELVIN SIGN → `k`, U+0130 → `i`); every other byte ≥ 0x80 stays ≥ 0x80. -/
def toLower : Bytes → Bytes
  | 0xE2 :: 0x84 :: 0xAA :: rest => 107 :: toLower rest
  | 0xC4 :: 0xB0 :: rest => 105 :: toLower rest
  | c :: rest => lowerByte c :: toLower rest
  | [] => []

/-! ### path.Clean / path.Join -/

def dotSeg : Bytes := [dot]
def dotdotSeg : Bytes := [dot, dot]

/-- One element of the path processed by `path.Clean`; the stack holds the elements kept
so far, last one first. -/
def cleanStep (rooted : Bool) (stack : List Bytes) (seg : Bytes) : List Bytes :=
  if seg = [] ∨ seg = dotSeg then stack
  else if seg = dotdotSeg then
    match stack with
    | [] => if rooted then [] else [seg]
    | top :: rest => if top = dotdotSeg then seg :: stack else rest
  else seg :: stack

/-- the elements `path.Clean` keeps, in order -/
def cleanElems (rooted : Bool) (p : Bytes) : List Bytes :=
  ((splitOn slash p).foldl (cleanStep rooted) []).reverse

/-- `path.Clean` -/
def clean (p : Bytes) : Bytes :=
  match p with
  | [] => dotSeg
  | c :: _ =>
    let rooted := c = slash
    let body := joinSlash (cleanElems rooted p)
    if rooted then slash :: body else if body = [] then dotSeg else body

/-- the elements of `path.Clean("/" + name)`: what `http.Dir.Open` hands to the OS -/
def jailElems (name : Bytes) : List Bytes := cleanElems true (slash :: name)

/-- `path.Join(a, b)` for two elements -/
def join2 (a b : Bytes) : Bytes :=
  if a = [] ∧ b = [] then []
  else if a = [] then clean b
  else if b = [] then clean a
  else clean (a ++ slash :: b)

/-- `path.Base` -/
def base (p : Bytes) : Bytes :=
  match p with
  | [] => dotSeg
  | _ =>
    match (splitOn slash p).filter (· ≠ []) |>.getLast? with
    | none => [slash]
    | some s => s

/-! ### httpserver.Path.Matches -/

/-- `Path(p).Matches(base)` with `CaseSensitivePath = false` (the default) -/
def pathMatches (p base : Bytes) : Bool :=
  if base = [slash] ∨ base = [] then true
  else
    let p' := if hasSuffix p [slash] then clean p ++ [slash] else clean p
    let b' := if hasSuffix base [slash] then clean base ++ [slash] else clean base
    hasPrefix (toLower p') (toLower b')

/-! ### net/url -/

def isHex (c : UInt8) : Bool := (48 ≤ c ∧ c ≤ 57) || (97 ≤ c ∧ c ≤ 102) || (65 ≤ c ∧ c ≤ 70)

def unhexVal (c : UInt8) : UInt8 :=
  if 48 ≤ c ∧ c ≤ 57 then c - 48 else if 97 ≤ c ∧ c ≤ 102 then c - 97 + 10 else if 65 ≤ c ∧ c ≤ 70 then c - 65 + 10 else 0

/-- `url.unescape(s, mode)` for the modes path/fragment (`plus = false`) and query component
(`plus = true`): `none` on a malformed escape. -/
def unescape (plus : Bool) : Bytes → Option Bytes
  | [] => some []
  | 37 :: a :: b :: rest =>
    if isHex a && isHex b then (unescape plus rest).map (fun r => (unhexVal a * 16 + unhexVal b) :: r) else none
  | 37 :: _ => none
  | c :: rest => (unescape plus rest).map (fun r => (if plus && c = 43 then 32 else c) :: r)

def isAlnum (c : UInt8) : Bool := (97 ≤ c ∧ c ≤ 122) || (65 ≤ c ∧ c ≤ 90) || (48 ≤ c ∧ c ≤ 57)

/-- `url.shouldEscape(c, encodePath)` -/
def shouldEscapePath (c : UInt8) : Bool :=
  if isAlnum c then false
  else if c = 45 ∨ c = 95 ∨ c = 46 ∨ c = 126 then false            -- - _ . ~
  else if c = 36 ∨ c = 38 ∨ c = 43 ∨ c = 44 ∨ c = 47 ∨ c = 58 ∨ c = 59 ∨ c = 61 ∨ c = 64 then false  -- $ & + , / : ; = @
  else true                                                          -- including ?

def hexDigitUpper (n : UInt8) : UInt8 := if n < 10 then 48 + n else 55 + n

/-- `url.escape(s, encodePath)` -/
def escapePath : Bytes → Bytes
  | [] => []
  | c :: rest =>
    if shouldEscapePath c then 37 :: hexDigitUpper (c / 16) :: hexDigitUpper (c % 16) :: escapePath rest
    else c :: escapePath rest

/-- `url.validEncoded(s, encodePath)` -/
def validEncodedPath (s : Bytes) : Bool :=
  s.all fun c =>
    (c = 33 ∨ c = 36 ∨ c = 38 ∨ c = 39 ∨ c = 40 ∨ c = 41 ∨ c = 42 ∨ c = 43 ∨ c = 44 ∨ c = 59 ∨ c = 61 ∨ c = 58 ∨ c = 64
      ∨ c = 91 ∨ c = 93 ∨ c = 37) || !shouldEscapePath c

/-- The parts of a parsed request URL the handlers read. -/
structure Url where
  path : Bytes
  rawPath : Bytes      -- "" when the default escaping of `path` equals what was received
  rawQuery : Bytes
  forceQuery : Bool := false
deriving Repr, DecidableEq

/-- `URL.setPath` -/
def setPath (p : Bytes) : Option (Bytes × Bytes) :=
  match unescape false p with
  | none => none
  | some path => some (path, if escapePath path = p then [] else p)

/-- `URL.EscapedPath` -/
def escapedPath (u : Url) : Bytes :=
  if u.rawPath ≠ [] ∧ validEncodedPath u.rawPath ∧ unescape false u.rawPath = some u.path then u.rawPath
  else if u.path = [42] then [42]
  else escapePath u.path

def hasCTL (s : Bytes) : Bool := s.any fun c => c < 32 || c = 127

/-- `strings.HasSuffix(rest, "?") && strings.Count(rest, "?") == 1`, then `strings.Cut(rest, "?")` -/
def splitQuery (s : Bytes) : Bytes × Bytes × Bool :=
  if hasSuffix s [63] ∧ (s.filter (· = 63)).length = 1 then (s.dropLast, [], true)
  else let (a, b, _) := cut 63 s; (a, b, false)

/-- `url.ParseRequestURI` on an origin-form target (first byte `/`); `none` = parse error
(net/http answers 400).  Targets in other forms (`*`, absolute-form) are outside the model. -/
def parseRequestURI (target : Bytes) : Option Url :=
  if hasCTL target || target.any (· = 32) then none   -- a space breaks the request line itself
  else match target with
    | 47 :: _ =>
      let (rest, q, force) := splitQuery target
      match setPath rest with
      | none => none
      | some (p, rp) => some { path := p, rawPath := rp, rawQuery := q, forceQuery := force }
    | _ => none

/-- one `key=value` pair of `url.ParseQuery` (pairs with `;` or a bad escape are dropped) -/
def queryPair (kv : Bytes) : Option (Bytes × Bytes) :=
  if kv = [] then none
  else if kv.any (· = 59) then none
  else
    let (k, v, _) := cut 61 kv
    match unescape true k, unescape true v with
    | some k', some v' => some (k', v')
    | _, _ => none

/-- `u.Query().Get(key)`: first value of `key`, "" when absent -/
def queryGet (rawQuery key : Bytes) : Bytes :=
  match ((splitOn 38 rawQuery).filterMap queryPair).find? (·.1 = key) with
  | some (_, v) => v
  | none => []

/-! ### http.Redirect -/

/-- `url.Parse` of a string beginning with exactly one `/` fails only through its fragment
(`setFragment` → `unescape`); control bytes cannot occur in a parsed request. -/
def fragmentOk (s : Bytes) : Bool :=
  let (_, frag, found) := cut 35 s
  !found || (unescape false frag).isSome

/-- `path.Split`: directory part (up to and including the last slash) -/
def dirPart (p : Bytes) : Bytes :=
  (p.reverse.dropWhile (· ≠ slash)).reverse

/-- "make relative path absolute": a url that does not start with `/` is appended to the
directory of the request path -/
def absolutize (oldPath url : Bytes) : Bytes :=
  match url with
  | 47 :: _ => url
  | _ => dirPart (if oldPath = [] then [slash] else oldPath) ++ url

/-- "clean up but preserve trailing slash" -/
def cleanKeepSlash (p : Bytes) : Bytes :=
  if hasSuffix p [slash] ∧ !hasSuffix (clean p) [slash] then clean p ++ [slash] else clean p

/-- The Location header `http.Redirect(w, r, url, code)` sets (before `hexEscapeNonASCII`, the
identity on the ASCII strings produced by `URL.String`), for a `url` without scheme: a url
starting with exactly two slashes is parsed as having a host and left alone, so is one whose
fragment does not parse; otherwise the path part is made absolute and cleaned. -/
def redirectLocation (oldPath url : Bytes) : Bytes :=
  if hasPrefix url [slash, slash] ∧ !hasPrefix url [slash, slash, slash] then url
  else if !fragmentOk url then url
  else
    let c := cut 63 (absolutize oldPath url)
    if c.2.2 then cleanKeepSlash c.1 ++ 63 :: c.2.1 else cleanKeepSlash c.1

/-- `URL.String()` of a URL without scheme, user or fragment -/
def urlString (u : Url) : Bytes :=
  let p := escapedPath u
  let p' := if ((cut slash p).1).any (· = 58) then dot :: slash :: p else p
  let q := if u.forceQuery ∨ u.rawQuery ≠ [] then 63 :: u.rawQuery else []
  p' ++ q

/-! ### UTF-8 validity (`utf8.ValidString`, used by `io/fs.ValidPath` inside `filepath.Localize`) -/

def isCont (c : UInt8) : Bool := 0x80 ≤ c ∧ c ≤ 0xBF

def validUtf8 : Bytes → Bool
  | [] => true
  | b :: rest =>
    if b < 0x80 then validUtf8 rest
    else if 0xC2 ≤ b ∧ b ≤ 0xDF then
      match rest with
      | c1 :: r => isCont c1 && validUtf8 r
      | _ => false
    else if 0xE0 ≤ b ∧ b ≤ 0xEF then
      match rest with
      | c1 :: c2 :: r =>
        (if b = 0xE0 then decide (0xA0 ≤ c1 ∧ c1 ≤ 0xBF) else if b = 0xED then decide (0x80 ≤ c1 ∧ c1 ≤ 0x9F) else isCont c1)
          && isCont c2 && validUtf8 r
      | _ => false
    else if 0xF0 ≤ b ∧ b ≤ 0xF4 then
      match rest with
      | c1 :: c2 :: c3 :: r =>
        (if b = 0xF0 then decide (0x90 ≤ c1 ∧ c1 ≤ 0xBF) else if b = 0xF4 then decide (0x80 ≤ c1 ∧ c1 ≤ 0x8F) else isCont c1)
          && isCont c2 && isCont c3 && validUtf8 r
      | _ => false
    else false

end Casket.Path
