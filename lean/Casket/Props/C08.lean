import Casket.Proofs.Load
/-
C08 — A failed load or reload leaves nothing behind.

Statements only; helper lemmas live in Casket/Proofs/Load.lean.  `step` is the model of one attempt
(casket.Start, a reload through the SIGUSR1 handler or a direct `Instance.Restart`, `casket -validate`, casket.Stop) on the process state
(running sites, listening descriptors per port, registered event hooks, the process-wide directive table) in an environment `busy` (ports in use
by other processes); it performs exactly the cleanup of the repaired error paths (Model/Load.lean) and is tied
to the Go code by the correspondence stream `c08.seq`, which runs the real http server type on loopback.
`LoadSpec.verdict` is the executable form of the property, applied by the driver to the implementation's answers.
Not modelled: the htpasswd cache and its mutex (finding F6, property C11), log rollers, health-check goroutines.
-/
namespace Casket.Props.C08
open Casket.Load Casket.LoadSpec

/-- A failed attempt — a load, a reload or a validation, failing at any stage (parse, a directive before or after `on`,
a startup callback, a port in use after other listeners were already opened) — is the identity on the WHOLE process
state: same running sites, same listening descriptors on every port, same event hooks.  Every state, every
configuration, every environment, every order of the servers. -/
theorem C08_failed_load_is_identity (busy : List Nat) (s : PState) (op : Op)
    (h : (step busy s op).2 = .err) : (step busy s op).1 = s :=
  step_err_identity h

/-- the hypothesis is satisfiable in the interesting way: a reload that has already duplicated one listener and opened
another when a third port turns out to be in use -/
example : (step [3] ⟨true, [⟨1, "A"⟩], fun p => if p = 1 then 1 else 0, 2, 0⟩
    (.load ⟨[⟨1, "B"⟩, ⟨2, "B"⟩, ⟨3, "B"⟩], 1, .none⟩)).2 = .err := by decide

/-- … the same for the API-level reload (`Instance.Restart` called directly, no handler around it that would purge and
restore the registry) of a configuration that registers THREE hooks next to the two that are registered, and fails in a
directive after `on`, in a startup callback, or at a port in use: the cleanup takes all three out again -/
example : (step [3] ⟨true, [⟨1, "A"⟩], fun p => if p = 1 then 1 else 0, 2, 0⟩
    (.restart ⟨[⟨1, "B"⟩], 3, .setupLate⟩)).2 = .err := by decide
example : (step [3] ⟨true, [⟨1, "A"⟩], fun p => if p = 1 then 1 else 0, 2, 0⟩
    (.restart ⟨[⟨1, "B"⟩], 3, .startup⟩)).2 = .err := by decide
example : (step [3] ⟨true, [⟨1, "A"⟩], fun p => if p = 1 then 1 else 0, 2, 0⟩
    (.restart ⟨[⟨1, "B"⟩, ⟨3, "B"⟩], 3, .none⟩)).2 = .err := by decide

/-- The registered event hooks after a failed attempt are the registered hooks before it, however many hooks the failing
configuration registers (`c.hooks` is universally quantified: 1, 2, 3, …), at whatever stage it fails, through whatever
way of loading — `casket.Start`, the SIGUSR1 handler, a direct `Instance.Restart`, `-validate`. -/
theorem C08_failed_attempt_keeps_hooks (busy : List Nat) (s : PState) (op : Op)
    (h : (step busy s op).2 = .err) : (step busy s op).1.hooks = s.hooks := by
  rw [step_err_identity h]

/-- The SIGUSR1 handler IS: purge the registry, `Instance.Restart`, put the old registry back if that failed. -/
theorem C08_reload_is_purge_restart_restore (busy : List Nat) (s : PState) (c : Cfg) :
    reload busy s c =
      (if (restart busy { s with hooks := 0 } c).2 = .err
        then ({ (restart busy { s with hooks := 0 } c).1 with hooks := s.hooks }, .err)
        else restart busy { s with hooks := 0 } c) :=
  reload_eq_restart busy s c

/-- … hence what is observable (listening sockets, hooks, answers of the sites) is unchanged too. -/
theorem C08_failed_load_observably_nothing (busy : List Nat) (s : PState) (op : Op)
    (h : (step busy s op).2 = .err) : observe (step busy s op).1 = observe s := by
  rw [step_err_identity h]

/-- After ANY sequence of failed attempts, any further attempt has exactly the outcome and the effect it would have had
without them — in particular in a fresh process (`s = PState.init`). -/
theorem C08_after_any_failures_fresh (busy : List Nat) (s : PState) (fs : List Op) (op : Op)
    (h : allFail busy s fs) : step busy (stateAfter busy s fs) op = step busy s op := by
  rw [stateAfter_allFail busy fs s h]

example : allFail [3] PState.init
    [.load ⟨[⟨1, "A"⟩], 1, .setupLate⟩, .load ⟨[⟨1, "A"⟩, ⟨3, "A"⟩], 1, .none⟩, .validate ⟨[⟨1, "A"⟩], 0, .parse⟩] := by
  simp only [allFail]; decide

/-- After ANY history (successful and failed loads, reloads, validations, stops, in any order), a configuration that is
valid for the environment loads, serves exactly its sites and holds exactly one listening descriptor per port of it. -/
theorem C08_valid_config_loads_after_any_history (busy : List Nat) (ops : List Op) (c : Cfg)
    (hw : ∀ op ∈ ops, WF op) (hc : c.ports.Nodup) (hv : validFor busy c = true) :
    let s := stateAfter busy PState.init ops
    (step busy s (.load c)).2 = .ok ∧ (step busy s (.load c)).1.sites = c.sites ∧
    ∀ p, (step busy s (.load c)).1.fds p = if p ∈ c.ports then 1 else 0 := by
  intro s
  have hs : Clean busy s := clean_after busy ops PState.init (clean_init busy) hw
  have hok := load_valid_ok hs hc hv
  have hc' := clean_step hs (.load c) hc
  have hsites : (step busy s (.load c)).1.sites = c.sites := by
    cases hrun : s.running
    · simp only [step, hrun] at hok ⊢
      exact (start_ok hs hrun hok hc).2.1
    · simp only [step, hrun, if_true] at hok ⊢
      exact (reload_ok hs hok hc).2.1
  refine ⟨hok, hsites, ?_⟩
  intro p
  rw [hc'.fds p, hsites]; rfl

example : validFor [3] ⟨[⟨1, "B"⟩, ⟨2, "B"⟩], 0, .none⟩ = true := by decide

/-- … and so does it through the API-level reload, where it keeps the hooks that were registered and adds its own. -/
theorem C08_valid_config_restarts_after_any_history (busy : List Nat) (ops : List Op) (c : Cfg)
    (hw : ∀ op ∈ ops, WF op) (hc : c.ports.Nodup) (hv : validFor busy c = true) :
    let s := stateAfter busy PState.init ops
    (step busy s (.restart c)).2 = .ok ∧ (step busy s (.restart c)).1.sites = c.sites ∧
    (step busy s (.restart c)).1.hooks = s.hooks + c.hooks ∧
    ∀ p, (step busy s (.restart c)).1.fds p = if p ∈ c.ports then 1 else 0 := by
  intro s
  have hs : Clean busy s := clean_after busy ops PState.init (clean_init busy) hw
  have hok := restart_valid_ok hs hc hv
  have hc' := clean_step hs (.restart c) hc
  have hboth : (step busy s (.restart c)).1.sites = c.sites ∧ (step busy s (.restart c)).1.hooks = s.hooks + c.hooks := by
    cases hrun : s.running
    · simp only [step, hrun] at hok ⊢
      exact ⟨(start_ok hs hrun hok hc).2.1, (start_ok hs hrun hok hc).2.2.1⟩
    · simp only [step, hrun, if_true] at hok ⊢
      exact ⟨(restart_ok hs hok hc).2.1, (restart_ok hs hok hc).2.2.1⟩
  refine ⟨hok, hboth.1, hboth.2, ?_⟩
  intro p
  rw [hc'.fds p, hboth.1]; rfl

/-- No listener is ever leaked: after any history the process holds exactly one listening descriptor per port of the
running instance and none otherwise. -/
theorem C08_no_leaked_listeners (busy : List Nat) (ops : List Op) (hw : ∀ op ∈ ops, WF op) (p : Nat) :
    (stateAfter busy PState.init ops).fds p =
      if p ∈ (stateAfter busy PState.init ops).sites.map (·.port) then 1 else 0 :=
  (clean_after busy ops PState.init (clean_init busy) hw).fds p

/-- The model's answers for EVERY history satisfy every law of the judge (outcome = outcome in a fresh process,
fresh-process behaviour after a successful load, failed attempts change nothing observable). -/
theorem C08_model_verdict_ok (busy : List Nat) (ops : List Op) (hw : ∀ op ∈ ops, WF op) :
    verdict busy ops (lift (run busy ops)) = "ok" := by
  unfold verdict run
  have : observe PState.init = Obs.fresh := rfl
  rw [← this, check_runFrom busy ops PState.init 1 (clean_init busy) hw]

example : ∀ op ∈ [Op.load ⟨[⟨1, "A"⟩, ⟨3, "A"⟩], 1, .none⟩, Op.load ⟨[⟨1, "B"⟩, ⟨2, "B"⟩], 0, .none⟩], WF op := by
  intro op hop
  simp only [List.mem_cons, List.not_mem_nil, or_false] at hop
  rcases hop with rfl | rfl <;> simp [WF, Cfg.ports]

/-- The judge is not vacuous: it rejects a failed attempt that leaves a listener, -/
example : stepLaw [3] Obs.fresh (.load ⟨[⟨1, "A"⟩, ⟨3, "A"⟩], 1, .none⟩) (some .err)
    { l1 := 1, l2 := 0, hooks := 0, dv := 0, s1 := "hang", s2 := "-" } = some "listeners-changed" := by decide

/-- a failed attempt that leaves an event hook, -/
example : stepLaw [3] Obs.fresh (.load ⟨[⟨1, "H"⟩], 1, .setupLate⟩) (some .err)
    { l1 := 0, l2 := 0, hooks := 1, dv := 0, s1 := "-", s2 := "-" } = some "hooks-changed" := by decide

/-- a failed attempt of a configuration with three hooks that leaves ONE of them (a cleanup that stops at the first hook
it removes), also through the API-level reload and the validation, -/
example : stepLaw [3] Obs.fresh (.load ⟨[⟨1, "H"⟩], 3, .setupLate⟩) (some .err)
    { l1 := 0, l2 := 0, hooks := 1, dv := 0, s1 := "-", s2 := "-" } = some "hooks-changed" := by decide
example : stepLaw [3] { Obs.fresh with l1 := 1, hooks := 2, s1 := "A" } (.restart ⟨[⟨1, "H"⟩], 2, .startup⟩) (some .err)
    { l1 := 1, l2 := 0, hooks := 3, dv := 0, s1 := "A", s2 := "-" } = some "hooks-changed" := by decide
example : stepLaw [3] Obs.fresh (.validate ⟨[⟨1, "H"⟩], 2, .setupLate⟩) (some .err)
    { l1 := 0, l2 := 0, hooks := 1, dv := 0, s1 := "-", s2 := "-" } = some "hooks-changed" := by decide

/-- a valid configuration that is rejected because of what happened before, and an attempt that hangs. -/
example : stepLaw [3] Obs.fresh (.load ⟨[⟨1, "A"⟩], 0, .none⟩) (some .err) Obs.fresh = some "valid-config-rejected" := by
  decide
example : stepLaw [3] Obs.fresh (.load ⟨[⟨1, "A"⟩], 0, .none⟩) none Obs.fresh = some "timeout" := by decide

/-- a rejected configuration that altered the process-wide directive table (a later load would chain its middleware in
another order than a fresh process), -/
example : stepLaw [3] Obs.fresh (.load ⟨[⟨1, "A"⟩], 0, .parse⟩) (some .err) { Obs.fresh with dv := 1 }
    = some "process-state-changed" := by decide

/-- and a valid configuration whose sites answer differently from a fresh process (order-sensitive probe battery). -/
example : stepLaw [3] Obs.fresh (.load ⟨[⟨1, "O/401.401.401.401.418.gz"⟩], 0, .none⟩) (some .ok)
    { l1 := 1, l2 := 0, hooks := 0, dv := 0, s1 := "O/401.401.200.401.418.gz", s2 := "-" } = some "wrong-sites" := by decide

end Casket.Props.C08
