import Casket.Proofs.PeerBytes
import Casket.Proofs.FCGI
import Casket.Spec.PeerBytes
import Casket.Generated.Mitm
import Casket.Props.C20
import Casket.Proofs.HelloSpec
import Casket.Proofs.HelloPool
import Casket.Model.FCGIStatus
import Casket.Proofs.AuthCfg
/-
C19 — Bytes from network peers cannot crash handlers or skew what is recorded.

Statements only; helper lemmas live in Casket/Proofs/PeerBytes.lean and Proofs/FCGI.lean.

The models (Model/Hello, Mitm, Link, FCGI) write every index and slice
expression of the Go parsers as a checked operation that returns a fault
where Go would panic.  `IsOk r` says the result is a value.  The
correspondence streams c19.* tie each model to the real function.
-/
namespace Casket.Props.C19
open Casket.Fault Casket.Hello Casket.Mitm Casket.PeerSpec

/-- `parseRawClientHello` returns a value for every byte string (no index or slice
expression can fail, the extension loop terminates). -/
theorem C19_hello_total (bs : Bytes) : IsOk (parseRawClientHello bs) :=
  parseRawClientHello_ok bs

/-- The five `looksLike…` heuristics return a value for every parsed hello —
every list of extensions, ciphers and curves, of any length. -/
theorem C19_looksLike_total (info : Info) :
    IsOk (looksLikeFirefox info) ∧ IsOk (looksLikeChrome info) ∧ IsOk (looksLikeEdge info) ∧
    IsOk (looksLikeSafari info) ∧ IsOk (looksLikeTor info) :=
  ⟨looksLikeFirefox_ok info, looksLikeChrome_ok info, looksLikeEdge_ok info,
   looksLikeSafari_ok info, looksLikeTor_ok info⟩

/-- `getVersion` slices the User-Agent within bounds for every User-Agent and software name
(the part before `strconv.ParseFloat`). -/
theorem C19_getVersion_total (ua name : Bytes) : IsOk (getVersionStr ua name) :=
  getVersionStr_ok ua name

/-- The decision of `tlsHandler.ServeHTTP` is a value for every User-Agent, header flags and
recorded hello (whatever bytes produced it). -/
theorem C19_mitm_decision_total (ua : Bytes) (blueCoat fortinet : Bool) (info : Info) :
    IsOk (serveDecision ua blueCoat fortinet info) :=
  serveDecision_ok ua blueCoat fortinet info

/-- `parseLinkHeader` returns a value for every header value a backend can send. -/
theorem C19_link_total (h : Bytes) : IsOk (Casket.Link.parseLinkHeader h) :=
  Casket.Link.parseLinkHeader_ok h

/-- Reading FastCGI records (`record.read` under `streamReader`) from any byte string a
responder can send returns a value: stdout, stderr and the terminating error. -/
theorem C19_record_total (inp : Bytes) : IsOk (Casket.FCGI.demux inp) :=
  Casket.FCGI.demux_ok inp

/-- `writePairs` returns a value for every parameter list: names and values of any length,
including names longer than a record. -/
theorem C19_pairs_total (typ id : Nat) (ps : List Casket.FCGI.Pair) :
    IsOk (Casket.FCGI.writePairs typ id ps) :=
  Casket.FCGI.writePairs_ok typ id ps

/-- Placeholder expansion (`httpserver.Replacer`, modelled by slice C20 in Model/Replacer.lean):
for every format and every request — every header, cookie, query, path, Host and remote-address
text a peer can send, carried by the environment `σ` — `Replace` returns a value: no index or slice
expression of `Replace`/`getSubstitution` (`key[1]`, `key[2:len(key)-1]`, `labels[n-1]`, …) goes out
of range and the scan terminates.  This is slice C20's `C20_total`, restated here because C19 names
the placeholders; the stream c19.replacer runs the real `Replace` on hostile request text against
that same model. -/
theorem C19_replacer_total (σ : Casket.Replacer.Env) (fmt : Casket.Replacer.Bytes) :
    ∃ out, Casket.Replacer.replace σ fmt = .ok out :=
  Casket.Props.C20.C20_total σ fmt

/-- What is recorded about a ClientHello does not depend on how the bytes were split across
reads: every segmentation (empty reads included) records what the unsplit delivery records. -/
theorem C19_segmentation_independent (segs : List Bytes) :
    recorded segs = recorded [segs.flatten] := by
  rw [recorded_eq_spec, recorded_eq_spec]
  simp

/-- Feeding the bytes through `clientHelloConn.Read` never faults either. -/
theorem C19_recorded_total (segs : List Bytes) : IsOk (recorded segs) := by
  rw [recorded_eq_spec]
  unfold recordedSpec
  cases helloOf segs.flatten with
  | none => exact isOk_ok _
  | some h =>
    obtain ⟨i, hi⟩ := parseRawClientHello_ok h
    simp only [hi]
    exact isOk_ok _

/-! ### what is recorded is what the bytes say -/

/-- For EVERY byte string the model of `parseRawClientHello` (the Go code's index arithmetic)
returns the reference reading `HelloSpec.specRead` (RFC field readers: version, random, session id,
cipher suites, compression methods, extensions with elliptic_curves and ec_point_formats, up to
the first field that is not well-formed).  The judge of c19.hello and c19.seg holds the real
parser to that reading, so a mis-parse that does not panic is a judged failure. -/
theorem C19_recorded_is_reference_reading (bs : Bytes) :
    parseRawClientHello bs = .ok (Casket.HelloSpec.specRead bs) :=
  Casket.HelloSpec.parse_eq_spec bs

/-- and the reference reading of the RFC 5246 encoding of a well-formed ClientHello `m` (any
session id up to 32 bytes, any cipher list, any extensions, several curve / point-format
extensions included) is exactly what `m` says: the spec is not an arbitrary function -/
theorem C19_reference_reading_of_wellformed (m : Casket.HelloSpec.HelloMsg) (h : Casket.HelloSpec.WF m) :
    Casket.HelloSpec.specRead (Casket.HelloSpec.encode m) = Casket.HelloSpec.infoOf m :=
  Casket.HelloSpec.specRead_encode m h

/-- hence the model records a well-formed ClientHello as sent -/
theorem C19_wellformed_hello_recorded_as_sent (m : Casket.HelloSpec.HelloMsg) (h : Casket.HelloSpec.WF m) :
    parseRawClientHello (Casket.HelloSpec.encode m) = .ok (Casket.HelloSpec.infoOf m) := by
  rw [C19_recorded_is_reference_reading, C19_reference_reading_of_wellformed m h]

/-- the skew judge accepts the model's answer for every byte string -/
theorem C19_skew_model_verdict_ok (bs : Bytes) :
    ∃ i, parseRawClientHello bs = .ok i ∧ Casket.HelloSpec.skewVerdict bs (some i) = "ok" :=
  ⟨_, C19_recorded_is_reference_reading bs, by simp [Casket.HelloSpec.skewVerdict]⟩

/-- a well-formed message exists: TLS 1.2, two ciphers, curves 29/23, one point format -/
example : Casket.HelloSpec.WF
    { version := 771, random := List.replicate 32 7, sid := [], ciphers := [0x1301, 0xc02b],
      compression := [0], exts := some [.other 0 [1, 2], .curves [29, 23], .points [0]] } :=
  { version := by decide, random := by decide, sid := by decide,
    ciphers := by intro c hc; simp at hc; rcases hc with rfl | rfl <;> decide,
    nciphers := by decide, compression := by decide,
    exts := by
      intro es he
      cases he
      refine ⟨?_, by decide⟩
      intro e hm
      simp at hm
      rcases hm with rfl | rfl | rfl
      · exact ⟨by decide, by decide, by decide, by decide⟩
      · refine ⟨?_, by decide⟩
        intro c hc; simp at hc; rcases hc with rfl | rfl <;> decide
      · show ([0] : Bytes).length < 256; decide,
    total := by decide }

/-! ### several connections, one listener, one buffer pool -/

/-- A buffer taken from the pool is observably empty: whatever the pool holds (`p`) and whichever
pooled buffer `sync.Pool` hands out (`k`), the connection `Accept` builds starts with an empty
capture buffer, nothing read and nothing recorded. -/
theorem C19_pooled_buffer_observably_empty (p : Pool) (k : Nat) : (acceptConn p k).1 = {} :=
  acceptConn_fst p k

/-- What is recorded for a connection is a function of THAT connection's bytes only.  For every
content of `bufpool`, every choice of pooled buffers and every interleaving of accepts, reads and
closes of any number of connections at one `tlsHelloListener` (`steps`): no step faults, and the
`helloInfos` entry of each connection `i` is `HelloSpec.connReading i steps` — nothing if `i` was never
accepted or its first record is incomplete, else the reference reading (`specRead`) of the message
in the first record of the bytes `i` itself delivered between its accept and its close.  Bytes of
other peers (earlier connections, aborted ones, connections open at the same time) do not occur in
the right-hand side. -/
theorem C19_connections_independent (p : Pool) (steps : List Step) :
    ∃ l, Listener.run { pool := p } steps = .ok l ∧
      ∀ i, l.recordedOf i = Casket.HelloSpec.connReading i steps :=
  run_recorded p steps

/-- the judge of c19.conns accepts the model's answer for every pool, schedule and number of
connections looked at -/
theorem C19_conns_model_verdict_ok (p : Pool) (steps : List Step) (n : Nat) :
    ∃ recs, recordedSeq p steps n = .ok recs ∧ Casket.HelloSpec.connsVerdict steps recs = "ok" := by
  obtain ⟨l, hrun, hrec⟩ := C19_connections_independent p steps
  refine ⟨(List.range n).map l.recordedOf, by unfold recordedSeq; rw [hrun], ?_⟩
  have : (List.range n).map l.recordedOf
      = (List.range' 0 n).map fun j => Casket.HelloSpec.connReading j steps := by
    rw [List.range_eq_range']
    exact List.map_congr_left fun i _ => hrec i
  rw [this]
  exact connsVerdictFrom_ok steps n 0

/-- and the second half of the judge of c19.seg (`recordedVerdict`: nothing before the first record
is complete, then its reference reading) accepts what the model records for every list of reads -/
theorem C19_seg_model_verdict_ok (segs : List Bytes) :
    ∃ r, recorded segs = .ok r ∧ Casket.HelloSpec.recordedVerdict segs.flatten r = "ok" :=
  ⟨_, recorded_reading segs, recordedVerdict_reading _⟩

/-- peer 0 sends three bytes of a record header and goes away, peer 1 then sends a complete record
in two pieces — through a pool that already holds a buffer with stale bytes: nothing is recorded for
peer 0, and peer 1's entry is the reading of its own record -/
example : recordedSeq { free := [[9, 9, 9]] }
    [.accept 0 0, .read 0 [22, 3, 1], .close 0, .accept 1 0, .read 1 [22, 3, 1, 0, 3, 1], .read 1 [0, 0]] 2
    = .ok [none, some {}] := by decide

/-- two connections open at the same time, reads interleaved -/
example : recordedSeq {}
    [.accept 0 0, .accept 1 0, .read 0 [22, 3, 1, 0], .read 1 [22, 3, 1, 0, 1, 7], .read 0 [2, 1, 0], .close 1] 2
    = .ok [some {}, some {}] := by decide

/-! ### model answers satisfy the judge -/

theorem totalVerdict_ok {α : Type} {r : R α} (h : IsOk r) : totalVerdict r = "ok" := by
  obtain ⟨x, hx⟩ := h
  rw [hx]; rfl

/-- The judge applied to the model's own answers says ok, for every stream of C19. -/
theorem C19_model_verdict_ok (bs ua name : Bytes) (bc fc : Bool) (info : Info)
    (ps : List Casket.FCGI.Pair) (segs : List Bytes) :
    totalVerdict (parseRawClientHello bs) = "ok" ∧
    totalVerdict (looksLikeFirefox info) = "ok" ∧
    totalVerdict (looksLikeChrome info) = "ok" ∧
    totalVerdict (looksLikeEdge info) = "ok" ∧
    totalVerdict (looksLikeSafari info) = "ok" ∧
    totalVerdict (looksLikeTor info) = "ok" ∧
    totalVerdict (getVersionStr ua name) = "ok" ∧
    totalVerdict (serveDecision ua bc fc info) = "ok" ∧
    totalVerdict (Casket.Link.parseLinkHeader bs) = "ok" ∧
    totalVerdict (Casket.FCGI.demux bs) = "ok" ∧
    totalVerdict (Casket.FCGI.writePairs 4 1 ps) = "ok" ∧
    segVerdict (recorded segs) (recorded [segs.flatten]) = "ok" := by
  refine ⟨totalVerdict_ok (C19_hello_total bs), totalVerdict_ok (looksLikeFirefox_ok info),
    totalVerdict_ok (looksLikeChrome_ok info), totalVerdict_ok (looksLikeEdge_ok info),
    totalVerdict_ok (looksLikeSafari_ok info), totalVerdict_ok (looksLikeTor_ok info),
    totalVerdict_ok (C19_getVersion_total ua name), totalVerdict_ok (serveDecision_ok ua bc fc info),
    totalVerdict_ok (C19_link_total bs), totalVerdict_ok (C19_record_total bs),
    totalVerdict_ok (C19_pairs_total 4 1 ps), ?_⟩
  rw [← C19_segmentation_independent]
  obtain ⟨x, hx⟩ := C19_recorded_total segs
  rw [hx]
  simp [segVerdict]

/-! ### the model's tables are the tables of mitm.go (regenerated on every check) -/

theorem C19_tables_match_source :
    firefoxExtensions = Casket.Generated.firefoxExtensions ∧
    firefoxRequiredCurves = Casket.Generated.firefoxRequiredCurves ∧
    firefoxAllowedCurves = Casket.Generated.firefoxAllowedCurves ∧
    firefoxCiphers = Casket.Generated.firefoxCiphers ∧
    firefoxCiphers = Casket.Generated.torCiphers ∧
    chromeCipherExclusions = Casket.Generated.chromeCipherExclusions ∧
    safariExtensions = Casket.Generated.safariExtensions ∧
    safariExtensionsIOS11 = Casket.Generated.safariExtensionsIOS11 ∧
    safariCiphers = Casket.Generated.safariCiphers ∧
    torExtensions = Casket.Generated.torExtensions ∧
    torRequiredCurves = Casket.Generated.torRequiredCurves ∧
    greaseCiphers = Casket.Generated.greaseCiphers ∧
    extensionOCSPStatusRequest = Casket.Generated.extensionOCSPStatusRequest ∧
    extensionSupportedCurves = Casket.Generated.extensionSupportedCurves ∧
    extensionSupportedPoints = Casket.Generated.extensionSupportedPoints ∧
    extensionHeartbeat = Casket.Generated.extensionHeartbeat ∧
    scsvRenegotiation = Casket.Generated.scsvRenegotiation ∧
    (4 : Nat) = Casket.Generated.tLS_RSA_WITH_RC4_128_MD5 ∧
    (5 : Nat) = Casket.Generated.tLS_RSA_WITH_RC4_128_SHA := by
  decide

/-! ### non-vacuity: the theorems talk about inputs that reach the interesting code -/

/-- a hello with the Firefox extension order and exactly five curves (the input that used to
panic) is judged, and is accepted -/
def fiveCurveInfo : Info :=
  { version := 771, ciphers := firefoxCiphers, compression := [0],
    extensions := [0, 23, 65281, 10, 11, 35, 16, 5, 13], curves := [29, 23, 24, 25, 256], points := [0] }

example : looksLikeFirefox fiveCurveInfo = .ok true := by decide
example : looksLikeFirefox { fiveCurveInfo with curves := [29, 23, 24, 25, 257] } = .ok false := by decide
example : looksLikeTor { fiveCurveInfo with extensions := [10, 11, 16, 5, 13], curves := [29, 23, 24, 25] } = .ok true := by
  decide
example : looksLikeEdge { fiveCurveInfo with extensions := [5, 10] } = .ok false := by decide

/-- `">foo<"`: no resource, no fault -/
example : Casket.Link.parseLinkHeader [0x3e, 0x66, 0x6f, 0x6f, 0x3c] = .ok [] := by decide
/-- `</a>;b` -/
example : Casket.Link.parseLinkHeader [0x3c, 0x2f, 0x61, 0x3e, 0x3b, 0x62] =
    .ok [{ uri := [0x2f, 0x61], params := [([0x62], [0x62])] }] := by decide

/-- a record header split from its 3-byte message: nothing until the message is complete,
and the same entry as for the unsplit delivery -/
example : recorded [[22, 3, 1, 0, 3, 1], [0], [0, 9, 9]] = recorded [[22, 3, 1, 0, 3, 1, 0, 0, 9, 9]] := by
  decide
example : recorded [[22, 3, 1, 0, 3, 1], [0], [0, 9, 9]] = .ok (some {}) := by decide
example : recorded [[22, 3, 1, 0, 3, 1], [0]] = .ok none := by decide

/-- a name that leaves no room for a value is skipped: the writer state is unchanged -/
example (st : Casket.FCGI.BufW × Nat) (k v : Bytes) (h : 65492 < k.length) :
    Casket.FCGI.pairStep 4 1 st (k, v) = .ok st := by
  obtain ⟨w, nn⟩ := st
  have h1 : 8 + k.length + v.length > Casket.FCGI.maxWrite := by simp [Casket.FCGI.maxWrite]; omega
  have h2 : (Casket.FCGI.maxWrite : Int) - 8 - (k.length : Int) < 0 := by simp [Casket.FCGI.maxWrite]; omega
  simp [Casket.FCGI.pairStep, h1, h2]

/-! ### why the guards added by the `fix:` commits are needed (regression witnesses)

The four statements below are about the operations the code performed before the fixes
(same checked operations, without the added guard). -/

/-- comparing the two allowed extra curves against a five-curve list reads index 5 -/
theorem C19_prefix_firefox_five_curves_witness :
    curvesMatch [29, 23, 24, 25, 256] 4 firefoxAllowedCurves 0 = .error .index := by decide

/-- `link[li+1 : ri]` for `">foo<"` (li = 4, ri = 0) -/
theorem C19_prefix_link_witness :
    sliceInt ([0x3e, 0x66, 0x6f, 0x6f, 0x3c] : Bytes) (4 + 1) 0 = .error .slice := by decide

/-- `v[:maxWrite-8-len(k)]` for a 65493-byte name -/
theorem C19_prefix_pairs_witness (v : Bytes) :
    sliceInt v 0 ((Casket.FCGI.maxWrite : Int) - 8 - 65493) = .error .slice := by
  simp [sliceInt, Casket.FCGI.maxWrite]

/-- `Read` as it was: the five header bytes are consumed as soon as they are there. -/
def readConsuming (c : Conn) (seg : Bytes) : R Conn :=
  if c.readHello then .ok c else
  let buf := c.buf ++ seg
  if buf.length < 5 then .ok { c with buf := buf } else
  match recordLen buf with
  | .error e => .error e
  | .ok length =>
    let buf := buf.drop 5
    if buf.length < length then .ok { c with buf := buf } else
    match slice buf 0 length with
    | .error e => .error e
    | .ok hello =>
      match parseRawClientHello hello with
      | .error e => .error e
      | .ok info => .ok { buf := [], readHello := true, recorded := some info }

/-- with the consuming `Read`, a hello whose last byte arrives in a second read is never
recorded, while the unsplit delivery records it -/
theorem C19_prefix_segmentation_witness :
    let whole : Bytes := [22, 3, 1, 0, 3, 1, 0, 0]
    (match readConsuming {} (whole.take 7) with
      | .ok c => (match readConsuming c (whole.drop 7) with | .ok c' => c'.recorded | .error _ => none)
      | .error _ => none) = none ∧
    (match readConsuming {} whole with | .ok c => c.recorded | .error _ => none) = some {} := by
  decide

/-- `Accept` without the `Reset` (the pool is trusted to hold empty buffers) -/
def acceptNoReset (p : Pool) (k : Nat) : Conn × Pool :=
  let (b, p') := p.get k
  ({ buf := b }, p')

/-- a `Close` that hands the buffer of a connection whose hello never completed back to the pool
as it is -/
def closePutting (c : Conn) (p : Pool) : Pool := if c.readHello then p else p.put c.buf

/-- with those two, three bytes sent by peer A (and then gone) are in front of peer B's record when
B's connection gets the same buffer: B's complete hello is never recorded, although the same bytes
on their own are -/
theorem C19_prefix_pool_witness :
    let a : Bytes := [22, 3, 1]
    let b : Bytes := [22, 3, 1, 0, 3, 1, 0, 0]
    (match (acceptNoReset {} 0).1.read a with
      | .ok cA =>
        (match (acceptNoReset (closePutting cA (acceptNoReset {} 0).2) 0).1.read b with
          | .ok cB => cB.recorded
          | .error _ => none)
      | .error _ => none) = none ∧
    recorded [b] = .ok (some {}) := by
  decide

/-! ### the Status header a FastCGI responder sends -/

/-- For every value of the responder's `Status` header (any bytes: empty, blanks only, non-ASCII
white space, no reason phrase, non-numeric, huge numbers): `statusParts[0]` and `statusParts[1]`
in `FCGIClient.Request` are in range, and `Handler.ServeHTTP`'s treatment of the result is a value. -/
theorem C19_status_total (v : Bytes) :
    IsOk (Casket.FCGIStatus.parseStatus v) ∧ IsOk (Casket.FCGIStatus.serve v) :=
  ⟨Casket.FCGIStatus.parseStatus_ok v, Casket.FCGIStatus.serve_ok v⟩

/-- Every status code `Handler.ServeHTTP` hands to `http.ResponseWriter.WriteHeader` is one net/http
accepts (100..999; `WriteHeader` panics on any other), whatever the responder put into `Status`. -/
theorem C19_status_written_code_valid (v : Bytes) (c : Int)
    (h : Casket.FCGIStatus.serve v = .ok (.wrote c)) : Casket.FCGIStatus.validCode c = true :=
  Casket.FCGIStatus.serve_wrote_valid v c h

/-- the judge of c19.status accepts every model answer -/
theorem C19_status_model_verdict_ok (v : Bytes) :
    totalVerdict (Casket.FCGIStatus.parseStatus v) = "ok" ∧
    totalVerdict (Casket.FCGIStatus.serve v) = "ok" :=
  ⟨totalVerdict_ok (C19_status_total v).1, totalVerdict_ok (C19_status_total v).2⟩

/-- `ServeHTTP` as it was (no range guard): `Status: 99` reaches `WriteHeader(99)`, which net/http
answers with a panic. -/
theorem C19_prefix_status_witness :
    Casket.FCGIStatus.serveUnguarded [57, 57] = .ok (.wrote 99) ∧
    Casket.FCGIStatus.validCode 99 = false ∧
    Casket.FCGIStatus.serve [57, 57] = .ok .badGateway := by
  decide

/-- non-vacuity: a Status value made of U+00A0 only is an Atoi error (502), not a fault;
`404 Not Found` is read as code and reason phrase; several blanks stay in the reason phrase -/
example : Casket.FCGIStatus.parseStatus [0xc2, 0xa0] = .ok none := by decide
example : Casket.FCGIStatus.parseStatus (bytes "404 Not Found") = .ok (some ⟨404, bytes "Not Found"⟩) := by decide
example : Casket.FCGIStatus.serve (bytes "404 Not Found") = .ok (.wrote 404) := by decide

/-! ### basicauth rules installed through the directive's setup (model `Casket.AuthCfg`, stream c19.authcfg) -/

/-- For EVERY history of configuration loads through the process-wide htpasswd cache (any file contents,
stamps that change or stay, files that disappear, any rule users) and EVERY Authorization header, a load
is either refused or installs a handler that answers the request: no rule the setup accepted carries a
nil password matcher for the peer's chosen user name to reach. -/
theorem C19_authcfg_never_calls_nil_matcher (auth : Option (Nat × Nat)) (ls : List Casket.AuthCfg.Load)
    (c : Casket.AuthCfg.Cache) : some Casket.AuthCfg.Outcome.panic ∉ Casket.AuthCfg.run auth ls c :=
  Casket.AuthCfg.run_never_panics auth ls c

/-- what the setup hands to `Rule.Password` is never nil, cached table or freshly parsed -/
theorem C19_authcfg_setup_matchers_present (d : Option Casket.AuthCfg.Disk) (us : List Nat)
    (c : Casket.AuthCfg.Cache) (rs : List Casket.AuthCfg.Rule) (c1 : Casket.AuthCfg.Cache)
    (h : Casket.AuthCfg.setup d us c = (some rs, c1)) : ∀ r ∈ rs, r.2.isSome = true :=
  Casket.AuthCfg.setup_matchers_some d us c h

/-- the judge of c19.authcfg accepts every model answer -/
theorem C19_authcfg_model_verdict_ok (auth : Option (Nat × Nat)) (ls : List Casket.AuthCfg.Load)
    (c : Casket.AuthCfg.Cache) : Casket.AuthCfg.verdict (Casket.AuthCfg.run auth ls c) = "ok" := by
  unfold Casket.AuthCfg.verdict
  rw [if_neg]
  simp only [List.any_eq_true, decide_eq_true_eq, not_exists, not_and]
  intro o ho he
  exact C19_authcfg_never_calls_nil_matcher auth ls c (he ▸ ho)

/-- non-vacuity: the shape of the seeded defect — the second rule's user is missing from a file the
first rule has already put into the cache — is a REFUSED load in the model, a later load with the user
present answers 200 for the right password and 401 otherwise; and the witness that the guard matters:
a rule list with a nil matcher does panic on exactly that user name. -/
example : Casket.AuthCfg.run (some (1, 7)) [(some ⟨1, [(0, 5)]⟩, [0, 1]), (some ⟨2, [(0, 5), (1, 7)]⟩, [0, 1])] none
    = [none, some (.code 200)] := by decide
example : Casket.AuthCfg.run (some (1, 8)) [(some ⟨2, [(0, 5), (1, 7)]⟩, [0, 1])] none = [some (.code 401)] := by decide
example : Casket.AuthCfg.serve [(0, some 5), (1, none)] (some (1, 7)) = .panic := by decide
example : Casket.AuthCfg.serve [(0, some 5), (1, none)] (some (0, 5)) = .code 200 := by decide

end Casket.Props.C19
