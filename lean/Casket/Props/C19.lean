import Casket.Model.Hello
import Casket.Model.Mitm
import Casket.Model.Link
import Casket.Model.FCGI
import Casket.Spec.PeerBytes
namespace Casket.Props.C19
theorem placeholder : True := trivial
end Casket.Props.C19
