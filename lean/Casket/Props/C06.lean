import Casket.Model.TLSGroup
import Casket.Spec.TLSGroup
import Casket.Generated.TLSDefaults
namespace Casket.Props.C06

theorem C06_placeholder : True := trivial

end Casket.Props.C06
