import Casket.Proofs.TLSGroup
import Casket.Proofs.TLSSetup
import Casket.Generated.TLSDefaults
/-
C06 — TLS settings follow the SNI-matched site; no TLS/plaintext mixing.   (partial: crypto/tls)

Statements only; helper lemmas live in Casket/Proofs/TLSGroup.lean.

`pipeline` is the model of SetDefaultTLSParams → MakeTLSConfig → configGroup.getConfig, i.e. of
what the GetConfigForClient callback of a listener answers for a ClientHello; it is tied to the Go
code by the stream `c06.select`.  `serveTLS` adds the strict SNI = Host branch of serveHTTP
(stream `c06.snihost`).  What crypto/tls then does with the chosen tls.Config (version
negotiation, certificate request) and which certificate certmagic presents are NOT modelled;
stream `c06.handshake` explores them with real in-memory handshakes.
-/
namespace Casket.Props.C06
open Casket.TLSGroup Casket.TLSSpec
open Casket.VHost (Bytes lower hostCands)

/-- The whole judged predicate: for every list of per-site TLS settings, every server name and
local address, the model's answer gets the verdict "ok" — mixes / unreadable CAs / same-key
conflicts are rejected, a plaintext set stays plaintext, and a consistent set answers every
hello with the settings of the most specific site (defaults filled in). -/
theorem C06_model_verdict_ok (aesni : Bool) (raw : List Cfg) (sni : Bytes) (la : Option Bytes) :
    verdict aesni raw sni la (pipeline aesni raw sni la) = "ok" := by
  unfold verdict
  by_cases hdom : inDomain raw = true
  · simp only [hdom, Bool.not_true, Bool.false_eq_true, if_false]
    by_cases hmix : mixed raw = true
    · obtain ⟨n, hn⟩ := pipeline_mixed aesni raw sni la hmix
      simp [hmix, hn]
    · simp only [hmix, if_false]
      by_cases hdis : raw.all (!·.enabled) = true
      · simp [hdis, pipeline_plain aesni raw sni la hdis]
      · simp only [hdis, if_false]
        have hen : raw.all (·.enabled) = true := by
          rw [List.all_eq_true]
          intro c hc
          cases hce : c.enabled with
          | true => rfl
          | false =>
            exfalso
            apply hmix
            unfold mixed
            simp only [Bool.and_eq_true, List.any_eq_true, Bool.not_eq_true']
            refine ⟨?_, ⟨c, hc, hce⟩⟩
            apply Classical.byContradiction
            intro hno
            apply hdis
            rw [List.all_eq_true]
            intro d hd
            cases hde : d.enabled with
            | false => rfl
            | true => exact absurd ⟨d, hd, hde⟩ hno
        have hne : raw ≠ [] := by
          intro h; apply hdis; rw [h]; rfl
        by_cases hca : caMissing raw = true
        · obtain ⟨n, hn⟩ := pipeline_missing_ca aesni raw sni la hen hne hca
          simp [hca, hn]
        · simp only [hca, if_false]
          have hca' : caMissing raw = false := by simpa using hca
          by_cases hconf : conflicting aesni raw = true
          · simp only [hconf, if_true]
            obtain ⟨c0, rest, hraw⟩ : ∃ c0 rest, raw = c0 :: rest := by
              cases raw with
              | nil => exact absurd rfl hne
              | cons a b => exact ⟨a, b, rfl⟩
            have hmk := makeTLS_enabled aesni raw c0 rest hraw hen hca' hdom
            have hnot : ¬ ∃ g', loopS (raw.map (steppedOf aesni)) 0 [] = .ok g' := by
              rw [loopS_ok_iff, pairOK_steppedOf, hconf]; simp
            cases hl : loopS (raw.map (steppedOf aesni)) 0 [] with
            | ok g' => exact absurd ⟨g', hl⟩ hnot
            | error j =>
              rw [hl] at hmk
              simp [pipeline, hmk]
          · simp only [hconf, if_false]
            exact selectVerdict_pipeline aesni raw sni la hen hne hca' hdom (by simpa using hconf)
  · simp [hdom]

/-- No TLS/plaintext mixing: a list of configs that do not agree on `Enabled` is rejected by
`MakeTLSConfig` (any configs, not only defaulted ones) … -/
theorem C06_mixed_rejected (aesni : Bool) (cfgs : List Cfg) (h : mixed cfgs = true) :
    ∃ e, makeTLS aesni cfgs = .error e :=
  makeTLS_mixed aesni cfgs h

/-- … and so is the site set it comes from, whatever the hello. -/
theorem C06_mixed_sites_rejected (aesni : Bool) (raw : List Cfg) (sni : Bytes) (la : Option Bytes)
    (h : mixed raw = true) : ∃ n, pipeline aesni raw sni la = .error n :=
  pipeline_mixed aesni raw sni la h

/-- Two TLS sites that share an SNI key (`0.0.0.0`, `::` and the empty host share one) but not
their protocol range / ciphers / curves / ALPN / client-certificate policy are rejected. -/
theorem C06_incompatible_same_name_rejected (aesni : Bool) (raw : List Cfg) (sni : Bytes) (la : Option Bytes)
    (hdom : inDomain raw = true) (hen : raw.all (·.enabled) = true) (hca : caMissing raw = false)
    (hconf : conflicting aesni raw = true) : ∃ n, pipeline aesni raw sni la = .error n := by
  have hne : raw ≠ [] := by intro h; rw [h] at hconf; cases hconf
  obtain ⟨c0, rest, hraw⟩ : ∃ c0 rest, raw = c0 :: rest := by
    cases raw with
    | nil => exact absurd rfl hne
    | cons a b => exact ⟨a, b, rfl⟩
  have hmk := makeTLS_enabled aesni raw c0 rest hraw hen hca hdom
  have hnot : ¬ ∃ g', loopS (raw.map (steppedOf aesni)) 0 [] = .ok g' := by
    rw [loopS_ok_iff, pairOK_steppedOf, hconf]; simp
  cases hl : loopS (raw.map (steppedOf aesni)) 0 [] with
  | ok g' => exact absurd ⟨g', hl⟩ hnot
  | error j => rw [hl] at hmk; exact ⟨2, by simp [pipeline, hmk, Err.cls]⟩

/-- The obligation behind `assertClientCertsCompatible`, made explicit: two TLS sites that share an SNI
key and differ in NOTHING but the client-certificate mode (request / require / verify_if_given /
require-and-verify / none — the same CA list in the same order, everything else equal) are rejected;
an on/off comparison is not enough. -/
theorem C06_clientauth_modes_must_agree (aesni : Bool) (before between after : List Cfg) (c : Cfg) (m : Nat)
    (sni : Bytes) (la : Option Bytes) (hm : m ≠ c.clientAuth)
    (hdom : inDomain (before ++ c :: between ++ { c with clientAuth := m } :: after) = true)
    (hen : (before ++ c :: between ++ { c with clientAuth := m } :: after).all (·.enabled) = true)
    (hca : caMissing (before ++ c :: between ++ { c with clientAuth := m } :: after) = false) :
    ∃ n, pipeline aesni (before ++ c :: between ++ { c with clientAuth := m } :: after) sni la = .error n := by
  apply C06_incompatible_same_name_rejected aesni _ sni la hdom hen hca
  have hpair : sameSettings aesni c { c with clientAuth := m } = false := by
    unfold sameSettings
    have : (effective aesni c == effective aesni { c with clientAuth := m }) = false := by
      rw [beq_eq_false_iff_ne]
      intro h
      have := congrArg Built.clientAuth h
      exact hm this.symm
    rw [this]; rfl
  have hcons : ∀ rest : List Cfg, conflicting aesni (c :: between ++ { c with clientAuth := m } :: rest) = true := by
    intro rest
    rw [List.cons_append]
    unfold conflicting
    rw [Bool.or_eq_true, List.any_eq_true]
    left
    exact ⟨{ c with clientAuth := m }, by simp, by simp [hpair]⟩
  have happ : ∀ (l1 l2 : List Cfg), conflicting aesni l2 = true → conflicting aesni (l1 ++ l2) = true := by
    intro l1 l2 h
    induction l1 with
    | nil => exact h
    | cons x xs ih =>
      show conflicting aesni (x :: (xs ++ l2)) = true
      unfold conflicting
      rw [ih]; simp
  have := happ before _ (hcons after)
  simpa [List.append_assoc] using this

/-- A consistent TLS site set (all enabled, CAs readable, no same-key conflict): whenever the
callback answers with a definite config, it is the config `wanted` names — the last site
declared under the first declared key among: the server name, the name with 1, 2, … leading
labels replaced by `*`, the catch-all key (for an empty name the local address first) — and
the settings are exactly that site's own with defaults filled in. -/
theorem C06_sni_most_specific (aesni : Bool) (raw : List Cfg) (sni : Bytes) (la : Option Bytes)
    (hdom : inDomain raw = true) (hen : raw.all (·.enabled) = true) (hne : raw ≠ [])
    (hca : caMissing raw = false) (hconf : conflicting aesni raw = false)
    (i : Nat) (b : Built) (hp : pipeline aesni raw sni la = .cfg i b) :
    (∀ j, wanted raw sni la = some j → i = j) ∧ ∃ c, raw[i]? = some c ∧ b = effective aesni c := by
  have hv := selectVerdict_pipeline aesni raw sni la hen hne hca hdom hconf
  rw [hp] at hv
  simp only [selectVerdict] at hv
  cases hc : raw[i]? with
  | none => rw [hc] at hv; simp at hv
  | some c =>
    rw [hc] at hv
    simp only [] at hv
    have hset : ∀ (h : settingsVerdict aesni c b = "ok"), b = effective aesni c := by
      intro h
      unfold settingsVerdict at h
      split at h
      · simp at h
      · split at h
        · simp at h
        · split at h
          · simp at h
          · split at h
            · simp at h
            · rename_i hne'; simpa using hne'
    cases hw : wanted raw sni la with
    | none =>
      rw [hw] at hv
      exact ⟨fun j hj => (nomatch hj), c, rfl, hset hv⟩
    | some j =>
      rw [hw] at hv
      simp only [] at hv
      by_cases hij : i = j
      · subst hij
        simp only [bne_self_eq_false, Bool.false_eq_true, if_false] at hv
        exact ⟨fun j' hj' => (Option.some.inj hj'), c, rfl, hset hv⟩
      · have : (i != j) = true := by simpa using hij
        simp [this] at hv

/-- …and the random failover ("any config") happens only for names no site matches. -/
theorem C06_failover_only_unmatched (aesni : Bool) (raw : List Cfg) (sni : Bytes) (la : Option Bytes)
    (hdom : inDomain raw = true) (hen : raw.all (·.enabled) = true) (hne : raw ≠ [])
    (hca : caMissing raw = false) (hconf : conflicting aesni raw = false)
    (hp : pipeline aesni raw sni la = .any) : wanted raw sni la = none := by
  have hv := selectVerdict_pipeline aesni raw sni la hen hne hca hdom hconf
  rw [hp] at hv
  simp only [selectVerdict] at hv
  cases hw : wanted raw sni la with
  | none => rfl
  | some j => rw [hw] at hv; simp at hv

/-- What `wanted` means without a local-address match: the first candidate key (name, wildcarded
name by increasing number of `*` labels, catch-all) that some site declares, no earlier
candidate being declared by any site. -/
theorem C06_wanted_is_first_declared (raw : List Cfg) (sni : Bytes) (j : Nat)
    (h : wanted raw sni none = some j) :
    ∃ k before after, hostCands (normalizedName sni) ++ [[]] = before ++ k :: after ∧
      (∀ k' ∈ before, keyDeclared raw k' = false) ∧ keyDeclared raw k = true ∧ lastIdx raw k 0 = some j := by
  unfold wanted at h
  simp only [Option.bind_none, ite_self] at h
  unfold specKey at h
  cases hf : List.find? (keyDeclared raw) (hostCands (normalizedName sni) ++ [[]]) with
  | none => rw [hf] at h; cases h
  | some k =>
    rw [hf] at h
    obtain ⟨hd, before, after, hs, hb⟩ := List.find?_eq_some_iff_append.mp hf
    exact ⟨k, before, after, hs, fun k' hk' => by simpa using hb k' hk', hd, h⟩

/-- TLS 1.2 is the minimum unless the site configures otherwise, TLS 1.3 the maximum. -/
theorem C06_default_min_tls12 (aesni : Bool) (c : Cfg) :
    (effective aesni c).minV = (if c.minV = 0 then tls12 else c.minV) ∧
    (effective aesni c).maxV = (if c.maxV = 0 then tls13 else c.maxV) ∧
    (setDefaults aesni c).minV = (if c.minV = 0 then tls12 else c.minV) := ⟨rfl, rfl, rfl⟩

/-- `buildStandardTLSConfig` always puts TLS_FALLBACK_SCSV first (any config, defaulted or not),
and offers `acme-tls/1`. -/
theorem C06_scsv_first (aesni : Bool) (c c' : Cfg) (b : Built) (h : build aesni c = some (c', b)) :
    b.ciphers.head? = some scsv ∧ acmeALPN ∈ b.nextProtos := by
  unfold build at h
  split at h
  · cases h
  · simp only [Option.some.injEq, Prod.mk.injEq] at h
    obtain ⟨_, rfl⟩ := h
    constructor
    · simp only []
      generalize (if (dedup c.ciphers []).isEmpty then preferredDefaultCiphers aesni else dedup c.ciphers []) = cs
      by_cases hh : cs.head? = some scsv
      · simp [hh]
      · simp [hh]
    · simp only []
      split
      · rename_i hc; simpa using hc
      · simp

/-- …as a judged predicate (stream `c06.build`). -/
theorem C06_build_model_verdict_ok (aesni : Bool) (c : Cfg) : buildVerdict (build aesni c) = "ok" := by
  unfold buildVerdict
  cases h : build aesni c with
  | none => rfl
  | some p =>
    obtain ⟨c', b⟩ := p
    obtain ⟨h1, h2⟩ := C06_scsv_first aesni c c' b h
    have h2' : b.nextProtos.contains acmeALPN = true := by simpa using h2
    simp [h1, h2]

/-- Strict SNI: a request that reaches the chain of a site which demands client certificates
(and has not switched the check off) over TLS was made under the same name as its Host. -/
theorem C06_clientauth_sni_host_agree (sites : List Casket.VHost.Site) (cfgs : List Cfg)
    (r : Casket.VHost.Req) (sni : Bytes) (i : Nat) (c : Cfg)
    (hs : serveTLS sites cfgs r (some sni) = .site i) (hc : cfgs[i]? = some c)
    (hauth : c.clientAuth ≠ 0) (hon : c.disableSNIMatching = false) :
    lower sni = lower (Casket.VHost.stripPort r.host) := by
  unfold serveTLS at hs
  cases hr : Casket.VHost.route sites r with
  | notFound st => rw [hr] at hs; cases hs
  | site j p =>
    rw [hr] at hs
    simp only [] at hs
    cases hcj : cfgs[j]? with
    | none =>
      rw [hcj] at hs
      simp only [Served.site.injEq] at hs
      subst hs; rw [hc] at hcj; cases hcj
    | some c' =>
      rw [hcj] at hs
      simp only [] at hs
      split at hs
      · cases hs
      · rename_i hf
        simp only [Served.site.injEq] at hs
        subst hs
        rw [hc] at hcj
        cases hcj
        unfold strictSNIForbidden at hf
        simp only [hon, Bool.not_false, Option.isSome_some, Bool.and_self, Bool.true_and, Option.getD_some,
          Bool.and_eq_true, bne_iff_ne, ne_eq, not_and, Decidable.not_not] at hf
        exact hf hauth

/-- The same as a judged predicate over `serveTLS` (stream `c06.snihost`). -/
theorem C06_snihost_model_verdict_ok (sites : List Casket.VHost.Site) (cfgs : List Cfg)
    (r : Casket.VHost.Req) (sni : Option Bytes) :
    sniVerdict cfgs r sni (serveTLS sites cfgs r sni) = "ok" := by
  unfold sniVerdict
  cases hs : serveTLS sites cfgs r sni with
  | forbidden => rfl
  | notFound st => rfl
  | site i =>
    cases sni with
    | none => rfl
    | some name =>
      simp only []
      cases hc : cfgs[i]? with
      | none => rfl
      | some c =>
        simp only []
        by_cases hauth : c.clientAuth = 0
        · simp [hauth]
        · cases hon : c.disableSNIMatching with
          | true => simp
          | false =>
            have := C06_clientauth_sni_host_agree sites cfgs r name i c hs hc hauth hon
            simp [this]

/-- Handshake level (MODEL of crypto/tls + certmagic, tied to real handshakes only by the
exploring stream `c06.handshake`): the modelled handshake always satisfies the handshake judge —
no handshake on a set that must be rejected, version within the governing site's range,
certificate request iff that site demands one, that site's certificate when found by name. -/
theorem C06_handshake_model_verdict_ok (aesni : Bool) (raw : List Cfg) (sni : Bytes) (cmin cmax : Nat)
    (la : Option Bytes) : hsVerdict aesni raw sni la (handshake aesni raw sni cmin cmax la) = "ok" := by
  have hfail : ∀ (h : ∀ i b, pipeline aesni raw sni la ≠ .cfg i b), handshake aesni raw sni cmin cmax la = .fail := by
    intro h
    unfold handshake
    cases hp : pipeline aesni raw sni la with
    | cfg i b => exact absurd hp (h i b)
    | _ => rfl
  unfold hsVerdict
  by_cases hdom : inDomain raw = true
  · simp only [hdom, Bool.not_true, Bool.false_eq_true, if_false]
    by_cases hmix : mixed raw = true
    · obtain ⟨n, hn⟩ := pipeline_mixed aesni raw sni la hmix
      rw [hfail (by intro i b; rw [hn]; simp)]
      simp [hmix, hsInvalid]
    · simp only [hmix, if_false]
      by_cases hdis : raw.all (!·.enabled) = true
      · rw [hfail (by intro i b; rw [pipeline_plain aesni raw sni la hdis]; simp)]
        simp [hdis, hsInvalid]
      · simp only [hdis, if_false]
        have hen : raw.all (·.enabled) = true := by
          rw [List.all_eq_true]
          intro c hc
          cases hce : c.enabled with
          | true => rfl
          | false =>
            exfalso
            apply hmix
            unfold mixed
            simp only [Bool.and_eq_true, List.any_eq_true, Bool.not_eq_true']
            refine ⟨?_, ⟨c, hc, hce⟩⟩
            apply Classical.byContradiction
            intro hno
            apply hdis
            rw [List.all_eq_true]
            intro d hd
            cases hde : d.enabled with
            | false => rfl
            | true => exact absurd ⟨d, hd, hde⟩ hno
        have hne : raw ≠ [] := by
          intro h; apply hdis; rw [h]; rfl
        by_cases hca : caMissing raw = true
        · obtain ⟨n, hn⟩ := pipeline_missing_ca aesni raw sni la hen hne hca
          rw [hfail (by intro i b; rw [hn]; simp)]
          simp [hca, hsInvalid]
        · simp only [hca, if_false]
          have hca' : caMissing raw = false := by simpa using hca
          by_cases hconf : conflicting aesni raw = true
          · obtain ⟨n, hn⟩ := C06_incompatible_same_name_rejected aesni raw sni la hdom hen hca' hconf
            rw [hfail (by intro i b; rw [hn]; simp)]
            simp [hconf, hsInvalid]
          · simp only [hconf, if_false]
            have hconf' : conflicting aesni raw = false := by simpa using hconf
            by_cases hname : mapKey (normalizedName sni) = []
            · simp [hname]
            · simp only [hname, if_false, Bool.false_eq_true]
              unfold handshake
              cases hp : pipeline aesni raw sni la with
              | cfg i b =>
                simp only []
                have hnn : normalizedName sni ≠ [] := by
                  intro h; rw [h] at hname; exact hname rfl
                simp only [hnn, if_false]
                cases hcert : certFor raw (normalizedName sni) with
                | none => rfl
                | some san =>
                  simp only []
                  by_cases hv : min cmax b.maxV < max cmin b.minV
                  · rw [if_pos hv]
                  · rw [if_neg hv]
                    by_cases hcbc : (!usable (min cmax b.maxV) b.ciphers) = true
                    · rw [if_pos hcbc]
                    · rw [if_neg hcbc]
                      cases hw : wanted raw sni la with
                      | none => rfl
                      | some j =>
                        simp only []
                        obtain ⟨hij, c, hc, hb⟩ := C06_sni_most_specific aesni raw sni la hdom hen hne hca' hconf' i b hp
                        have := hij j hw
                        subst this
                        rw [hc]
                        simp only []
                        subst hb
                        have h1 : ¬ min cmax (effective aesni c).maxV < (effective aesni c).minV := by omega
                        have h2 : ¬ (effective aesni c).maxV < min cmax (effective aesni c).maxV := by omega
                        have h3 : (((effective aesni c).clientAuth != 0) != (c.clientAuth != 0)) = false := by
                          simp [effective]
                        simp only [h1, h2, h3, if_false, Bool.false_eq_true]
                        by_cases hk : mapKey c.hostname = []
                        · simp [hk]
                        · -- found by name: the certificate is the site's
                          have hwk : (specKey raw (normalizedName sni)).bind (fun k => lastIdx raw k 0) = some i := by
                            unfold wanted at hw
                            simpa [hnn] using hw
                          cases hsk : specKey raw (normalizedName sni) with
                          | none => rw [hsk] at hwk; cases hwk
                          | some k =>
                            rw [hsk] at hwk
                            simp only [Option.bind_some] at hwk
                            obtain ⟨_, c', hc', hkc⟩ := lastIdx_spec hwk
                            simp only [Nat.sub_zero] at hc'
                            rw [hc] at hc'
                            cases hc'
                            have hkne : k ≠ [] := by rw [← hkc]; exact hk
                            have hsan := certFor_eq_key hname hcert hsk hkne
                            have hself := mapKey_eq_self hk
                            rw [hself] at hkc
                            simp [hsan, hkc]
              | _ => rfl
  · simp [hdom]

/-- SNI = Host = one name, consistent TLS site set whose `TLS.Hostname`s are the sites' normalised
hosts: if the site that serves the request demands client certificates, the handshake was
governed by a config with the same client-certificate policy (its own, or one stored under the
same SNI key and therefore checked compatible).  `_partial`: proved for sites found directly by
name (exact or wildcard) or declared as one of the catch-all hosts; what is excluded — sites that
only the vhost fallback wildcarding reaches (`*`, `*.*.*.*`, …) and plugin-designated fallback
sites — is exactly the class of `C06_clientauth_bypass_fails_witness`. -/
theorem C06_handshake_config_is_sites_config_partial (aesni : Bool) (sites : List Casket.VHost.Site)
    (cfgs : List Cfg) (name path : Bytes)
    (hh : cfgs.map (·.hostname) = sites.map (fun s => (Casket.VHost.keyOf s).1))
    (hdomT : inDomain cfgs = true) (hen : cfgs.all (·.enabled) = true) (hca : caMissing cfgs = false)
    (hconf : conflicting aesni cfgs = false)
    (hdomV : Casket.VHostSpec.inDomain sites ⟨name, path, 1⟩ = true)
    (hname : normalizedName name = Casket.VHostSpec.normHost name)
    (hna : mapKey (Casket.VHostSpec.normHost name) ≠ [])
    (hdirect : ∀ c k, Casket.VHostSpec.chosenKey sites ⟨name, path, 1⟩ = some (c, k) →
      c ∈ hostCands (Casket.VHostSpec.normHost name) ∨ mapKey c = []) :
    crossVerdict cfgs (connect aesni sites cfgs name path) = "ok" := by
  -- what the request gets does not depend on the selection, except through `sni`
  have served : ∀ (sni : Option Bytes) (i : Nat), serveTLS sites cfgs ⟨name, path, 1⟩ sni = .site i →
      Casket.VHostSpec.specRoute sites ⟨name, path, 1⟩ = .site i
        (match Casket.VHostSpec.specRoute sites ⟨name, path, 1⟩ with | .site _ p => p | _ => []) := by
    intro sni i hs
    unfold serveTLS at hs
    rw [Casket.VHost.route_eq_spec sites _ hdomV] at hs
    cases hr : Casket.VHostSpec.specRoute sites ⟨name, path, 1⟩ with
    | notFound st => rw [hr] at hs; cases hs
    | site j p =>
      rw [hr] at hs
      simp only [] at hs
      cases hcj : cfgs[j]? with
      | none => rw [hcj] at hs; simp only [Served.site.injEq] at hs; subst hs; rfl
      | some c' =>
        rw [hcj] at hs
        simp only [] at hs
        split at hs
        · cases hs
        · simp only [Served.site.injEq] at hs; subst hs; rfl
  unfold crossVerdict
  cases hcon : connect aesni sites cfgs name path with
  | mk sel sv =>
    simp only []
    cases sv with
    | forbidden => rfl
    | notFound st => rfl
    | site i =>
      simp only []
      cases hci : cfgs[i]? with
      | none => rfl
      | some c =>
        simp only []
        by_cases hoff : (c.clientAuth == 0 || c.disableSNIMatching) = true
        · simp [hoff]
        · simp only [hoff, if_false, Bool.false_eq_true]
          have hauth : c.clientAuth ≠ 0 := by
            intro h; apply hoff; simp [h]
          have hne : cfgs ≠ [] := by intro h; rw [h] at hci; simp at hci
          -- which serveTLS call produced `site i`
          unfold connect at hcon
          have hsv : ∃ sni, serveTLS sites cfgs ⟨name, path, 1⟩ sni = .site i ∧ sel = pipeline aesni cfgs name none := by
            cases hp : pipeline aesni cfgs name none with
            | error n => rw [hp] at hcon; simp at hcon
            | plain => rw [hp] at hcon; simp only [Prod.mk.injEq] at hcon; exact ⟨none, hcon.2, hcon.1.symm⟩
            | nothing => rw [hp] at hcon; simp only [Prod.mk.injEq] at hcon; exact ⟨some name, hcon.2, hcon.1.symm⟩
            | any => rw [hp] at hcon; simp only [Prod.mk.injEq] at hcon; exact ⟨some name, hcon.2, hcon.1.symm⟩
            | cfg j b => rw [hp] at hcon; simp only [Prod.mk.injEq] at hcon; exact ⟨some name, hcon.2, hcon.1.symm⟩
          obtain ⟨sni, hs, hsel⟩ := hsv
          obtain ⟨c', j, d, hc', hw, hd, hk⟩ := wanted_of_route hh (served sni i hs) hname hna hdirect
          rw [hci] at hc'; cases hc'
          have hsame := sameKey_sameClientAuth hconf hci hd hk hauth
          cases hp : pipeline aesni cfgs name none with
          | error n => rw [hsel, hp]
          | plain => rw [hsel, hp]
          | nothing => rw [hsel, hp]
          | any =>
            have := C06_failover_only_unmatched aesni cfgs name none hdomT hen hne hca hconf hp
            rw [hw] at this; cases this
          | cfg j' b =>
            rw [hsel, hp]
            simp only []
            obtain ⟨hij, _⟩ := C06_sni_most_specific aesni cfgs name none hdomT hen hne hca hconf j' b hp
            have := hij j hw
            subst this
            rw [hd]
            simp [hsame]

/-- What `_partial` excludes is real (confirmed on the code by stream `c06.connect`, known finding
C06-vhost-only-catchall): sites `:443` (open) and `*:443` (client certificates required), a client
using `b.a.com` as SNI and Host — routing reaches the `*` site through the fallback wildcarding
before the empty host, the handshake is governed by the config of `:443`. -/
theorem C06_clientauth_bypass_fails_witness :
    let open_ : Cfg := ⟨[], true, 0, 0, [], [], false, 0, [], [], false⟩
    let star : Cfg := ⟨[42], true, 0, 0, [], [], false, 4, [0], [], false⟩
    let sites : List Casket.VHost.Site := [⟨[58, 52, 52, 51], false, []⟩, ⟨[42, 58, 52, 52, 51], false, [42]⟩]
    (match connect true sites [open_, star] [98, 46, 97, 46, 99, 111, 109] [47] with
      | (.cfg j _, .site i) => (j, i) | _ => (9, 9)) = (0, 1) ∧
    crossVerdict [open_, star] (connect true sites [open_, star] [98, 46, 97, 46, 99, 111, 109] [47]) ≠ "ok" := by
  decide

/-! ### One connection, SNI and Host apart (stream `c06.cross`) -/

/-- `connect` (one name in both roles) is the diagonal of `connectSH`. -/
theorem C06_connect_is_connectSH_diagonal (aesni : Bool) (sites : List Casket.VHost.Site) (cfgs : List Cfg)
    (name path : Bytes) : connect aesni sites cfgs name path = connectSH aesni sites cfgs name name path := by
  unfold connect connectSH
  cases pipeline aesni cfgs name none <;> rfl

/-- A handshake made under `sni` (whichever site's config governed it), then a request for `host`
that reaches the chain of a site demanding client certificates (check on): the two names agree.
Nothing is assumed about the site's host pattern — in particular a wildcard or catch-all pattern
that would also match `sni` does not count as agreement: under `sni` the handshake may have been
governed by a more specific site with another client-certificate policy. -/
theorem C06_cross_clientauth_sni_host_agree (aesni : Bool) (sites : List Casket.VHost.Site) (cfgs : List Cfg)
    (sni host path : Bytes) (sel : Obs) (i : Nat) (c : Cfg)
    (hcon : connectSH aesni sites cfgs sni host path = (sel, .site i)) (htls : sel ≠ .plain)
    (hc : cfgs[i]? = some c) (hauth : c.clientAuth ≠ 0) (hon : c.disableSNIMatching = false) :
    lower sni = lower (Casket.VHost.stripPort host) := by
  unfold connectSH at hcon
  have key : serveTLS sites cfgs ⟨host, path, 1⟩ (some sni) = .site i := by
    cases hp : pipeline aesni cfgs sni none with
    | error n => rw [hp] at hcon; simp at hcon
    | plain => rw [hp] at hcon; simp only [Prod.mk.injEq] at hcon; exact absurd hcon.1.symm htls
    | nothing => rw [hp] at hcon; simp only [Prod.mk.injEq] at hcon; exact hcon.2
    | any => rw [hp] at hcon; simp only [Prod.mk.injEq] at hcon; exact hcon.2
    | cfg j b => rw [hp] at hcon; simp only [Prod.mk.injEq] at hcon; exact hcon.2
  exact C06_clientauth_sni_host_agree sites cfgs ⟨host, path, 1⟩ sni i c key hc hauth hon

/-- The other direction, as the code acts: on a TLS listener a request whose Host routes to a site
demanding client certificates (check on) over a connection whose SNI differs from that Host is
answered 403 — also when the site's own pattern matches the SNI. -/
theorem C06_cross_mismatch_forbidden (aesni : Bool) (sites : List Casket.VHost.Site) (cfgs : List Cfg)
    (sni host path : Bytes) (i : Nat) (p : Bytes) (c : Cfg)
    (hlisten : ∀ n, pipeline aesni cfgs sni none ≠ .error n) (htls : pipeline aesni cfgs sni none ≠ .plain)
    (hr : Casket.VHost.route sites ⟨host, path, 1⟩ = .site i p) (hc : cfgs[i]? = some c)
    (hauth : c.clientAuth ≠ 0) (hon : c.disableSNIMatching = false)
    (hne : lower sni ≠ lower (Casket.VHost.stripPort host)) :
    (connectSH aesni sites cfgs sni host path).2 = .forbidden := by
  have key : serveTLS sites cfgs ⟨host, path, 1⟩ (some sni) = .forbidden := by
    unfold serveTLS
    rw [hr]
    simp only [hc]
    have : strictSNIForbidden c (some sni).isSome ((some sni).getD []) (Casket.VHost.stripPort host) = true := by
      unfold strictSNIForbidden
      simp [hon, hauth, hne]
    rw [if_pos this]
  unfold connectSH
  cases hp : pipeline aesni cfgs sni none with
  | error n => exact absurd hp (hlisten n)
  | plain => exact absurd hp htls
  | nothing => exact key
  | any => exact key
  | cfg j b => exact key

/-- The judged predicate of `c06.cross` holds of the model for all site sets, settings, server
names, Hosts and paths (no hypotheses). -/
theorem C06_cross_model_verdict_ok (aesni : Bool) (sites : List Casket.VHost.Site) (cfgs : List Cfg)
    (sni host path : Bytes) :
    crossSHVerdict cfgs sni ⟨host, path, 1⟩ (connectSH aesni sites cfgs sni host path) = "ok" := by
  unfold crossSHVerdict connectSH
  cases hp : pipeline aesni cfgs sni none with
  | error n => rfl
  | plain => rfl
  | nothing => exact C06_snihost_model_verdict_ok sites cfgs ⟨host, path, 1⟩ (some sni)
  | any => exact C06_snihost_model_verdict_ok sites cfgs ⟨host, path, 1⟩ (some sni)
  | cfg j b => exact C06_snihost_model_verdict_ok sites cfgs ⟨host, path, 1⟩ (some sni)

/-- `*.a.com:443` demands client certificates, `b.a.com:443` does not (either declaration order): the
handshake under `b.a.com` is governed by the open site's config, a request for `x.a.com` over it
routes to the wildcard site and gets 403 although `*.a.com` matches `b.a.com` too; under
`x.a.com` as SNI and Host the wildcard site's own config governs and the request is served. -/
def exWild : Cfg := ⟨[42, 46, 97, 46, 99, 111, 109], true, 0, 0, [], [], false, 4, [0], [], false⟩
def exSpecific : Cfg := ⟨[98, 46, 97, 46, 99, 111, 109], true, 0, 0, [], [], false, 0, [], [], false⟩
def exWildSite : Casket.VHost.Site := ⟨[42, 46, 97, 46, 99, 111, 109, 58, 52, 52, 51], false, [42, 46, 97, 46, 99, 111, 109]⟩
def exSpecificSite : Casket.VHost.Site := ⟨[98, 46, 97, 46, 99, 111, 109, 58, 52, 52, 51], false, [98, 46, 97, 46, 99, 111, 109]⟩

example :
    (match connectSH true [exWildSite, exSpecificSite] [exWild, exSpecific] [98, 46, 97, 46, 99, 111, 109] [120, 46, 97, 46, 99, 111, 109] [47] with
      | (.cfg j b, v) => (j, b.clientAuth, v) | _ => (9, 9, .notFound 0)) = (1, 0, .forbidden) ∧
    (match connectSH true [exSpecificSite, exWildSite] [exSpecific, exWild] [98, 46, 97, 46, 99, 111, 109] [120, 46, 97, 46, 99, 111, 109] [47] with
      | (.cfg j b, v) => (j, b.clientAuth, v) | _ => (9, 9, .notFound 0)) = (0, 0, .forbidden) ∧
    (match connectSH true [exWildSite, exSpecificSite] [exWild, exSpecific] [120, 46, 97, 46, 99, 111, 109] [120, 46, 97, 46, 99, 111, 109] [47] with
      | (.cfg j b, v) => (j, b.clientAuth, v) | _ => (9, 9, .notFound 0)) = (0, 4, .site 0) := by decide

/-- the hypotheses of `C06_cross_mismatch_forbidden` hold there -/
example :
    (∀ n, pipeline true [exWild, exSpecific] [98, 46, 97, 46, 99, 111, 109] none ≠ .error n) ∧
    pipeline true [exWild, exSpecific] [98, 46, 97, 46, 99, 111, 109] none ≠ .plain ∧
    (match Casket.VHost.route [exWildSite, exSpecificSite] ⟨[120, 46, 97, 46, 99, 111, 109], [47], 1⟩ with
      | .site i _ => some i | _ => none) = some 0 ∧
    lower [98, 46, 97, 46, 99, 111, 109] ≠ lower (Casket.VHost.stripPort [120, 46, 97, 46, 99, 111, 109]) := by
  refine ⟨?_, ?_, ?_, ?_⟩
  · intro n h
    have : (match pipeline true [exWild, exSpecific] [98, 46, 97, 46, 99, 111, 109] none with | .error _ => true | _ => false) = false := by decide
    rw [h] at this; cases this
  · decide
  · decide
  · decide

/-! ### The listener built from a Casketfile (stream `c06.loaded`): meaning and spelling

`c06.loaded` feeds a Casketfile through the real loader.  Its case states the MEANING of every site (host pattern in
lower case = `Site.addrHost` = the TLS config's `hostname`, settings `cfgs`) and, apart from it, how the address is
WRITTEN (`Site.key`).  The model below is `connectSH` over the meaning; the only place where it reads the written text
is the routing trie (`Casket.VHost.newServer` inserts `Address.VHost()`, the text as written, and lower-cases it itself). -/

/-- The judged predicate of `c06.loaded` holds of the model for all site sets (however written), settings, server
names, Hosts and paths: an invalid set is rejected, a valid one answers the handshake under `sni` with the most
specific site's own settings, and the request for `host` over that connection obeys the strict-SNI clause. -/
theorem C06_loaded_model_verdict_ok (aesni : Bool) (sites : List Casket.VHost.Site) (cfgs : List Cfg)
    (sni host path : Bytes) :
    loadedVerdict aesni cfgs sni ⟨host, path, 1⟩ (connectSH aesni sites cfgs sni host path) = "ok" := by
  unfold loadedVerdict
  rw [connectSH_fst, C06_model_verdict_ok]
  simpa using C06_cross_model_verdict_ok aesni sites cfgs sni host path

/-- Spelling does not matter to the model: two ways of writing the site addresses that the routing trie files alike
(same host after lower-casing and port removal, same path) and that mean the same host patterns give the same answer
to every connection — same governing config, same serving site / 403 / not found.  (`cfgs` already is meaning only.) -/
theorem C06_loaded_spelling_invariant (aesni : Bool) (s1 s2 : List Casket.VHost.Site) (cfgs : List Cfg)
    (sni host path : Bytes) (h : s1.map siteMeaning = s2.map siteMeaning) :
    connectSH aesni s1 cfgs sni host path = connectSH aesni s2 cfgs sni host path := by
  have hn : Casket.VHost.newServer s1 = Casket.VHost.newServer s2 := by
    unfold Casket.VHost.newServer
    rw [fallbacks_congr s1 s2 h]
    exact insertAll_congr s1 s2 h _ _
  have hr : ∀ r, Casket.VHost.route s1 r = Casket.VHost.route s2 r := by
    intro r; unfold Casket.VHost.route; rw [hn]
  have hs : ∀ r o, serveTLS s1 cfgs r o = serveTLS s2 cfgs r o := by
    intro r o; unfold serveTLS; rw [hr]
  unfold connectSH
  simp only [hs]

/-- the seeded regression's site set, written `B.A.COM:443` / `HTTPS://B.a.Com` / `b.a.com:https` + `*.a.com:443`: the
hypothesis of `C06_loaded_spelling_invariant` holds against the canonical spelling, and under SNI = Host = `b.a.com`
the exact-name site's own config (client certificates demanded) governs and that site serves -/
def exUpperSite : Casket.VHost.Site := ⟨[66, 46, 65, 46, 67, 79, 77, 58, 52, 52, 51], false, [98, 46, 97, 46, 99, 111, 109]⟩
def exSchemeSite : Casket.VHost.Site :=
  ⟨[72, 84, 84, 80, 83, 58, 47, 47, 66, 46, 97, 46, 67, 111, 109], false, [98, 46, 97, 46, 99, 111, 109]⟩
def exServiceSite : Casket.VHost.Site :=
  ⟨[98, 46, 97, 46, 99, 111, 109, 58, 104, 116, 116, 112, 115], false, [98, 46, 97, 46, 99, 111, 109]⟩
def exSpecificAuth : Cfg := { exSpecific with clientAuth := 4, clientCerts := [0] }
def exWildOpen : Cfg := { exWild with clientAuth := 0, clientCerts := [] }

example :
    [exUpperSite, exWildSite].map siteMeaning = [exSpecificSite, exWildSite].map siteMeaning ∧
    [exSchemeSite, exWildSite].map siteMeaning = [exSpecificSite, exWildSite].map siteMeaning ∧
    [exServiceSite, exWildSite].map siteMeaning = [exSpecificSite, exWildSite].map siteMeaning := by decide

example :
    (match connectSH true [exUpperSite, exWildSite] [exSpecificAuth, exWildOpen] [98, 46, 97, 46, 99, 111, 109] [98, 46, 97, 46, 99, 111, 109] [47] with
      | (.cfg j b, v) => (j, b.clientAuth, v) | _ => (9, 9, .notFound 0)) = (0, 4, .site 0) := by decide

/-! ### The `tls` block: directive → Config (`setupTLS`, stream `c06.setup`; through the loader to a
listener and a real handshake: stream `c06.listener`) -/

/-- `protocols a b` yields min = a, max = b (and is accepted only if a ≤ b); `protocols a` yields
min = max = a; further arguments are ignored. -/
theorem C06_setup_protocols (c c' : Casket.TLSSetup.Raw) (args : List Bytes)
    (h : Casket.TLSSetup.applyLine c Casket.TLSSetup.kProtocols args = .ok c') :
    (∃ a v, args = [a] ∧ Casket.TLSSetup.lookup Casket.TLSSetup.protocolTable (lower a) = some v ∧
        c'.minV = v ∧ c'.maxV = v) ∨
    (∃ a b rest v w, args = a :: b :: rest ∧
        Casket.TLSSetup.lookup Casket.TLSSetup.protocolTable (lower a) = some v ∧
        Casket.TLSSetup.lookup Casket.TLSSetup.protocolTable (lower b) = some w ∧ v ≤ w ∧ c'.minV = v ∧ c'.maxV = w) := by
  have hnf : Casket.TLSSetup.isFlag Casket.TLSSetup.kProtocols = false := by decide
  cases args with
  | nil => simp [Casket.TLSSetup.applyLine, hnf, Casket.TLSSetup.applyOther] at h
  | cons a rest =>
    simp only [Casket.TLSSetup.applyLine, hnf, Bool.false_eq_true, if_false, Casket.TLSSetup.applyOther, if_true] at h
    cases rest with
    | nil =>
      simp only [] at h
      cases hl : Casket.TLSSetup.lookup Casket.TLSSetup.protocolTable (lower a) with
      | none => rw [hl] at h; simp at h
      | some v =>
        rw [hl] at h
        simp only [Except.ok.injEq] at h
        subst h
        exact Or.inl ⟨a, v, rfl, hl, rfl, rfl⟩
    | cons b rest' =>
      simp only [] at h
      cases hl : Casket.TLSSetup.lookup Casket.TLSSetup.protocolTable (lower a) with
      | none => rw [hl] at h; simp at h
      | some v =>
        cases hl2 : Casket.TLSSetup.lookup Casket.TLSSetup.protocolTable (lower b) with
        | none => rw [hl, hl2] at h; simp at h
        | some w =>
          rw [hl, hl2] at h
          simp only [] at h
          by_cases hgt : v > w
          · simp [hgt] at h
          · simp only [hgt, if_false, Except.ok.injEq] at h
            subst h
            exact Or.inr ⟨a, b, rest', v, w, rfl, hl, hl2, by omega, rfl, rfl⟩

/-- Client-certificate modes as documented: `request` → RequestClientCert, `require` →
RequireAnyClientCert (CA files optional), `verify_if_given <files…>` → VerifyClientCertIfGiven (at
least one file), anything else → RequireAndVerifyClientCert with every argument a CA file. -/
theorem C06_setup_clients_modes (m : Bytes) (rest : List Bytes) :
    Casket.TLSSetup.clients (Casket.TLSSetup.kRequest :: rest) = .ok (1, rest) ∧
    Casket.TLSSetup.clients (Casket.TLSSetup.kRequire :: rest) = .ok (2, rest) ∧
    (rest ≠ [] → Casket.TLSSetup.clients (Casket.TLSSetup.kVerifyIfGiven :: rest) = .ok (3, rest)) ∧
    Casket.TLSSetup.clients [Casket.TLSSetup.kVerifyIfGiven] = .error .argCount ∧
    (m ≠ Casket.TLSSetup.kRequest → m ≠ Casket.TLSSetup.kRequire → m ≠ Casket.TLSSetup.kVerifyIfGiven →
      Casket.TLSSetup.clients (m :: rest) = .ok (4, m :: rest)) := by
  have e1 : ¬ Casket.TLSSetup.kRequire = Casket.TLSSetup.kRequest := by decide
  have e2 : ¬ Casket.TLSSetup.kVerifyIfGiven = Casket.TLSSetup.kRequest := by decide
  have e3 : ¬ Casket.TLSSetup.kVerifyIfGiven = Casket.TLSSetup.kRequire := by decide
  refine ⟨by simp [Casket.TLSSetup.clients], by simp [Casket.TLSSetup.clients, e1], ?_,
    by simp [Casket.TLSSetup.clients, e2, e3], ?_⟩
  · intro hne
    cases rest with
    | nil => exact absurd rfl hne
    | cons a as => simp [Casket.TLSSetup.clients, e2, e3]
  · intro h1 h2 h3
    simp [Casket.TLSSetup.clients, h1, h2, h3]

/-- The block judge, total over plain blocks and all of the model's answers: the last `protocols`
line decides the range and a block silent about protocols gets TLS 1.2 … TLS 1.3; the last
`clients` line decides the client-certificate policy and a silent block asks for none; defaults
for ciphers and curves apply exactly where the block is silent; TLS_FALLBACK_SCSV is first and the
server's cipher preference is on. -/
theorem C06_setup_model_verdict_ok (aesni : Bool) (block : List Casket.TLSSetup.Line) :
    Casket.TLSSetupSpec.verdict aesni block (Casket.TLSSetup.setupTLS aesni block) = "ok" := by
  unfold Casket.TLSSetupSpec.verdict
  by_cases hp : Casket.TLSSetupSpec.plain block = true
  · simp only [hp, Bool.not_true, Bool.false_eq_true, if_false]
    unfold Casket.TLSSetup.setupTLS
    cases ha : Casket.TLSSetup.applyLines {} block with
    | error e => rfl
    | ok r =>
      simp only []
      obtain ⟨h1, h2, h3, h4⟩ := Casket.TLSSetup.applyLines_effect hp ha
      have hproto : ((Casket.TLSSetup.finalize aesni r).cfg.minV, (Casket.TLSSetup.finalize aesni r).cfg.maxV)
          = (Casket.TLSSetupSpec.lastSome Casket.TLSSetupSpec.protoOf block).getD (tls12, tls13) := by
        simp only [Casket.TLSSetup.finalize, setDefaults]
        cases hs : Casket.TLSSetupSpec.lastSome Casket.TLSSetupSpec.protoOf block with
        | none =>
          rw [hs] at h1
          simp only [Option.getD_none, Prod.mk.injEq] at h1
          simp [h1.1, h1.2]
        | some vw =>
          obtain ⟨v, w⟩ := vw
          rw [hs] at h1
          simp only [Option.getD_some, Prod.mk.injEq] at h1
          obtain ⟨hv, hw⟩ := Casket.TLSSetup.lastSome_proto_ne_zero hs
          simp [h1.1, h1.2, hv, hw]
      have hclients : ((Casket.TLSSetup.finalize aesni r).cfg.clientAuth, (Casket.TLSSetup.finalize aesni r).clientCerts)
          = (Casket.TLSSetupSpec.lastSome Casket.TLSSetupSpec.clientsOf block).getD (0, []) := by
        simp only [Casket.TLSSetup.finalize, setDefaults]
        exact h2
      have hhead : (Casket.TLSSetup.finalize aesni r).cfg.ciphers.head? = some scsv := by
        simp [Casket.TLSSetup.finalize, setDefaults]
      have hciph : Casket.TLSSetupSpec.mentions Casket.TLSSetup.kCiphers block = false →
          (Casket.TLSSetup.finalize aesni r).cfg.ciphers = scsv :: preferredDefaultCiphers aesni := by
        intro hm
        have := h3 hm
        simp only [Casket.TLSSetup.finalize, setDefaults, this]
        rfl
      have hcurv : Casket.TLSSetupSpec.mentions Casket.TLSSetup.kCurves block = false →
          (Casket.TLSSetup.finalize aesni r).cfg.curves = defaultCurves := by
        intro hm
        have := h4 hm
        simp only [Casket.TLSSetup.finalize, setDefaults, this]
        rfl
      have hpref : (Casket.TLSSetup.finalize aesni r).cfg.preferServer = true := rfl
      simp only [hproto, hclients, hhead, hpref, bne_self_eq_false, Bool.false_eq_true, if_false, Bool.not_true]
      by_cases hm1 : Casket.TLSSetupSpec.mentions Casket.TLSSetup.kCiphers block = true
      · by_cases hm2 : Casket.TLSSetupSpec.mentions Casket.TLSSetup.kCurves block = true
        · simp [hm1, hm2]
        · have hm2' : Casket.TLSSetupSpec.mentions Casket.TLSSetup.kCurves block = false := by simpa using hm2
          simp [hm1, hm2', hcurv hm2']
      · have hm1' : Casket.TLSSetupSpec.mentions Casket.TLSSetup.kCiphers block = false := by simpa using hm1
        by_cases hm2 : Casket.TLSSetupSpec.mentions Casket.TLSSetup.kCurves block = true
        · simp [hm1', hm2, hciph hm1']
        · have hm2' : Casket.TLSSetupSpec.mentions Casket.TLSSetup.kCurves block = false := by simpa using hm2
          simp [hm1', hm2', hciph hm1', hcurv hm2']
  · simp [hp]

/-- The name tables of the block model are the ones in the source (regenerated on every run):
protocol, cipher and curve names with their wire numbers, and the four ClientAuth modes. -/
theorem C06_setup_tables_regenerated :
    Casket.Generated.supportedProtocols.all (fun p =>
      Casket.TLSSetup.lookup Casket.TLSSetup.protocolTable (p.1.toList.map Char.toNat) == some p.2) = true ∧
    Casket.Generated.supportedProtocols.length = Casket.TLSSetup.protocolTable.length ∧
    Casket.Generated.supportedCiphers.all (fun p =>
      Casket.TLSSetup.lookup Casket.TLSSetup.cipherTable (p.1.toList.map Char.toNat) == some p.2) = true ∧
    Casket.Generated.supportedCiphers.length = Casket.TLSSetup.cipherTable.length ∧
    Casket.Generated.supportedCurves.all (fun p =>
      Casket.TLSSetup.lookup Casket.TLSSetup.curveTable (p.1.toList.map Char.toNat) == some p.2) = true ∧
    Casket.Generated.supportedCurves.length = Casket.TLSSetup.curveTable.length ∧
    Casket.Generated.clientAuthModes = [1, 2, 3, 4] := by
  decide

/-- The defaults of the model are the ones in the source (regenerated on every run). -/
theorem C06_defaults_regenerated :
    Casket.Generated.defaultCiphers = defaultCiphers ∧
    Casket.Generated.defaultCiphersNonAESNI = defaultCiphersNonAESNI ∧
    Casket.Generated.defaultCurves = defaultCurves ∧
    Casket.Generated.defaultMinVersion = tls12 ∧ Casket.Generated.defaultMaxVersion = tls13 ∧
    Casket.Generated.fallbackSCSV = scsv ∧
    Casket.Generated.catchAllAliases.map (fun s => s.toList.map Char.toNat) = [host0000, hostV6Any] ∧
    Casket.Generated.supportedProtocols.map (·.2) = [tls10, tls11, tls12, tls13] := by
  decide

/-! Non-vacuity and tests on literals (labelled: tests, not the general claims). -/

/-- a consistent set: `a.com` (TLS 1.3 only, client certs) and the catch-all -/
def exA : Cfg := ⟨[97, 46, 99, 111, 109], true, tls13, tls13, [], [], false, 4, [0], [], false⟩
def exAny : Cfg := ⟨[], true, 0, 0, [], [], false, 0, [], [], false⟩

example : inDomain [exA, exAny] = true ∧ [exA, exAny].all (·.enabled) = true ∧ caMissing [exA, exAny] = false ∧
    conflicting true [exA, exAny] = false := by decide

/-- SNI `A.COM` is governed by site 0, `b.org` by the catch-all with minimum TLS 1.2 -/
example : (match pipeline true [exA, exAny] [65, 46, 67, 79, 77] none with | .cfg i b => (i, b.minV, b.clientAuth) | _ => (9, 0, 0)) = (0, tls13, 4) := by decide
example : (match pipeline true [exA, exAny] [98, 46, 111, 114, 103] none with | .cfg i b => (i, b.minV, b.clientAuth) | _ => (9, 0, 0)) = (1, tls12, 0) := by decide

/-- the repaired alias class: `:443` and `0.0.0.0:443` with different settings are now rejected -/
example : pipeline true [exAny, { exA with hostname := host0000 }] [] none = .error 2 := by decide

/-- the hypotheses of `C06_handshake_config_is_sites_config_partial` hold for sites `a.com:443`
(client certificates) and `:443`, name `A.com` -/
example :
    let cfgs : List Cfg := [{ exA with clientCerts := [0] }, exAny]
    let sites : List Casket.VHost.Site := [⟨[97, 46, 99, 111, 109, 58, 52, 52, 51], false, [97, 46, 99, 111, 109]⟩, ⟨[58, 52, 52, 51], false, []⟩]
    let name : Bytes := [65, 46, 99, 111, 109]
    cfgs.map (·.hostname) = sites.map (fun s => (Casket.VHost.keyOf s).1) ∧
    Casket.VHostSpec.inDomain sites ⟨name, [47], 1⟩ = true ∧
    normalizedName name = Casket.VHostSpec.normHost name ∧
    Casket.VHostSpec.chosenKey sites ⟨name, [47], 1⟩ = some ([97, 46, 99, 111, 109], [47]) ∧
    (match connect true sites cfgs name [47] with | (.cfg j _, .site i) => (j, i) | _ => (9, 9)) = (0, 0) := by
  decide

/-- TLS + plaintext on one listener -/
example : mixed [exA, { exAny with enabled := false }] = true := by decide

end Casket.Props.C06
