import Casket.Proofs.Dispenser
import Casket.Model.ExecSetup
import Casket.Proofs.ExecSetup
import Casket.Generated.SetupBounds
import Casket.Proofs.HtCacheLock
import Casket.Proofs.UpstreamAddr
/-
C11 — Every directive's setup is total: error or success, never a crash.   (partial, see docs/C11.md)

What is PROVED here, for all token lists and all call sequences:
  * the dispenser every setup function reads its arguments through keeps its cursor in [-1, len], never
    changes the tokens, never steps backwards across a method call, `RemainingArgs` and a
    `for c.NextBlock() {…}` loop end — on the model `Casket.Dispenser.Disp`, tied to
    casketfile/dispenser.go by the stream c11.disp;
  * every constant index `x[k]` / `x[k:]` in the 33 anchored setup files is in range under the
    conditions the enclosing code has established (one regenerated obligation per site);
  * `-validate` and a start run the same setup calls in the same order (model of executeDirectives).
  * the process-wide htpasswd cache of basicauth, which carries state from one load to the next behind a mutex:
    every call of `GetHtpasswdMatcher` returns with the mutex free, so no history of loads and file changes ever
    blocks, and a history gets the answers fresh processes would give (model `Casket.HtCacheLock`, tied to the real
    function by the stream c11.htcache).
  * proxy's `parseUpstream`, which cuts an upstream address with three slices whose bounds it computes from the
    positions of the last ':' and the next '/': all three are in range for every address (model
    `Casket.UpstreamAddr`, tied to the real function by the stream c11.upstream).
What is only SEARCHED (streams c11.setup and c11.reload, real code in a worker process, recover + watchdog): everything
else a setup body does.
-/
namespace Casket.Props.C11
open Casket.Lexer Casket.Dispenser Casket.Dispenser.Disp Casket.DispenserSpec Casket.ExecSetup

/-- Whatever sequence of Dispenser methods a setup function calls on whatever tokens, the cursor stays in
`[-1, len]` — so `Val`, `Line`, `File` and every guarded `tokens[cursor]` are defined. -/
theorem C11_cursor_bounds (f : String) (ts : List Token) (ops : List Op) :
    cursorOk (ops.foldl Disp.apply (Disp.new f ts)) := by
  suffices h : ∀ d : Disp, cursorOk d → cursorOk (ops.foldl Disp.apply d) from h _ (new_ok f ts)
  induction ops with
  | nil => intro d h; exact h
  | cons op rest ih => intro d h; exact ih _ (apply_spec d h op).step.ok

/-- No method changes the token list or the file name, and none moves the cursor backwards
(the `cursor--` of `RemainingArgs` and `NextBlock` only undo a step made by the same call). -/
theorem C11_tokens_fixed_cursor_monotone (d : Disp) (h : cursorOk d) (ops : List Op) :
    (ops.foldl Disp.apply d).tokens = d.tokens ∧ d.cursor ≤ (ops.foldl Disp.apply d).cursor := by
  induction ops generalizing d with
  | nil => exact ⟨rfl, Int.le_refl _⟩
  | cons op rest ih =>
    have m := apply_spec d h op
    obtain ⟨h1, h2⟩ := ih _ m.step.ok
    exact ⟨h1.trans m.step.tokens, Int.le_trans m.fwd h2⟩

/-- `Val()` is either the text of one of the tokens or (before the first / after the last token) empty. -/
theorem C11_val_total (d : Disp) : d.val = [] ∨ ∃ t ∈ d.tokens, d.val = t.text := by
  unfold Disp.val
  cases ht : d.tok? d.cursor with
  | none => exact Or.inl rfl
  | some t =>
    refine Or.inr ⟨t, ?_, rfl⟩
    unfold Disp.tok? tokAt at ht
    split at ht
    · exact List.mem_of_getElem? ht
    · cases ht

/-- `RemainingArgs` ends: its loop runs at most `len + 2` times (the fuel of the model is `len + 3`), so more fuel
changes nothing; and it leaves the cursor legal and not behind where it was. -/
theorem C11_remainingArgs_progress (d : Disp) (h : cursorOk d) (k : Nat) :
    remainingArgsGo (d.tokens.length + 3 + k) d [] = d.remainingArgs ∧ Mono d d.remainingArgs.2 := by
  refine ⟨remainingArgsGo_fuel _ d h [] ?_ k, remainingArgs_spec d h⟩
  unfold cursorOk at h
  have hm : max d.len 1 ≤ d.len + 1 := by have := len_nonneg d; omega
  generalize max d.len 1 = m at hm
  simp only [Disp.len] at *
  omega

/-- A `true` from `NextBlock`/`NextBlockNesting` has consumed at least one token. -/
theorem C11_nextBlock_consumes (d : Disp) (h : cursorOk d) (i : Int) :
    (d.nextBlockNesting i).1 = true → d.cursor < (d.nextBlockNesting i).2.cursor :=
  fun ht => ((nextBlockNesting_spec d h i).2 ht).1

/-- Every sub-block loop `for c.NextBlock() { body }` ends after at most `len + 2` iterations, whatever
dispenser methods its body calls. -/
theorem C11_nextBlock_loop_terminates (body : List Op) (d : Disp) (h : cursorOk d) :
    (blockLoop (fun d => body.foldl Disp.apply d) (d.tokens.length + 3) d).isSome = true := by
  apply blockLoop_terminates _ _ _ d h
  · unfold cursorOk at h
    have hm : max d.len 1 ≤ d.len + 1 := by have := len_nonneg d; omega
    generalize max d.len 1 = m at hm
    simp only [Disp.len] at *
    omega
  · intro d' h'
    induction body generalizing d' with
    | nil => exact Mono.refl h'
    | cons op rest ih => exact (apply_spec d' h' op).trans (ih _ (apply_spec d' h' op).step.ok)

/-- non-vacuity: `tls { protocols tls1.2 tls1.3 }` walked by `for c.NextBlock() { c.RemainingArgs() }` -/
example :
    let toks : List Token := [⟨"", 1, [0x74]⟩, ⟨"", 1, lbrace⟩, ⟨"", 2, [0x70]⟩, ⟨"", 2, [0x31]⟩, ⟨"", 2, [0x32]⟩, ⟨"", 3, rbrace⟩]
    let d := (Disp.new "f" toks).next.2
    (blockLoop (fun d => [Op.remainingArgs].foldl Disp.apply d) 9 d).map (·.cursor) = some 5 := by decide

/-- Every constant index site in the anchored setup files is in range under its path condition
(regenerated from the source on every run: Casket/Generated/SetupBounds.lean). -/
theorem C11_setup_index_sites_in_bounds : Casket.Generated.AllSetupSites := Casket.Generated.allSetupSites

/-- the list is not empty: the obligations are about real sites -/
example : 50 ≤ Casket.Generated.setupIndexSites.length := by decide

/-- `-validate` and a start run exactly the same setup calls, with the same tokens, in the same order, and end
in the same state or the same error — provided the parsing callbacks (which only a start runs) succeed and
leave the state alone.  (What the real callbacks do is outside the model; c11.setup compares the two modes
on the real code.) -/
theorem C11_validate_start_same_setups {σ ε : Type} (setup : Call → σ → Except ε σ) (callback : Bytes → σ → Except ε σ)
    (hcb : ∀ dir s, callback dir s = .ok s) (blocks : List Block) (dirs : List Bytes) (s : σ) :
    execute setup callback false blocks dirs s = execute setup callback true blocks dirs s := by
  induction dirs generalizing s with
  | nil => rfl
  | cons dir rest ih =>
    unfold execute
    cases runCalls setup (callsFor dir blocks) s with
    | error e => rfl
    | ok s1 => simp only [hcb, Bool.false_eq_true, if_false, if_true]; exact ih s1

/-- In both modes the setup calls are exactly `allCalls` — directive order outermost, then blocks, then keys —
cut at the first failure: a load that succeeds has run every one of them. -/
theorem C11_validate_runs_all_calls {σ ε : Type} (setup : Call → σ → Except ε σ) (callback : Bytes → σ → Except ε σ)
    (blocks : List Block) (dirs : List Bytes) (s : σ) :
    execute setup callback true blocks dirs s = runCalls setup (allCalls blocks dirs) s := by
  have happ : ∀ (a b : List Call) (s : σ), runCalls setup (a ++ b) s =
      (match runCalls setup a s with | .ok s' => runCalls setup b s' | .error e => .error e) := by
    intro a
    induction a with
    | nil => intro b s; rfl
    | cons c cs ih =>
      intro b s
      simp only [List.cons_append, runCalls]
      cases setup c s with
      | error e => rfl
      | ok s' => exact ih b s'
  induction dirs generalizing s with
  | nil => rfl
  | cons dir rest ih =>
    unfold execute allCalls
    simp only [List.flatMap_cons, happ, if_true]
    cases runCalls setup (callsFor dir blocks) s with
    | error e => rfl
    | ok s1 => exact ih s1

/-- The same without assuming anything about the callbacks' success, for the instance the stream c11.exec runs
against the real `ValidateAndExecuteDirectives` (setups that record their call and fail on demand; callbacks
after some directives that record themselves, one of which may fail): the setup calls of a start are a prefix
of the setup calls of a validation — same calls, same tokens, same order — and unless the failing callback
actually ran, the two loads make exactly the same calls and both succeed or both fail. -/
theorem C11_start_makes_validations_setup_calls (fails : Call → Bool) (cbs : List Bytes) (fd : Option Bytes)
    (blocks : List Block) (dirs : List Bytes) :
    (traceOf (execute (recSetup fails) (recCallback cbs fd) false blocks dirs [])).filter Ev.isSetup <+:
      traceOf (execute (recSetup fails) (recCallback cbs fd) true blocks dirs []) ∧
    ((∀ d, fd = some d → Ev.callback d ∉ traceOf (execute (recSetup fails) (recCallback cbs fd) false blocks dirs [])) →
      (traceOf (execute (recSetup fails) (recCallback cbs fd) false blocks dirs [])).filter Ev.isSetup =
        traceOf (execute (recSetup fails) (recCallback cbs fd) true blocks dirs []) ∧
      isOk (execute (recSetup fails) (recCallback cbs fd) false blocks dirs []) =
        isOk (execute (recSetup fails) (recCallback cbs fd) true blocks dirs [])) :=
  start_vs_validate fails cbs fd blocks dirs [] [] rfl

/-- … which is the judge of c11.exec (`startAgrees`) applied to the model's own traces: the model's answer is
always judged ok. -/
theorem C11_exec_model_verdict_ok (fails : Call → Bool) (cbs : List Bytes) (fd : Option Bytes)
    (blocks : List Block) (dirs : List Bytes) :
    let v := execute (recSetup fails) (recCallback cbs fd) true blocks dirs []
    let s := execute (recSetup fails) (recCallback cbs fd) false blocks dirs []
    startAgrees (traceOf v) ((traceOf s).filter Ev.isSetup) (isOk v) (isOk s)
      (match fd with | some d => (traceOf s).contains (Ev.callback d) | none => false) = true := by
  intro v s
  obtain ⟨h1, h2⟩ := C11_start_makes_validations_setup_calls fails cbs fd blocks dirs
  unfold startAgrees
  simp only [Bool.and_eq_true, Bool.or_eq_true, List.isPrefixOf_iff_prefix, beq_iff_eq]
  refine ⟨h1, ?_⟩
  cases hfd : fd with
  | none =>
    refine Or.inr ?_
    obtain ⟨e1, e2⟩ := h2 (fun d hd => by rw [hfd] at hd; cases hd)
    exact ⟨e1, e2.symm⟩
  | some d =>
    by_cases hc : (traceOf s).contains (Ev.callback d) = true
    · exact Or.inl hc
    · refine Or.inr ?_
      obtain ⟨e1, e2⟩ := h2 (fun d' hd' => by
        rw [hfd] at hd'; cases hd'
        intro hmem
        exact hc (List.contains_iff_mem.mpr hmem))
      exact ⟨e1, e2.symm⟩

/-- the judge of the search streams (c11.setup, c11.reload) accepts the outcome the property demands -/
theorem C11_model_verdict_ok : setupVerdict "total" = "ok" := by decide

/-- … and no other: of the five outcomes an answer is classified as (total, panic — of the setup's goroutine or of the
whole process —, timeout, disagree, unreadable) only `total` is judged ok -/
theorem C11_search_verdict_exact (o : Outcome) : verdictOf o = "ok" ↔ o = .total := by
  cases o <;> decide

/-! ### State carried between loads: the htpasswd cache and its mutex -/

open Casket.HtCacheLock in
/-- Every call of `GetHtpasswdMatcher` that starts with the mutex free and a coherent cache RETURNS (it does not block),
answers exactly what a process that never saw the file answers (open error, parse error, unknown user or success),
leaves the files alone — and hands the mutex back, with the cache coherent: the next call finds what this one found.
(F6 — an error path that kept the mutex — and the seeded helper that takes it a second time both break `Inv` of the
state after the call.) -/
theorem C11_htcache_call_returns_and_releases (f u : Nat) (s : St) (h : Inv s) :
    (get f u s).1 ≠ .hang ∧ (get f u s).1 = fresh (s.disk f) u ∧ (get f u s).2.disk = s.disk ∧ Inv (get f u s).2 := by
  obtain ⟨h1, h2, _, h4⟩ := get_spec f u s h
  exact ⟨h1 ▸ fresh_ne_hang _ _, h1, h2, h4⟩

open Casket.HtCacheLock in
/-- So no history of loads (calls) and file changes — edits, removals, directories in the file's place, new
modification times — ever blocks: every call in it returns. -/
theorem C11_htcache_history_never_blocks (ops : List Casket.HtCacheLock.Op) : Res.hang ∉ run ops init := by
  rw [run_eq_runFresh ops init inv_init]
  exact runFresh_no_hang ops init

open Casket.HtCacheLock in
/-- … and the cache cannot be observed: the history is answered as if every call were made by a fresh process.
In particular a validation and the start that follows it (same file, same user, file unchanged) end alike. -/
theorem C11_htcache_not_observable (ops : List Casket.HtCacheLock.Op) : run ops init = runFresh ops init :=
  run_eq_runFresh ops init inv_init

open Casket.HtCacheLock in
/-- the judge of the stream c11.htcache accepts the model's answers for every history -/
theorem C11_htcache_model_verdict_ok (ops : List Casket.HtCacheLock.Op) : verdict ops (run ops init) = "ok" := by
  unfold verdict
  have h1 : (run ops init).contains Res.hang = false := by
    apply Bool.eq_false_iff.mpr
    intro h
    exact C11_htcache_history_never_blocks ops (List.contains_iff_mem.mp h)
  have h2 : agrees ops (run ops init) [] = true := by
    rw [run_eq_runFresh ops init inv_init]
    exact agrees_runFresh ops init [] (fun _ _ _ h => by cases h)
  rw [if_neg (by rw [h1]; exact Bool.false_ne_true), if_pos h2]

open Casket.HtCacheLock in
/-- what the invariant rules out: once the mutex is held when a call begins, that call and every later one block -/
theorem C11_htcache_held_mutex_blocks (f u : Nat) (s : St) (h : s.locked = true) :
    (get f u s).1 = .hang ∧ (get f u s).2.locked = true := by
  unfold Casket.HtCacheLock.get
  simp [h]

open Casket.HtCacheLock in
/-- non-vacuity: users {1} written, user 1 found, file edited to users {1, 2}, user 2 found on the next load (the stale
table is dropped), file removed: open error; a directory in its place: parse error; malformed: parse error -/
example :
    run [.write 0 (.users [1]), .get 0 1, .get 0 2, .write 0 (.users [1, 2]), .get 0 2, .remove 0, .get 0 1,
         .mkdir 0, .get 0 1, .write 0 .malformed, .get 0 1, .write 0 (.users [1]), .touch 0, .get 0 1] init
      = [.ok, .enouser, .ok, .eopen, .eparse, .eparse, .ok] := by decide

/-! ### proxy: `parseUpstream` cuts every upstream address with slices that are in range -/

open Casket.UpstreamAddr in
/-- For every upstream address: with `colonIdx` the position of its last colon, `u[:colonIdx]`, `u[portsEnd:]` and
`u[len(us)+1 : portsEnd]` are all in range (`cut` returns the three pieces) — wherever the colon sits: in the authority,
in the path, first or last byte. -/
theorem C11_parseUpstream_slices_in_bounds (u : Casket.UpstreamAddr.Bytes) (i : Nat) (h : lastIdx colon u = some i) :
    ∃ us ports ue, cut u i = some (us, ports, ue) := by
  have := cut_isSome u i h
  cases hc : cut u i with
  | none => rw [hc] at this; simp at this
  | some r => exact ⟨r.1, r.2.1, r.2.2, rfl⟩

open Casket.UpstreamAddr in
/-- so the step returns — hosts or an error — for every address -/
theorem C11_parseUpstream_never_panics (u : Casket.UpstreamAddr.Bytes) : parseUpstream u ≠ .panic := parseUpstream_ne_panic u

open Casket.UpstreamAddr in
/-- the judge of `c11.upstream` accepts the model's answer for every address -/
theorem C11_upstream_model_verdict_ok (u : Casket.UpstreamAddr.Bytes) : verdict (parseUpstream u) = "ok" := by
  have := parseUpstream_ne_panic u
  cases h : parseUpstream u with
  | panic => exact absurd h this
  | hosts _ => rfl
  | err => rfl

open Casket.UpstreamAddr in
/-- what the bound `colonIdx + 1 ≤ portsEnd` rules out: a path start that is looked for from the front of the address
(the first '/' after the host) lies BEFORE a colon in the path — `localhost/a:b`: colon at 11, slash at 9 — and the slice
`u[len(us)+1 : portsEnd]` = `u[12:9]` has low > high: a panic whatever the address is -/
theorem C11_parseUpstream_front_slash_witness (u : Casket.UpstreamAddr.Bytes) :
    slice u (11 + 1) 9 = none := slice_none u 12 9 (by decide)

open Casket.UpstreamAddr in
/-- non-vacuity: `h/a:b` (a colon in the path, no range) is one host; `h:1-2/x` (a range in the authority, with a path) is
two; `h/a:3-1` (an inverted "range" behind a path colon) is an error -/
example : parseUpstream [104, 47, 97, 58, 98] = .hosts [[104, 47, 97, 58, 98]] := by decide
open Casket.UpstreamAddr in
example : parseUpstream [104, 58, 49, 45, 50, 47, 120] = .hosts [[104, 58, 49, 47, 120], [104, 58, 50, 47, 120]] := by decide
open Casket.UpstreamAddr in
example : parseUpstream [104, 47, 97, 58, 51, 45, 49] = .err := by decide

end Casket.Props.C11
