import Casket.Spec.Dispenser
namespace Casket.Props.C11
end Casket.Props.C11
