import Casket.Proofs.FileServe
import Casket.Proofs.Cond
import Casket.Proofs.FileServeSeq
import Casket.Proofs.FileServeSites
import Casket.Generated.FileServe
/-
C02 — Served file content stays inside the root and never includes hidden files; redirects
stay on the same origin.

Statements only; the proofs are in Casket/Proofs/FileServe.lean.  They are about
`FileServe.serve` / `browseServe` / `staticServe`, the model of server.go (prefix match,
trimPathPrefix) → browse.go → fileserver.go that the stream `c02.serve` compares with a real
casket site on every generated case, and about `FileServeSpec.verdict`, the executable form of
the property that the driver applies to the implementation's answers.

PARTIAL with respect to the property text: the OS file system is a modelled table of entries
(no symbolic links, no permissions, case-sensitive); request targets are in origin form.
Everything below holds for ALL file-system tables, site configurations, request targets,
methods and Accept-Encoding values of that model.
-/
namespace Casket.Props.C02
open Casket.Path Casket.FS Casket.FileServe Casket.FileServeSpec Casket.FileServeProofs

/-- The jail lemma: whatever the spelling of `name`, the elements of `path.Clean("/"+name)` —
what `http.Dir.Open` hands to the operating system below the root — are ordinary names: none is
empty, `.` or `..`, and none contains a slash. -/
theorem C02_clean_rooted_normal (name : Bytes) :
    ∀ s ∈ jailElems name, s ≠ [] ∧ s ≠ dotSeg ∧ s ≠ dotdotSeg ∧ slash ∉ s :=
  jailElems_normal name

/-- Re-joining those elements with `/` and splitting again (what `filepath.Join` and the kernel
do with them) gives the same elements back. -/
theorem C02_join_split_roundtrip (name : Bytes) (h : jailElems name ≠ []) :
    splitOn slash (joinSlash (jailElems name)) = jailElems name :=
  splitOn_joinSlash _ h (fun s hs => (jailElems_normal name s hs).2.2.2)

/-- `path.Clean` is idempotent on what `http.Dir` computes: cleaning `Clean("/"+name)` again (as
`filepath.Join` does) changes nothing, and the elements stay the same. -/
theorem C02_clean_idem (name : Bytes) :
    clean (clean (slash :: name)) = clean (slash :: name) ∧
    jailElems (clean (slash :: name)) = jailElems name := by
  have h1 : clean (slash :: name) = slash :: joinSlash (jailElems name) := by
    rw [clean_rooted, jailElems_eq (slash :: name), ← jailElems]
  constructor
  · rw [h1]; exact clean_canon _ (jailElems_normal name)
  · rw [h1, jailElems_eq, cleanElems_canon _ (jailElems_normal name)]

/-- Whatever `http.Dir(root).Open(name)` returns lies inside the root: its canonical path is the
root's elements followed by the cleaned name's — although the modelled kernel walk honours `..`. -/
theorem C02_open_inside_root (fs : FS) (root : List Bytes) (name : Bytes) (e : Entry)
    (hroot : NormalSegs root) (h : dirOpen fs root name = .ok e) :
    e.path = root ++ jailElems name ∧ root.isPrefixOf e.path = true := by
  have hp := dirOpen_path hroot h
  exact ⟨hp, by rw [hp]; exact isPrefixOf_append _ _⟩

/-- Provenance of a 200 file body (browse → static files, any request): it is the content of a
regular file of the file system located inside the site root, and that file is the one the
request path names, an index page of that directory, or a precompressed sibling of one of those
whose encoding the client lists in Accept-Encoding. -/
theorem C02_static_provenance (fs : FS) (site : Site) (r : Req) (ino : Nat) (enc : Option Bytes)
    (hroot : NormalSegs site.root) (h : browseServe fs site r = .file ino enc) :
    regularInRoot fs site ino = true ∧ ino ∈ allowedInos fs site r.url.path r.acceptEncoding := by
  have := staticServe_file hroot (browseServe_file h)
  exact ⟨this.2.1, this.2.2⟩

/-- A 200 file body is never the content of a hidden file (an inode some hide-list path opens),
be it the requested file, an index page or a precompressed sibling. -/
theorem C02_static_not_hidden (fs : FS) (site : Site) (r : Req) (ino : Nat) (enc : Option Bytes)
    (hroot : NormalSegs site.root) (h : browseServe fs site r = .file ino enc) :
    isHidden fs site.root site.hide ino = false :=
  (staticServe_file hroot (browseServe_file h)).1

/-- The Casketfile a site is loaded from is on the hide list whenever it lies inside the root
(`hideCasketfile`), so by the theorems here its inode is never served, listed or archived. -/
theorem C02_casketfile_hidden (fs : FS) (root : List Bytes) (absRoot rel : Bytes) (e : Entry)
    (hrel : rel ≠ []) (h : dirOpen fs root rel = .ok e) :
    isHidden fs root (hideCasketfile absRoot (absRoot ++ rel)) e.ino = true := by
  have hpre : ∀ a b : Bytes, hasPrefix (a ++ b) a = true := by
    intro a b; induction a with
    | nil => cases b <;> rfl
    | cons x xs ih => simp [hasPrefix, ih]
  have hne : absRoot ++ rel ≠ [] := by simp [hrel]
  simp [hideCasketfile, hne, hpre, trimPrefix, isHidden, h]

/-- A directory listing shows only children of the requested directory that are not hidden. -/
theorem C02_listing_excludes_hidden (fs : FS) (site : Site) (r : Req) (names : List Bytes)
    (h : browseServe fs site r = .listing names) :
    ∃ d, dirOf fs site r.url.path = some d ∧
      ∀ n ∈ names, ∃ e ∈ fs, e.path = d.path ++ [n] ∧ isHidden fs site.root site.hide e.ino = false :=
  browseServe_listing h

/-- Every entry of a directory archive is a non-hidden entry strictly below the requested
directory (hence inside the root), and a file entry carries the content of exactly that file. -/
theorem C02_archive_inside_dir_excludes_hidden (fs : FS) (site : Site) (r : Req) (items : List Item)
    (hroot : NormalSegs site.root) (h : browseServe fs site r = .archive items) :
    ∃ d, dirOf fs site r.url.path = some d ∧ ∀ it ∈ items, itemOk fs site d (topOf r.url.path) it = true :=
  browseServe_archive hroot h

/-- Every redirect issued by browse or by the static file server has a Location that starts with
exactly one `/` — for URLs as net/url produces them (`UrlOk`), a site address path that is `/`
or does not begin with `//` (`NormalPrefix`), and a site root that is a directory. -/
theorem C02_redirect_same_origin (fs : FS) (site : Site) (r : Req) (c : Nat) (loc : Bytes)
    (hu : UrlOk r.url) (hp : NormalPrefix site.pathPrefix) (hroot : NormalSegs site.root)
    (hrd : RootIsDir fs site) (h : browseServe fs site r = .redirect c loc) : sameOrigin loc = true :=
  browseServe_redirect h hu hp hroot hrd

/-- A URL decoded from a raw origin-form request target, and the same URL after the site's path
prefix was stripped, satisfy `UrlOk`: the hypothesis of the previous theorem is not an assumption
about requests. -/
theorem C02_decoded_url_ok (target pre : Bytes) (u : Url) (h : parseRequestURI target = some u) :
    UrlOk u ∧ UrlOk (trimPathPrefix u pre) :=
  ⟨parseRequestURI_ok h, trimPathPrefix_ok (parseRequestURI_ok h)⟩

/-- The whole judged predicate, from the raw request target on: for every file system, site,
method, target and Accept-Encoding the model's response gets the verdict "ok".  (The same
`verdict` is what the driver applies to the implementation's responses.) -/
theorem C02_model_verdict_ok (fs : FS) (site : Site) (method target ae : Bytes)
    (hroot : NormalSegs site.root) (hp : NormalPrefix site.pathPrefix) (hrd : RootIsDir fs site) :
    verdict fs site target ae (serve fs site method target ae) = "ok" :=
  serve_verdict_ok fs site method target ae hroot hp hrd

/-- Conditional and range requests (If-None-Match, If-Modified-Since, Range; If-Match,
If-Unmodified-Since, If-Range and multi-range as "explored"): whatever `http.ServeContent` answers
— 304, 206, 416, 412 or 200 — the files its headers and partial body identify (ETag,
Content-Length, Content-Range and body: the served file; Last-Modified: the resolved file) are
files the request may see: named file, index page or accepted sibling; regular, inside the root,
not hidden.  Same hypotheses as `C02_model_verdict_ok`. -/
theorem C02_cond_model_verdict_ok (fs : FS) (site : Site) (method target ae : Bytes) (c : Casket.Cond.Cond)
    (hroot : NormalSegs site.root) (hp : NormalPrefix site.pathPrefix) (hrd : RootIsDir fs site) :
    Casket.CondSpec.verdict fs site target ae (Casket.Cond.serveCond fs site method target ae c) = "ok" :=
  Casket.CondProofs.serveCond_verdict_ok fs site method target ae c hroot hp hrd

/-! ### A running site whose file system changes between requests

The code keeps no state between requests, so its model under a changing file system is the
single-request model applied to a SEQUENCE of file-system states (`FileServeSeq.run`: a script of
requests and of changes made by others — a file replaced by write-new-and-rename, removed,
created, hard-linked).  Every theorem above quantifies over all file-system tables, hence holds
in each state a script reaches; the two facts that need a proof are that "the root is a
directory" survives the changes and that the sequence judge is the single-request judge applied
to each answer with the state of its own moment. -/

open Casket.FileServeSeq Casket.FileServeSeqSpec Casket.FileServeSeqProofs in
/-- None of the modelled changes (write/replace, remove, hard-link of regular files) touches a
directory: a site root that is a directory stays one in every state of every script. -/
theorem C02_changing_fs_root_stays_dir (site : Site) (steps : List Step) (fs : FS)
    (h : RootDir fs site) : ∀ fs' ∈ states fs steps, RootIsDir fs' site :=
  fun fs' hm => (rootDir_states steps fs h fs' hm).rootIsDir

open Casket.FileServeSeq Casket.FileServeSeqSpec Casket.FileServeSeqProofs in
/-- Statelessness of the model made explicit: every answer of a script is the single-request
model's answer to one of the script's requests on one of the states the script goes through —
nothing else (no earlier request, no earlier state) enters. -/
theorem C02_changing_fs_answers_per_state (site : Site) (steps : List Step) (fs : FS) :
    ∀ r ∈ run site fs steps, ∃ fs' ∈ states fs steps, ∃ m t ae,
      Step.get m t ae ∈ steps ∧ r = serve fs' site m t ae :=
  run_mem_states site steps fs

open Casket.FileServeSeq Casket.FileServeSeqSpec Casket.FileServeSeqProofs in
/-- The judged predicate for scripts (`verdictSeq`: each observed answer must pass
`FileServeSpec.verdict` against the file system as it is WHEN THE REQUEST IS SERVED — in
particular the hidden file is the one the hide-list path names at that moment) is met by the
model for every site, every initial file system whose root is a directory and every script. -/
theorem C02_seq_model_verdict_ok (fs : FS) (site : Site) (steps : List Step)
    (hroot : NormalSegs site.root) (hp : NormalPrefix site.pathPrefix) (hrd : RootDir fs site) :
    verdictSeq site 0 fs steps (run site fs steps) = "ok" :=
  run_verdict_ok site steps fs 0 hroot hp hrd

/-! ### Several sites loaded from one Casketfile

`InspectServerBlocks` makes one site configuration per ADDRESS of every server block;
`hideCasketfile` is ONE walk over all of them after the `root` directives have run
(`FileServeSites.hideAll`).  What a site answers must depend on what ITS block means, not on how
many other sites the file defines, where they stand, or whether their roots contain the
Casketfile. -/

open Casket.FileServeSites Casket.FileServeSitesProofs in
/-- The walk gives every site configuration exactly `hideCasketfile` of its own root: a
configuration whose root does not contain the Casketfile is skipped, it does not end the walk. -/
theorem C02_sites_hide_per_site (cf : Bytes) (roots : List Bytes) :
    hideAll cf roots = roots.map (fun r => hideCasketfile r cf) :=
  hideAll_eq_map cf roots

open Casket.FileServeSites Casket.FileServeSitesProofs in
/-- Order and neighbours are irrelevant: in a Casketfile whose addresses are pairwise different,
EVERY address of EVERY block selects the site that consists of that block's own meaning and of
`hideCasketfile` applied to that block's root — the other blocks do not occur in the answer. -/
theorem C02_sites_order_irrelevant (enc : List (Bytes × Bytes)) (cf : Bytes) (blocks : List Block)
    (b : Block) (h : Bytes) (hnd : ((configs blocks).map (·.1)).Nodup) (hb : b ∈ blocks) (hh : h ∈ b.hosts) :
    siteOf enc cf blocks h = some (mkSite enc b (hideCasketfile b.root cf)) :=
  siteOf_of_mem enc cf blocks b h hnd hb hh

open Casket.FileServeSites Casket.FileServeSitesProofs in
/-- Hence the Casketfile is on the hide list of every address of every block whose root contains
it, wherever the block stands (with `C02_static_not_hidden`, `C02_listing_excludes_hidden`,
`C02_archive_inside_dir_excludes_hidden`: never served, listed or archived there). -/
theorem C02_sites_casketfile_hidden (fs : FS) (enc : List (Bytes × Bytes)) (blocks : List Block)
    (b : Block) (h rel : Bytes) (e : Entry)
    (hnd : ((configs blocks).map (·.1)).Nodup) (hb : b ∈ blocks) (hh : h ∈ b.hosts)
    (hrel : rel ≠ []) (ho : dirOpen fs (rootElems b.root) rel = .ok e) :
    ∃ s, siteOf enc (b.root ++ rel) blocks h = some s ∧ isHidden fs s.root s.hide e.ino = true :=
  ⟨_, siteOf_of_mem enc _ blocks b h hnd hb hh,
   C02_casketfile_hidden fs (rootElems b.root) b.root rel e hrel ho⟩

open Casket.FileServeSites Casket.FileServeSitesProofs in
/-- The judged predicate for a server with several sites (stream `c02.sites`): whichever site the
Host selects, the model's answer passes `FileServeSpec.verdict` for THAT site. -/
theorem C02_sites_model_verdict_ok (fs : FS) (enc : List (Bytes × Bytes)) (cf : Bytes) (blocks : List Block)
    (host method target ae : Bytes) (s : Site) (hs : siteOf enc cf blocks host = some s)
    (hroot : NormalSegs s.root) (hp : NormalPrefix s.pathPrefix) (hrd : RootIsDir fs s) :
    verdict fs s target ae (serveSites fs enc cf blocks host method target ae) = "ok" :=
  serveSites_verdict_ok fs enc cf blocks host method target ae s hs hroot hp hrd

/-! ### A site root that is the top of the file system (`root /`)

`filepath.Abs` returns a path without a trailing separator for every directory but one: the top of
the file system is `/` itself.  The elements of that root are the empty list, every absolute
Casketfile path has it as a byte prefix, the hide-list entry is the Casketfile's path without its
leading slash, and `http.Dir("/").Open` puts the slash back (`path.Clean("/"+name)`). -/

open Casket.FileServeSites in
/-- Under the root `/` the Casketfile is on the hide list WHEREVER it lies (any number of levels
below), and the entry names it: the instance of `C02_casketfile_hidden` for the one root whose
absolute path ends in a separator. -/
theorem C02_casketfile_hidden_at_fs_root (fs : FS) (rel : Bytes) (e : Entry)
    (hrel : rel ≠ []) (h : dirOpen fs (rootElems [slash]) rel = .ok e) :
    hideCasketfile [slash] (slash :: rel) = [rel] ∧
    isHidden fs (rootElems [slash]) (hideCasketfile [slash] (slash :: rel)) e.ino = true := by
  have h1 : hideCasketfile [slash] (slash :: rel) = [rel] := by
    cases rel with
    | nil => exact absurd rfl hrel
    | cons x xs => simp [hideCasketfile, hasPrefix, trimPrefix]
  exact ⟨h1, C02_casketfile_hidden fs (rootElems [slash]) [slash] rel e hrel h⟩

/-- The encodings and index pages the model uses by default are the lists in fileserver.go
(regenerated on every run): three encodings whose extensions start with a dot, six index names
without a slash. -/
theorem C02_generated_tables_shape :
    Casket.Generated.staticEncodingPriority.all (fun ne => ne.2.head? == some dot && !ne.1.contains slash) = true ∧
    Casket.Generated.defaultIndexPages.all (fun p => !p.contains slash && p != []) = true := by
  decide

/-! ### Non-vacuity: a concrete site meeting every hypothesis, with non-trivial answers -/

def exFS : FS := [
  ⟨[b! "site"], true, 1⟩, ⟨[b! "site", b! "a"], false, 2⟩, ⟨[b! "site", b! "a.gz"], false, 3⟩,
  ⟨[b! "site", b! "d"], true, 4⟩, ⟨[b! "site", b! "d", b! "c"], false, 5⟩,
  ⟨[b! "site", b! "Casketfile"], false, 6⟩, ⟨[b! "out"], false, 7⟩]

def exSite : Site := {
  root := [b! "site"], hide := hideCasketfile (b! "/site") (b! "/site/Casketfile"),
  indexPages := [b! "index.html"], encodings := [(b! "gzip", b! ".gz")],
  pathPrefix := b! "/", browse := [{ scope := b! "/", archives := [b! "tar"] }] }

example : NormalSegs exSite.root := by
  intro s hs; simp [exSite] at hs; subst hs
  exact ⟨by decide, by decide, by decide, by decide⟩
example : NormalPrefix exSite.pathPrefix := Or.inl rfl
example : NormalPrefix (b! "/pre") := Or.inr ⟨_, _, rfl, by decide⟩
example : RootIsDir exFS exSite := by
  intro e h; simp [stat, exSite, exFS] at h; subst h; rfl

/-- (tests) the sibling is served when accepted; dot-dot does not leave the root; the Casketfile
is not served, listed or archived; `//d` redirects to `/d/`. -/
example : serve exFS exSite mGET (b! "/a") (b! "gzip") = .file 3 (some (b! "gzip")) := by decide
example : serve exFS exSite mGET (b! "/../out") [] = .status 404 := by decide
example : serve exFS exSite mGET (b! "/%2e%2e/out") [] = .status 404 := by decide
example : serve exFS exSite mGET (b! "/Casketfile") [] = .status 404 := by decide
example : serve exFS exSite mGET (b! "/") [] = .listing [b! "a", b! "a.gz", b! "d"] := by decide
example : serve exFS exSite mGET (b! "/?archive=tar") [] =
    .archive [⟨[b! "a"], some 2⟩, ⟨[b! "a.gz"], some 3⟩, ⟨[b! "d"], none⟩, ⟨[b! "d", b! "c"], some 5⟩] := by decide
example : serve exFS exSite mGET (b! "//d") [] = .redirect 301 (b! "/d/") := by decide

/-- (tests) a matching entity tag gives 304 naming the sibling; Last-Modified names the plain file;
a range beyond the end gives 416 naming only the served file. -/
example : Casket.Cond.serveCond exFS exSite mGET (b! "/a") (b! "gzip")
    { inm := [.strong 3], ims := none, range := none, explored := false } = .notModified 3 := by decide
example : Casket.Cond.serveCond exFS exSite mGET (b! "/a") (b! "gzip")
    { inm := [], ims := none, range := some (.fromTo 0 3), explored := false } = .part 3 (some (b! "gzip")) 2 0 3 := by decide
example : Casket.Cond.serveCond exFS exSite mGET (b! "/a") []
    { inm := [.strong 3], ims := some (some 199), range := some (.fromOn 99), explored := false } = .unsatisfiable (some 2) := by decide

/-- (tests, changing file system) the Casketfile is replaced by a new inode (write + rename): it
stays unreachable under its own name; a `.gz` sibling that is a hard link of the NEW Casketfile is
passed over; listing and archive leave both out; a replaced ordinary file is served with its new
content; the old Casketfile inode, no longer named by the hide list, is not what is protected. -/
example : Casket.FileServeSeqProofs.RootDir exFS exSite := ⟨⟨[b! "site"], true, 1⟩, by decide, rfl⟩
open Casket.FileServeSeq in
example : run exSite exFS [
    .get mGET (b! "/a") [], .get mGET (b! "/Casketfile") [],
    .write [b! "site", b! "Casketfile"] 60,
    .get mGET (b! "/Casketfile") [],
    .link [b! "site", b! "a.gz"] [b! "site", b! "Casketfile"],
    .get mGET (b! "/a") (b! "gzip"), .get mGET (b! "/a.gz") [],
    .get mGET (b! "/") [],
    .write [b! "site", b! "a"] 20, .remove [b! "site", b! "Casketfile"],
    .get mGET (b! "/a") [], .get mGET (b! "/a.gz") []]
  = [.file 2 none, .status 404, .status 404, .file 2 none, .status 404,
     .listing [b! "a", b! "d"], .file 20 none, .file 60 none] := by decide
/-- the judge's "hidden" follows the state of the moment: after the replacement the NEW inode 60
is the hidden one (serving it is `bad:hidden`), the old inode 6 no longer is -/
example : hidden (Casket.FileServeSeq.applyStep exFS (.write [b! "site", b! "Casketfile"] 60)) exSite 60 = true
    ∧ hidden (Casket.FileServeSeq.applyStep exFS (.write [b! "site", b! "Casketfile"] 60)) exSite 6 = false
    ∧ hidden exFS exSite 6 = true := by decide

/-! (tests, several sites) `docs` (root `/out`, which does not contain the Casketfile) stands BEFORE
`app` (root `/site`, which does): both addresses of `app` hide the Casketfile, in either order of
the blocks; with a walk that RETURNS at the first root not containing the Casketfile (not the code,
`hideAllReturning`) the later site would get an empty hide list and serve its own Casketfile. -/
def exBlocks : List Casket.FileServeSites.Block := [
  { hosts := [b! "docs"], root := b! "/out", indexPages := [b! "index.html"], pathPrefix := b! "/", browse := [] },
  { hosts := [b! "app", b! "www"], root := b! "/site", indexPages := [b! "index.html"], pathPrefix := b! "/",
    browse := [{ scope := b! "/", archives := [b! "tar"] }] }]

open Casket.FileServeSites in
example : ((configs exBlocks).map (·.1)).Nodup := by decide
open Casket.FileServeSites in
example : serveSites exFS [(b! "gzip", b! ".gz")] (b! "/site/Casketfile") exBlocks (b! "www") mGET (b! "/Casketfile") [] = .status 404
    ∧ serveSites exFS [(b! "gzip", b! ".gz")] (b! "/site/Casketfile") exBlocks.reverse (b! "www") mGET (b! "/Casketfile") [] = .status 404
    ∧ serveSites exFS [(b! "gzip", b! ".gz")] (b! "/site/Casketfile") exBlocks (b! "app") mGET (b! "/") [] = .listing [b! "a", b! "a.gz", b! "d"]
    ∧ serveSites exFS [(b! "gzip", b! ".gz")] (b! "/site/Casketfile") exBlocks (b! "nobody") mGET (b! "/a") [] = .status 404 := by decide

open Casket.FileServeSites in
/-- What `C02_sites_hide_per_site` rests on: `return nil` in place of "skip this site" leaves every
later site without its hide entry, and such a site serves its Casketfile (judged `bad:hidden`). -/
theorem C02_sites_early_return_fails_witness :
    hideAll (b! "/site/Casketfile") [b! "/out", b! "/site"] = [[], [b! "/Casketfile"]]
    ∧ hideAllReturning (b! "/site/Casketfile") [b! "/out", b! "/site"] = [[], []]
    ∧ hideAllReturning (b! "/site/Casketfile") [b! "/site", b! "/out"] = [[b! "/Casketfile"], []]
    ∧ serve exFS { exSite with hide := [] } mGET (b! "/Casketfile") [] = .file 6 none
    ∧ verdict exFS exSite (b! "/Casketfile") [] (.file 6 none) = "bad:hidden:body is the content of a hidden file" := by
  decide

/-! (tests, root `/`) the same tree served by a site whose root is the top of the file system: the
Casketfile two levels down is hidden under its full path, left out of the listing and the archive of
its directory; other files are served. -/
def exRootSite : Site := { exSite with
  root := Casket.FileServeSites.rootElems (b! "/"), hide := hideCasketfile (b! "/") (b! "/site/Casketfile"),
  browse := [{ scope := b! "/site", archives := [b! "tar"] }] }

example : exRootSite.root = [] := by decide
example : NormalSegs exRootSite.root := by
  have h : exRootSite.root = [] := by decide
  intro s hs; rw [h] at hs; cases hs
example : RootIsDir exFS exRootSite := by
  have h : exRootSite.root = [] := by decide
  intro e he; rw [h] at he; simp [stat, rootEntry] at he; subst he; rfl
example : exRootSite.hide = [b! "site/Casketfile"] := by decide
example : serve exFS exRootSite mGET (b! "/site/Casketfile") [] = .status 404
    ∧ serve exFS exRootSite mGET (b! "/site/d/../Casketfile") [] = .status 404
    ∧ serve exFS exRootSite mGET (b! "/site/a") [] = .file 2 none
    ∧ serve exFS exRootSite mGET (b! "/site/") [] = .listing [b! "a", b! "a.gz", b! "d"]
    ∧ serve exFS exRootSite mGET (b! "/site/?archive=tar") [] =
      .archive [⟨[b! "site", b! "a"], some 2⟩, ⟨[b! "site", b! "a.gz"], some 3⟩, ⟨[b! "site", b! "d"], none⟩,
                ⟨[b! "site", b! "d", b! "c"], some 5⟩] := by decide

open Casket.FileServeSites in
/-- What `C02_casketfile_hidden_at_fs_root` rests on: a containment test on whole path segments
(`HasPrefix(casketfile, root + "/")`, not the code) agrees with the code for every root that has a
name, and for the root `/` tests the prefix `//`: the hide list stays empty and the site serves its
Casketfile (judged `bad:hidden`). -/
theorem C02_fs_root_separator_test_fails_witness :
    hideCasketfileSep (b! "/site") (b! "/site/Casketfile") = hideCasketfile (b! "/site") (b! "/site/Casketfile")
    ∧ hideCasketfile (b! "/") (b! "/site/Casketfile") = [b! "site/Casketfile"]
    ∧ hideCasketfileSep (b! "/") (b! "/site/Casketfile") = []
    ∧ serve exFS { exRootSite with hide := [] } mGET (b! "/site/Casketfile") [] = .file 6 none
    ∧ verdict exFS exRootSite (b! "/site/Casketfile") [] (.file 6 none) = "bad:hidden:body is the content of a hidden file" := by
  decide

end Casket.Props.C02
