import Casket.Spec.FileServe
namespace Casket.Props.C02
end Casket.Props.C02
