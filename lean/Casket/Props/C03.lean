import Casket.Proofs.Chain
import Casket.Proofs.Cond
import Casket.Proofs.Htpasswd
import Casket.Proofs.AuthConc
import Casket.Proofs.ChainAddrs
import Casket.Proofs.TplPool
import Casket.Generated.Directives
/-
C03 — Protected paths are never disclosed without valid credentials.

Statements only; proofs in Casket/Proofs/Chain.lean (and Proofs/FileServe.lean).  They are about
`Chain.chainServe`, the model of  tryfiles → rewrite → ext → basicauth → internal → proxy →
browse → static files  that the stream `c03.chain` compares with real casket sites, and about
`ChainSpec.verdict`, the executable property applied to the implementation's answers.

PARTIAL: the property as stated is FALSE for casket (witness theorems below, confirmed on the real
code through the stream, listed in known_findings.d/C03.json):
  * an archive of an unprotected parent directory contains basicauth-protected files   (F3)
  * a file protected by its own name is served as an index page / precompressed sibling of an
    unprotected URL                                                                    (F4)
  * the same two routes for an internal path that is only a name prefix inside a directory.
The positive theorem therefore carries hypotheses that exclude exactly these classes.  Outside the
model: regular expressions beyond literals, `if` conditions, placeholders other than {path},
X-Accel-Redirect, markdown/fastcgi/websocket, text/template itself; the OS file system is a table.
The `templates` middleware and its pooled buffer over SEQUENCES of requests: section TplPool below
(one more failing class there: a public page that includes a protected file).
-/
namespace Casket.Props.C03
open Casket.Path Casket.FS Casket.FileServe Casket.Chain Casket.ChainSpec Casket.FileServeProofs Casket.ChainProofs

def idxOf (s : String) : Nat := Casket.Generated.directives.findIdx (· == s)

/-- The fixed directive order (regenerated from plugin.go on every run) puts every
path-rewriting directive before basicauth and internal, and these before every content handler
the model has: the protection directives decide on the final path. -/
theorem C03_auth_sees_final_path :
    idxOf "tryfiles" < idxOf "basicauth" ∧ idxOf "rewrite" < idxOf "basicauth" ∧ idxOf "ext" < idxOf "basicauth" ∧
    idxOf "basicauth" < idxOf "internal" ∧
    idxOf "internal" < idxOf "proxy" ∧ idxOf "internal" < idxOf "fastcgi" ∧ idxOf "internal" < idxOf "templates" ∧
    idxOf "internal" < idxOf "markdown" ∧ idxOf "internal" < idxOf "browse" ∧
    idxOf "browse" < Casket.Generated.directives.length := by decide

/-- `Path.Matches` cannot be fooled by spelling: for a rooted request path that does not end in a
slash and names something below the root (dot segments, repeated slashes …), it decides exactly
as for the canonical URL of what the path names. -/
theorem C03_matches_spelling_invariant (t base : Bytes) (hlast : (slash :: t).getLast? ≠ some slash)
    (hne : jailElems (slash :: t) ≠ []) :
    pathMatches (slash :: t) base = pathMatches (slash :: joinSlash (jailElems (slash :: t))) base :=
  pathMatches_canonical t base hlast hne

/-- tryfiles, rewrite and ext hand a rooted path to basicauth and internal (the repaired
`rewrite.To`; on the unrepaired code a `without` prefix or a relative target produced
`secret/s.txt`, which no rule matched). -/
theorem C03_auth_path_rooted (fs : FS) (cs : ChainSite) (orig : Bytes) (u : Url)
    (hu : ∃ t, u.path = slash :: t) (hw : TargetsNonEmpty cs) : ∃ t, (authUrl fs cs orig u).path = slash :: t :=
  authUrl_rooted fs cs orig u hu hw

/-- Direct requests, every spelling, every method, any Accept-Encoding: if the chain serves the
regular file that the final request path itself names, then that file's canonical URL is not
covered — no basicauth rule demands credentials the request lacks, no internal path matches. -/
theorem C03_direct_file (fs : FS) (cs : ChainSite) (r : CReq) (u : Url) (e : Entry) (ino : Nat) (enc : Option Bytes)
    (hroot : NormalSegs cs.site.root) (hpre : NormalPrefix cs.site.pathPrefix) (hrd : RootIsDir fs cs.site)
    (hu : ∃ t, u.path = slash :: t)
    (hg : guarded fs cs r u = .served (.file ino enc))
    (ho : dirOpen fs cs.site.root u.path = .ok e) (hf : e.isDir = false) :
    needsAuth cs.auth (canonURL cs.site e) r.creds = false ∧ isInternal cs.internal (canonURL cs.site e) = false := by
  have := direct_not_covered hroot hpre hrd hu hg ho hf
  simpa [covered] using this

/-- A proxy backend is contacted only for a path that basicauth (unless the method is OPTIONS)
and internal let through, and that matches its `from` scope. -/
theorem C03_backends (fs : FS) (cs : ChainSite) (r : CReq) (u : Url) (id : Nat)
    (h : guarded fs cs r u = .backend id) :
    (r.method = mOPTIONS ∨ needsAuth cs.auth u.path r.creds = false) ∧ isInternal cs.internal u.path = false ∧
      ∃ x ∈ cs.proxies, x.2 = id ∧ pathMatches u.path x.1 = true := by
  unfold guarded at h
  split at h
  · simp at h
  · rename_i hna
    split at h
    · simp at h
    · rename_i hint
      split at h
      · rename_i x hpm
        simp only [CResp.backend.injEq] at h
        refine ⟨?_, by simpa using hint, ?_⟩
        · by_cases hm : r.method = mOPTIONS
          · exact Or.inl hm
          · right
            cases hn : needsAuth cs.auth u.path r.creds with
            | false => rfl
            | true => exact absurd ⟨hm, hn⟩ hna
        · rcases proxyMatch_inv _ _ _ _ hpm with ⟨hx, hm⟩ | hb
          · exact ⟨x, hx, h, hm⟩
          · simp at hb
      · simp at h

/-- A request whose final path matches an internal prefix gets 404 (or 401) and no content. -/
theorem C03_internal_unreachable (fs : FS) (cs : ChainSite) (r : CReq) (u : Url)
    (h : isInternal cs.internal u.path = true) :
    guarded fs cs r u = .unauthorized ∨ guarded fs cs r u = .served (.status 404) := by
  unfold guarded
  split
  · exact Or.inl rfl
  · simp [h]

/-- With credentials that every rule accepts the request is served exactly as on the same site
without basicauth. -/
theorem C03_with_credentials_same_as_unprotected (fs : FS) (cs : ChainSite) (r : CReq) (u : Url)
    (h : ∀ rule ∈ cs.auth, ruleAccepts rule r.creds = true) :
    guarded fs cs r u = guarded fs { cs with auth := [] } r u :=
  guarded_with_credentials h

/-- PARTIAL no-disclosure theorem for the whole chain, from the raw request target on: the
model's answer always passes the judge, for every file system without hard links and every
configuration OUTSIDE the known failing classes:
`IndexSafe` / `SiblingSafe` (no covered index page / precompressed sibling under an uncovered URL —
excludes F4), `ArchiveSafe` (no covered file below an uncovered directory URL inside an
archive-enabled browse scope — excludes F3), `BackendSafe` (a covered proxy scope covers the paths it matches; backend
numbers are unique).  What is missing for the full property is exactly what the witness theorems
below show to fail. -/
theorem C03_no_disclosure_partial (fs : FS) (cs : ChainSite) (r : CReq)
    (hroot : NormalSegs cs.site.root) (hpre : NormalPrefix cs.site.pathPrefix) (hrd : RootIsDir fs cs.site)
    (hw : TargetsNonEmpty cs) (hl : NoHardLinks fs)
    (his : IndexSafe fs cs r.creds) (hss : SiblingSafe fs cs r.creds)
    (has : ArchiveSafe fs cs r.creds) (hbs : BackendSafe cs r.creds) :
    ChainSpec.verdict fs cs r (chainServe fs cs r) = "ok" :=
  chainServe_verdict_ok hroot hpre hrd hw hl his hss has hbs

/-- The same statement named as the link between model and judge. -/
theorem C03_model_verdict_ok_partial (fs : FS) (cs : ChainSite) (r : CReq)
    (hroot : NormalSegs cs.site.root) (hpre : NormalPrefix cs.site.pathPrefix) (hrd : RootIsDir fs cs.site)
    (hw : TargetsNonEmpty cs) (hl : NoHardLinks fs)
    (his : IndexSafe fs cs r.creds) (hss : SiblingSafe fs cs r.creds)
    (has : ArchiveSafe fs cs r.creds) (hbs : BackendSafe cs r.creds) :
    ChainSpec.verdict fs cs r (chainServe fs cs r) = "ok" :=
  chainServe_verdict_ok hroot hpre hrd hw hl his hss has hbs

/-! ### A server block with several addresses

Every address of a block is a site configuration of its own, and every directive of the block is
set up once per address on THAT configuration (`Model/ChainAddrs.lean`).  The meaning of the block
is one `ChainSite`; each of its addresses answers exactly as that site — in particular each one has
the internal paths on its hide list, so that browse leaves them out of listings and archives. -/

open Casket.ChainAddrs Casket.ChainAddrsProofs in
/-- Whichever address of the block a request is sent to, it is answered by the block's site. -/
theorem C03_every_address_same_site (fs : FS) (addrs : List Bytes) (cs : ChainSite) (host : Bytes) (r : CReq)
    (h : host ∈ addrs) : chainServeAt fs (configsOf addrs cs) host r = chainServe fs cs r :=
  chainServeAt_configsOf fs addrs cs host r h

open Casket.ChainAddrs Casket.ChainAddrsProofs in
/-- Hence the partial no-disclosure theorem holds at every address of the block (the link between
model and judge for the cases of `c03.chain` that name an address). -/
theorem C03_addrs_model_verdict_ok_partial (fs : FS) (addrs : List Bytes) (cs : ChainSite) (host : Bytes) (r : CReq)
    (h : host ∈ addrs)
    (hroot : NormalSegs cs.site.root) (hpre : NormalPrefix cs.site.pathPrefix) (hrd : RootIsDir fs cs.site)
    (hw : TargetsNonEmpty cs) (hl : NoHardLinks fs)
    (his : IndexSafe fs cs r.creds) (hss : SiblingSafe fs cs r.creds)
    (has : ArchiveSafe fs cs r.creds) (hbs : BackendSafe cs r.creds) :
    ChainSpec.verdict fs cs r (chainServeAt fs (configsOf addrs cs) host r) = "ok" := by
  rw [chainServeAt_configsOf fs addrs cs host r h]
  exact chainServe_verdict_ok hroot hpre hrd hw hl his hss has hbs

/-- With directory scopes only (`DirScoped`: every resource, exclusion and internal path is a
directory in normal form with a trailing slash, like `/secret/`), an index page or a precompressed
sibling is covered exactly when the URL it is served for is covered: `IndexSafe` and `SiblingSafe`
hold — protecting by directory is not affected by finding F4. -/
theorem C03_dirscoped_index_sibling_safe (fs : FS) (cs : ChainSite) (creds : Option (Bytes × Bytes))
    (hroot : NormalSegs cs.site.root) (hrd : RootIsDir fs cs.site) (hds : DirScoped cs) (hpn : PlainNames cs.site) :
    IndexSafe fs cs creds ∧ SiblingSafe fs cs creds :=
  ⟨indexSafe_of_dirScoped hds hroot hpn, siblingSafe_of_dirScoped hds hroot hrd hpn⟩

/-- Metadata (HEAD, 304, 206, 416 answers): the headers of a file answer identify the served file
(ETag, Content-Length, Content-Range — covered by the theorems above, it is the `.file` inode) and
the resolved file (Last-Modified; `Cond.applyCond` mentions no other inode).  Under the hypotheses
of the partial theorem the resolved file passes the judge as well: no size, entity tag or
modification time of a covered file is disclosed without accepted credentials. -/
theorem C03_metadata_partial (fs : FS) (cs : ChainSite) (r : CReq) (u : Url) (ino : Nat) (enc : Option Bytes)
    (hroot : NormalSegs cs.site.root) (hpre : NormalPrefix cs.site.pathPrefix) (hrd : RootIsDir fs cs.site)
    (hw : TargetsNonEmpty cs) (hl : NoHardLinks fs) (his : IndexSafe fs cs r.creds)
    (hu : finalUrl fs cs r = some u) (h : chainServe fs cs r = .served (.file ino enc)) :
    ChainSpec.verdict fs cs r (.served (.file (Casket.Cond.resolvedIno fs cs.site u) none)) = "ok" ∧
    ∀ (c : Casket.Cond.Cond), ∀ i ∈ Casket.CondSpec.mentioned (Casket.Cond.applyCond c ino enc (Casket.Cond.resolvedIno fs cs.site u)),
      i = ino ∨ i = Casket.Cond.resolvedIno fs cs.site u := by
  refine ⟨chainServe_resolved_ok hroot hpre hrd hw hl his hu h, ?_⟩
  intro c i hi
  rcases Casket.CondProofs.applyCond_cases c ino enc (Casket.Cond.resolvedIno fs cs.site u) with h | h | ⟨a, b, h⟩ | h | h | h <;>
    rw [h] at hi <;> simp [Casket.CondSpec.mentioned] at hi
  · exact hi
  · exact Or.inl hi
  · exact hi
  · exact hi
  · exact Or.inl hi

/-- Archives and proxies, syntactically: if no `servearchive` browse scope and no proxy `from`
scope lies strictly above a protection scope (`ScopeClear`: every resource, exclusion or internal
path lying under the scope contains the scope; scopes are written `/`, `/a/b` or `/a/b/`), then
`ArchiveSafe` and `BackendSafe` hold — an archive never reaches down into a protected directory from
outside, and a path handed to a backend is covered exactly when the proxy scope is. -/
theorem C03_clear_scopes_safe (fs : FS) (cs : ChainSite) (creds : Option (Bytes × Bytes))
    (hroot : NormalSegs cs.site.root) (hfs : NormalFS fs) (hds : DirScoped cs)
    (hac : ArchiveScopesClear cs) (hpc : ProxyScopesClear cs) :
    ArchiveSafe fs cs creds ∧ BackendSafe cs creds :=
  ⟨archiveSafe_of_clear hds hroot hfs hac, backendSafe_of_clear hds hpc⟩

/-- No-disclosure with SYNTACTIC hypotheses only: directory scopes in normal form (`DirScoped`),
plain index names and sibling extensions (`PlainNames`), no `servearchive` scope and no proxy scope
strictly above a protection scope (`ArchiveScopesClear`, `ProxyScopesClear`).  For every such site,
every file system with ordinary names and without hard links, every request target, method,
Accept-Encoding and credentials, the model's answer passes the judge: no content of a covered file
or backend without accepted credentials.  (A site without archives or proxies meets the last two
hypotheses trivially.) -/
theorem C03_no_disclosure_dirscoped (fs : FS) (cs : ChainSite) (r : CReq)
    (hroot : NormalSegs cs.site.root) (hpre : NormalPrefix cs.site.pathPrefix) (hrd : RootIsDir fs cs.site)
    (hw : TargetsNonEmpty cs) (hl : NoHardLinks fs) (hfs : NormalFS fs)
    (hds : DirScoped cs) (hpn : PlainNames cs.site) (hac : ArchiveScopesClear cs) (hpc : ProxyScopesClear cs) :
    ChainSpec.verdict fs cs r (chainServe fs cs r) = "ok" :=
  chainServe_verdict_ok_clear hroot hpre hrd hw hl hfs hds hpn hac hpc

/-! ### Several sites with htpasswd files in one process -/

open Casket.Htpasswd Casket.HtpasswdProofs in
/-- The process-wide htpasswd cache is not observable.  For every history of configuration loads
(any sites, in any order, repeated, each load with its own snapshot of the files on disk), started
from any cache whose entries stem from those snapshots, the sites of the last load get exactly the
password matchers built from their OWN file (root joined with the name after `htpasswd=`) as it is
at that load.  Assumption `Faithful`: modification time and size identify a file's content. -/
theorem C03_htpasswd_cache_unobservable (W : List Files) (hist : List Load) (c : Cache)
    (hW : Faithful W) (hH : ∀ l ∈ hist, l.1 ∈ W) (hc : Coherent W c) :
    (runHistory c hist).2 = match hist.getLast? with | some l => l.2.map (fun s => (s, ownMatcher l.1 s)) | none => [] :=
  runHistory_spec hist hW hH hc

open Casket.Htpasswd Casket.HtpasswdProofs in
/-- Hence a protected resource of a site is served exactly with credentials valid for THAT site
(`HtpasswdSpec.verdict`, the predicate the driver applies to the answers of real multi-site
instances in the stream `c03.multi`): never with another site's password for the same user name,
never with a password the file no longer contains. -/
theorem C03_multi_model_verdict_ok (W : List Files) (hist : List Load) (last : Load) (c : Cache)
    (hW : Faithful W) (hH : ∀ l ∈ hist, l.1 ∈ W) (hc : Coherent W c) (hl : hist.getLast? = some last)
    (host path : Bytes) (creds : Option (Bytes × Bytes)) :
    Casket.HtpasswdSpec.verdict last.1 last.2 host path creds (Casket.Htpasswd.serve c hist host path creds) = "ok" :=
  serve_verdict_ok hist last hW hH hc hl host path creds

/-- (non-vacuity and tests) two roots, the same relative file name, the same user with different
passwords: loading A then B, B refuses A's password and accepts its own; after the file was edited
and the configuration loaded again the old password is refused. -/
def mA : Casket.Htpasswd.SiteCfg := { host := b! "a", root := b! "/rA", file := b! "users.ht", user := b! "bob" }
def mB : Casket.Htpasswd.SiteCfg := { host := b! "b", root := b! "/rB", file := b! "users.ht", user := b! "bob" }
def mF1 : Casket.Htpasswd.Files := [(b! "/rA/users.ht", 1, [(b! "bob", .sha (b! "pwA"))]), (b! "/rB/users.ht", 1, [(b! "bob", .sha (b! "pwB"))])]
def mF2 : Casket.Htpasswd.Files := [(b! "/rA/users.ht", 2, [(b! "bob", .sha (b! "pwA2"))]), (b! "/rB/users.ht", 1, [(b! "bob", .sha (b! "pwB"))])]
example : Casket.HtpasswdProofs.Faithful [mF1, mF2] := by
  intro F hF F' hF' k st t t' h h'
  simp only [List.mem_cons, List.not_mem_nil, or_false] at hF hF'
  by_cases k1 : b! "/rA/users.ht" = k
  · subst k1
    rcases hF with rfl | rfl <;> rcases hF' with rfl | rfl <;>
      simp [mF1, mF2, Casket.Htpasswd.Files.get, List.find?] at h h' <;> (try (first | omega | simp_all))
  · by_cases k2 : b! "/rB/users.ht" = k
    · subst k2
      rcases hF with rfl | rfl <;> rcases hF' with rfl | rfl <;>
        simp [mF1, mF2, Casket.Htpasswd.Files.get, List.find?] at h h' <;> (try (first | omega | simp_all))
    · rcases hF with rfl | rfl <;> simp [mF1, mF2, Casket.Htpasswd.Files.get, List.find?, k1, k2] at h
example : Casket.HtpasswdProofs.Coherent [mF1, mF2] [] := Casket.HtpasswdProofs.coherent_nil _
example : Casket.Htpasswd.serve [] [(mF1, [mA, mB])] (b! "b") (b! "/secret/s.txt") (some (b! "bob", b! "pwA")) = .unauthorized := by decide
example : Casket.Htpasswd.serve [] [(mF1, [mA, mB])] (b! "b") (b! "/secret/s.txt") (some (b! "bob", b! "pwB")) = .content (b! "/rB") := by decide
example : Casket.Htpasswd.serve [] [(mF1, [mA, mB]), (mF2, [mB, mA])] (b! "a") (b! "/secret/s.txt") (some (b! "bob", b! "pwA")) = .unauthorized := by decide
example : Casket.Htpasswd.serve [] [(mF1, [mA, mB]), (mF2, [mB, mA])] (b! "a") (b! "/secret/s.txt") (some (b! "bob", b! "pwA2")) = .content (b! "/rA") := by decide

/-! ### Concurrent requests on one rule with a plain password

`PlainMatcher`'s closure hashes the presented password into a variable of the CALL and compares
it with the rule's hash.  `AuthConc.runSched` lets the calls in flight on one rule take their two
steps (store my hash / compare) in ANY order; the theorems say that no order matters.  The stream
`c03.conc` explores schedules on the real `ServeHTTP` (goroutines with valid and with wrong
credentials against one protected path) — exploration, not proof: the Go scheduler picks the
interleavings. -/

open Casket.AuthConc Casket.AuthConcSpec Casket.AuthConcProofs in
/-- Purity of the credential decision: for every rule, every set of calls in flight, every
schedule (any interleaving of their steps, complete or not), each decision that comes out is
`ruleAccepts rule (user, password)` of the call's OWN credentials — a function of (rule, presented
credentials) only; the other calls and the order do not enter.  `hash` (SHA-1) is only assumed
injective. -/
theorem C03_credential_decision_pure (hash : Bytes → Bytes) (rule : AuthRule) (calls : List Call) (sched : List Nat)
    (hinj : ∀ a b, hash a = hash b → a = b) :
    ∀ jd ∈ runSched hash rule calls (idleSlots calls) sched,
      ∃ c, calls[jd.1]? = some c ∧ jd.2 = ruleAccepts rule (some (c.user, c.pw)) :=
  runSched_pure hinj sched _ (inv_idle hash rule calls)

open Casket.AuthConc Casket.AuthConcSpec Casket.AuthConcProofs in
/-- Hence the judged predicate of the concurrent phase holds of the model for every schedule: no
call lacking valid credentials is authenticated, no call with valid credentials is refused. -/
theorem C03_conc_model_verdict_ok (hash : Bytes → Bytes) (rule : AuthRule) (calls : List Call) (sched : List Nat)
    (hinj : ∀ a b, hash a = hash b → a = b) :
    Casket.AuthConcSpec.verdict (tally rule calls (runSched hash rule calls (idleSlots calls) sched)) = "ok" := by
  rw [tally_of_pure rule calls _ (runSched_pure hinj sched _ (inv_idle hash rule calls))]
  rfl

def cRule : AuthRule := { user := b! "bob", pass := b! "pw", resources := [b! "/secret"], excludes := [] }
def cCalls : List Casket.AuthConc.Call := [⟨b! "bob", b! "wrong"⟩, ⟨b! "bob", b! "pw"⟩, ⟨b! "eve", b! "pw"⟩]

/-- (non-vacuity) `id` is injective; under maximal overlap and one after the other the three calls
get the same decisions: wrong password no, right password yes, wrong user no -/
example : ∀ a b : Bytes, id a = id b → a = b := fun _ _ h => h
example : Casket.AuthConc.runSched id cRule cCalls (Casket.AuthConc.idleSlots cCalls) (Casket.AuthConc.overlapped 3)
    = [(2, false), (0, false), (1, true)] := by decide
example : Casket.AuthConc.runSched id cRule cCalls (Casket.AuthConc.idleSlots cCalls) (Casket.AuthConc.sequential 3)
    = [(0, false), (1, true), (2, false)] := by decide

/-- What the theorem rests on is that the hash slot belongs to the call.  With ONE slot per rule
shared by all calls (`runShared`, the seeded change C03-plainmatcher-shared-hash-array) the
sequential schedule still decides correctly, but when the valid login stores its hash between
the wrong-password call's store and compare, the wrong password is accepted; in the reverse
interleaving the valid login is refused. -/
theorem C03_shared_hash_slot_fails_witness :
    Casket.AuthConc.runShared id cRule cCalls ([], Casket.AuthConc.idleSlots cCalls) [0, 0, 1, 1] = [(0, false), (1, true)] ∧
    Casket.AuthConc.runShared id cRule cCalls ([], Casket.AuthConc.idleSlots cCalls) [0, 1, 0, 1] = [(0, true), (1, true)] ∧
    Casket.AuthConc.runShared id cRule cCalls ([], Casket.AuthConc.idleSlots cCalls) [1, 0, 1, 0] = [(1, false), (0, false)] ∧
    Casket.AuthConcSpec.tally cRule cCalls [(0, true), (1, true)] = { wrongServed := 1, validRefused := 0 } := by
  decide

/-! ### `templates` behind basicauth/internal: a sequence of requests and the pooled buffer

`Model/TplPool.lean`: the templates middleware renders into a buffer drawn from the site's
`sync.Pool`; the buffer returns to the pool holding the page source (parse error), the partial
output (execution error) or the output (success) — also of a protected page rendered for the
holder of the credentials.  A sequence of requests runs against an explicit pool; which buffer a
request draws is the scheduler's choice (any index, or a new one). -/
section TplPool
open Casket.TplPool Casket.TplPoolSpec Casket.TplPoolProofs

/-- The pool is unobservable: for every site, every content of the pool at the start, every
sequence of requests and every choice of buffers, each response is the one the request gets on
its own with a fresh buffer (the buffer is Reset right after Get). -/
theorem C03_tpl_pool_unobservable (fuel : Nat) (s : TSite) (pool : List Page) (steps : List (TReq × Option Nat)) :
    run true fuel s pool steps = steps.map fun st => serveFresh fuel s st.1 :=
  run_eq_map fuel s steps pool

/-- One request, no history: with tokens that identify their file and no page including a file
that is closed to someone the page is open to, the response carries no token of a file covered
for the request's credentials. -/
theorem C03_tpl_single_request_safe (fuel : Nat) (s : TSite) (hu : TokensUnique s) (hi : IncludeSafe s) (r : TReq) :
    ∀ t ∈ tokensOf (serveFresh fuel s r), offends s r.creds t = false :=
  serveFresh_safe fuel s hu hi r

/-- Hence the judge of `c03.tpl` accepts the model's answer to every sequence, from any pool,
under any choice of buffers.  PARTIAL: `IncludeSafe` excludes exactly the sites where a page
includes a file that is closed to someone the page is open to — there the property fails by the
template's own doing (`C03_tpl_include_fails_witness`). -/
theorem C03_tpl_model_verdict_ok_partial (fuel fuelJ : Nat) (s : TSite) (hu : TokensUnique s) (hi : IncludeSafe s)
    (pool : List Page) (steps : List (TReq × Option Nat)) :
    verdict fuelJ s (observed steps (run true fuel s pool steps)) = "ok" :=
  run_verdict_ok fuel fuelJ s hu hi pool steps

def tSite : TSite := {
  auth := [{ user := b! "bob", pass := b! "pw", resources := [b! "/secret"], excludes := [] }],
  internal := [],
  rules := [{ path := b! "/", exts := [b! ".html"] }],
  files := [(b! "/home.html", [.lit 10, .incl (b! "/inc/foot.html")]),
            (b! "/secret/report.html", [.lit 21, .incl (b! "/secret/missing.html"), .lit 22]),
            (b! "/inc/foot.html", [.lit 40])] }

def tBob : Option (Bytes × Bytes) := some (b! "bob", b! "pw")

/-- the credential holder opens the report (its execution breaks off after the first part), then
someone without credentials asks for the public page and draws the buffer just put back -/
def tSteps : List (TReq × Option Nat) :=
  [({ path := b! "/secret/report.html", creds := tBob }, none), ({ path := b! "/home.html", creds := none }, some 0)]

/-- the hypotheses are satisfiable by a site that protects something and includes something -/
example : TokensUnique tSite := by
  intro f hf g hg t h1 h2
  simp only [tSite, List.mem_cons, List.not_mem_nil, or_false] at hf hg
  rcases hf with rfl | rfl | rfl <;> rcases hg with rfl | rfl | rfl <;> simp_all
def tRule : AuthRule := { user := b! "bob", pass := b! "pw", resources := [b! "/secret"], excludes := [] }
example : IncludeSafe tSite := by
  have h0 : ruleCovers tRule (b! "/inc/foot.html") = false := by decide
  have h1 : ruleCovers tRule (b! "/secret/missing.html") = true := by decide
  have h2 : ruleCovers tRule (b! "/secret/report.html") = true := by decide
  have hc : ∀ creds p, TplPoolSpec.covered tSite creds p
      = (ruleCovers tRule p && !(ruleCovers tRule p && ruleAccepts tRule creds)) := by
    intro creds p; simp [TplPoolSpec.covered, needsAuth, isInternal, tSite, tRule]
  intro f hf n hn creds
  simp only [tSite, List.mem_cons, List.not_mem_nil, or_false] at hf
  rcases hf with rfl | rfl | rfl
  · simp at hn; subst hn; rw [hc, h0]; simp
  · simp at hn; subst hn; rw [hc, hc, h1, h2]; exact id
  · simp at hn
example : run true 16 tSite [] tSteps = [.error, .rendered [10, 40]] := by decide
example : serveFresh 16 tSite { path := b! "/secret/report.html", creds := none } = .unauthorized := by decide

/-- What the theorem rests on is the Reset after Get.  In the variant that Resets where the
handler is done with the buffer but not on the return after a failed Execute (the seeded change
C03-templates-buffer-not-reset-after-exec-error), the same two requests answer 500 to the
credential holder and then render the protected page's first part into the public page for a
request without credentials; a request that happens to get a new buffer is answered correctly. -/
theorem C03_tpl_stale_buffer_fails_witness :
    run false 16 tSite [] tSteps = [.error, .rendered [21, 10, 40]] ∧
    offends tSite none 21 = true ∧
    (tokensOf (serveFresh 16 tSite { path := b! "/home.html", creds := none })).any (offends tSite none) = false ∧
    run false 16 tSite [] (tSteps.map fun st => (st.1, none)) = [.error, .rendered [10, 40]] := by
  decide

/-- `.Include` reads the file below the site root; basicauth and internal do not apply to it.  A
public page that includes a protected partial hands its content to anyone, while the partial's
own URL answers 401 (known finding C03-template-includes-protected). -/
def tIncSite : TSite := { tSite with
  files := [(b! "/digest.html", [.lit 11, .incl (b! "/secret/part.html")]), (b! "/secret/part.html", [.lit 27])] }

theorem C03_tpl_include_fails_witness :
    serveFresh 16 tIncSite { path := b! "/secret/part.html", creds := none } = .unauthorized ∧
    serveFresh 16 tIncSite { path := b! "/digest.html", creds := none } = .rendered [11, 27] ∧
    offends tIncSite none 27 = true ∧
    (reach tIncSite.files 16 [.lit 11, .incl (b! "/secret/part.html")]).contains 27 = true := by
  decide

end TplPool

/-! ### Witnesses: the full property fails on the model exactly as on the real code -/

def wFS : FS := [
  ⟨[b! "site"], true, 1⟩, ⟨[b! "site", b! "area"], true, 2⟩, ⟨[b! "site", b! "area", b! "free"], false, 3⟩,
  ⟨[b! "site", b! "area", b! "locked"], true, 4⟩, ⟨[b! "site", b! "area", b! "locked", b! "l"], false, 5⟩,
  ⟨[b! "site", b! "docs"], true, 6⟩, ⟨[b! "site", b! "docs", b! "index.html"], false, 7⟩,
  ⟨[b! "site", b! "top"], false, 8⟩, ⟨[b! "site", b! "top.gz"], false, 9⟩]

def wSite (hide : List Bytes) : Site := {
  root := [b! "site"], hide := hide, indexPages := [b! "index.html"], encodings := [(b! "gzip", b! ".gz")],
  pathPrefix := b! "/", browse := [{ scope := b! "/", archives := [b! "tar"] }] }

def wCS (res : Bytes) : ChainSite := {
  site := wSite [], tryfiles := none, rewrites := [], exts := [],
  auth := [{ user := b! "bob", pass := b! "pw", resources := [res], excludes := [] }], internal := [], proxies := [] }

def wReq (target ae : Bytes) : CReq := { method := mGET, target := target, acceptEncoding := ae, creds := none }

/-- F3: `basicauth /area/locked`, archives enabled above it: `GET /area/?archive=tar` without
credentials carries the protected file (inode 5), while `GET /area/locked/l` gets 401. -/
theorem C03_archive_fails_witness :
    chainServe wFS (wCS (b! "/area/locked")) (wReq (b! "/area/locked/l") []) = .unauthorized ∧
    chainServe wFS (wCS (b! "/area/locked")) (wReq (b! "/area/?archive=tar") []) =
      .served (.archive [⟨[b! "area", b! "free"], some 3⟩, ⟨[b! "area", b! "locked"], none⟩,
        ⟨[b! "area", b! "locked", b! "l"], some 5⟩]) ∧
    ChainSpec.verdict wFS (wCS (b! "/area/locked")) (wReq (b! "/area/?archive=tar") [])
      (chainServe wFS (wCS (b! "/area/locked")) (wReq (b! "/area/?archive=tar") [])) ≠ "ok" := by
  refine ⟨by decide, by decide, by decide⟩

/-- F4 (index page): `basicauth /docs/index.html`: `GET /docs/` serves it without credentials,
`GET /docs/index.html` gets 401. -/
theorem C03_index_fails_witness :
    chainServe wFS (wCS (b! "/docs/index.html")) (wReq (b! "/docs/index.html") []) = .unauthorized ∧
    chainServe wFS (wCS (b! "/docs/index.html")) (wReq (b! "/docs/") []) = .served (.file 7 none) ∧
    ChainSpec.verdict wFS (wCS (b! "/docs/index.html")) (wReq (b! "/docs/") [])
      (chainServe wFS (wCS (b! "/docs/index.html")) (wReq (b! "/docs/") [])) ≠ "ok" := by
  refine ⟨by decide, by decide, by decide⟩

/-- F4 (precompressed sibling): `basicauth /top.gz`: `GET /top` with `Accept-Encoding: gzip`
serves it without credentials. -/
theorem C03_sibling_fails_witness :
    chainServe wFS (wCS (b! "/top.gz")) (wReq (b! "/top.gz") []) = .unauthorized ∧
    chainServe wFS (wCS (b! "/top.gz")) (wReq (b! "/top") (b! "gzip")) = .served (.file 9 (some (b! "gzip"))) ∧
    ChainSpec.verdict wFS (wCS (b! "/top.gz")) (wReq (b! "/top") (b! "gzip"))
      (chainServe wFS (wCS (b! "/top.gz")) (wReq (b! "/top") (b! "gzip"))) ≠ "ok" := by
  refine ⟨by decide, by decide, by decide⟩

def wInt (p : Bytes) : ChainSite := {
  site := wSite [p], tryfiles := none, rewrites := [], exts := [], auth := [], internal := [p], proxies := [] }

/-- internal path that is only a name prefix (`internal /docs/ind`): the direct URL is 404 but
the directory URL serves the index page; an aligned path (`internal /docs/index.html`) is safe
because internal paths join the hide list. -/
theorem C03_internal_prefix_fails_witness :
    chainServe wFS (wInt (b! "/docs/ind")) (wReq (b! "/docs/index.html") []) = .served (.status 404) ∧
    chainServe wFS (wInt (b! "/docs/ind")) (wReq (b! "/docs/") []) = .served (.file 7 none) ∧
    chainServe wFS (wInt (b! "/docs/index.html")) (wReq (b! "/docs/") []) = .served (.status 404) := by
  refine ⟨by decide, by decide, by decide⟩

def wIntBase : ChainSite := {
  site := wSite [], tryfiles := none, rewrites := [], exts := [], auth := [], internal := [b! "/area/locked"], proxies := [] }

open Casket.ChainAddrs in
/-- What `C03_every_address_same_site` rests on — per-address setup.  Block `a, b { internal
/area/locked ; browse / { servearchive tar } }`: with the code's setup both addresses refuse the
direct URL and leave the directory out of the archive of its parent; if the hide entries were
registered once per server block (`onceConfigs`, not the code) the SECOND address would still
answer 404 to the direct URL but hand out the file (inode 5) in `GET /area/?archive=tar`. -/
theorem C03_hidden_once_per_block_fails_witness :
    (∀ host ∈ [b! "a", b! "b"],
      chainServeAt wFS (configsOf [b! "a", b! "b"] (withInternalHidden wIntBase)) host (wReq (b! "/area/locked/l") []) = .served (.status 404) ∧
      chainServeAt wFS (configsOf [b! "a", b! "b"] (withInternalHidden wIntBase)) host (wReq (b! "/area/?archive=tar") []) =
        .served (.archive [⟨[b! "area", b! "free"], some 3⟩])) ∧
    chainServeAt wFS (onceConfigs [b! "a", b! "b"] wIntBase) (b! "a") (wReq (b! "/area/?archive=tar") []) =
      .served (.archive [⟨[b! "area", b! "free"], some 3⟩]) ∧
    chainServeAt wFS (onceConfigs [b! "a", b! "b"] wIntBase) (b! "b") (wReq (b! "/area/locked/l") []) = .served (.status 404) ∧
    chainServeAt wFS (onceConfigs [b! "a", b! "b"] wIntBase) (b! "b") (wReq (b! "/area/?archive=tar") []) =
      .served (.archive [⟨[b! "area", b! "free"], some 3⟩, ⟨[b! "area", b! "locked"], none⟩, ⟨[b! "area", b! "locked", b! "l"], some 5⟩]) ∧
    ChainSpec.verdict wFS wIntBase (wReq (b! "/area/?archive=tar") [])
      (chainServeAt wFS (onceConfigs [b! "a", b! "b"] wIntBase) (b! "b") (wReq (b! "/area/?archive=tar") [])) ≠ "ok" := by
  refine ⟨by decide, by decide, by decide, by decide, by decide⟩

/-! ### Non-vacuity of the hypotheses of the partial theorem -/

def wOpen : ChainSite := {
  site := wSite [], tryfiles := none, rewrites := [], exts := [], auth := [], internal := [], proxies := [] }

/-- a site without protection directives meets the "safe" hypotheses … -/
example : IndexSafe wFS wOpen none := by
  intro p ip e _ _ _ _ _ hc; simp [covered, needsAuth, isInternal, wOpen] at hc
example : SiblingSafe wFS wOpen none := by
  intro q ne e0 e _ _ _ _ _ _ hc; simp [covered, needsAuth, isInternal, wOpen] at hc
example : ArchiveSafe wFS wOpen none := by
  intro p bc d e _ _ _ _ _ _ _ _ _ hc; simp [covered, needsAuth, isInternal, wOpen] at hc
example : BackendSafe (wCS (b! "/area/locked")) none := by
  refine ⟨?_, ?_⟩
  · intro _ x hx; simp [wCS] at hx
  · intro x hx; simp [wCS] at hx

/-- … and a site protecting a directory, written `/area/locked/`, with an excluded
sub-directory and an internal directory, without archives, meets the syntactic ones
(and really protects: tests below) -/
def wDir : ChainSite := {
  site := { wSite [b! "/docs/"] with browse := [{ scope := b! "/", archives := [] }] },
  tryfiles := none, rewrites := [], exts := [],
  auth := [{ user := b! "bob", pass := b! "pw", resources := [b! "/area/locked/"], excludes := [b! "/area/locked/pub/"] }],
  internal := [b! "/docs/"], proxies := [] }

theorem dirBase_of (B : List Bytes) (hne : B ≠ []) (hn : NormalSegs B) : DirBase (slash :: joinSlash B ++ [slash]) :=
  ⟨B, hne, hn, rfl⟩

example : DirScoped wDir := by
  have h1 : DirBase (b! "/area/locked/") :=
    dirBase_of [b! "area", b! "locked"] (by simp) (by intro s hs; simp at hs; rcases hs with rfl | rfl <;> exact ⟨by decide, by decide, by decide, by decide⟩)
  have h2 : DirBase (b! "/area/locked/pub/") :=
    dirBase_of [b! "area", b! "locked", b! "pub"] (by simp) (by intro s hs; simp at hs; rcases hs with rfl | rfl | rfl <;> exact ⟨by decide, by decide, by decide, by decide⟩)
  have h3 : DirBase (b! "/docs/") :=
    dirBase_of [b! "docs"] (by simp) (by intro s hs; simp at hs; subst hs; exact ⟨by decide, by decide, by decide, by decide⟩)
  refine ⟨?_, ?_⟩
  · intro r hr
    simp [wDir] at hr; subst hr
    exact ⟨by intro b hb; simp at hb; subst hb; exact h1, by intro b hb; simp at hb; subst hb; exact h2⟩
  · intro b hb; simp [wDir] at hb; subst hb; exact h3
example : PlainNames wDir.site := by
  refine ⟨?_, ?_⟩
  · intro ip hip; simp [wDir, wSite] at hip; subst hip; exact ⟨by decide, by decide, by decide, by decide⟩
  · intro ne hne; simp [wDir, wSite] at hne; subst hne; exact ⟨_, _, rfl, by decide, by decide⟩
example : ArchiveScopesClear wDir := by
  intro bc hbc hne; simp [wDir, wSite] at hbc; subst hbc; exact absurd rfl hne
example : ProxyScopesClear wDir := ⟨by intro x hx; simp [wDir] at hx, by intro x hx; simp [wDir] at hx⟩
example : NormalFS wFS := by unfold NormalFS NormalSegs NormalSeg; decide

/-- the same site with archives enabled for `/docs/` and `/area/free/` and a backend for `/api`:
none of these scopes lies strictly above `/area/locked/` or `/docs/` -/
def wDirArch : ChainSite := { wDir with
  site := { wDir.site with browse := [{ scope := b! "/docs/", archives := [b! "tar"] }, { scope := b! "/area/free", archives := [b! "zip"] }] },
  proxies := [(b! "/api", 9001)] }

theorem plainScope_of (S : List Bytes) (hne : S ≠ []) (hn : NormalSegs S) (slashEnd : Bool) :
    PlainScope (if slashEnd then slash :: joinSlash S ++ [slash] else slash :: joinSlash S) := by
  cases slashEnd
  · exact Or.inr ⟨S, hne, hn, Or.inl rfl⟩
  · exact Or.inr ⟨S, hne, hn, Or.inr rfl⟩

example : ArchiveScopesClear wDirArch ∧ ProxyScopesClear wDirArch := by
  have n1 : NormalSegs [b! "docs"] := by unfold NormalSegs NormalSeg; decide
  have n2 : NormalSegs [b! "area", b! "free"] := by unfold NormalSegs NormalSeg; decide
  have n3 : NormalSegs [b! "api"] := by unfold NormalSegs NormalSeg; decide
  have c1 : ScopeClear wDirArch (b! "/docs/") := ⟨plainScope_of [b! "docs"] (by simp) n1 true, by decide⟩
  have c2 : ScopeClear wDirArch (b! "/area/free") := ⟨plainScope_of [b! "area", b! "free"] (by simp) n2 false, by decide⟩
  have c3 : ScopeClear wDirArch (b! "/api") := ⟨plainScope_of [b! "api"] (by simp) n3 false, by decide⟩
  refine ⟨?_, ?_, ?_⟩
  · intro bc hbc _
    simp [wDirArch, wDir, wSite] at hbc
    rcases hbc with rfl | rfl
    · exact c1
    · exact c2
  · intro x hx; simp [wDirArch] at hx; subst hx; exact c3
  · intro x hx y hy _; simp [wDirArch] at hx hy; rw [hx, hy]
example : chainServe wFS wDir (wReq (b! "/area/locked/l") []) = .unauthorized := by decide
example : chainServe wFS wDir (wReq (b! "/docs/") []) = .served (.status 404) := by decide
example : chainServe wFS wDir (wReq (b! "/area/") []) = .served (.listing [b! "free", b! "locked"]) := by decide

/-- … and so does any site for a request carrying credentials that every rule accepts -/
example : IndexSafe wFS (wCS (b! "/area/locked")) (some (b! "bob", b! "pw")) := by
  intro p ip e _ _ _ _ _ hc
  have h1 : needsAuth (wCS (b! "/area/locked")).auth (canonURL (wCS (b! "/area/locked")).site e) (some (b! "bob", b! "pw")) = false :=
    needsAuth_of_accepts _ _ _ (by intro r hr _; simp [wCS] at hr; subst hr; decide)
  have h2 : isInternal (wCS (b! "/area/locked")).internal (canonURL (wCS (b! "/area/locked")).site e) = false := rfl
  unfold covered at hc
  rw [h1, h2] at hc
  cases hc
example : NoHardLinks wFS := by unfold NoHardLinks; decide
example : TargetsNonEmpty (wCS (b! "/area/locked")) := ⟨by intro tf h; simp [wCS] at h, by intro r h; simp [wCS] at h⟩
example : RootIsDir wFS (wCS []).site := by
  intro e h; simp [stat, wCS, wSite, wFS] at h; subst h; rfl
/-- (tests) with credentials the protected file is served; the spelled-out path is refused like the plain one -/
example : chainServe wFS (wCS (b! "/area/locked")) { wReq (b! "/area/locked/l") [] with creds := some (b! "bob", b! "pw") } = .served (.file 5 none) := by decide
example : chainServe wFS (wCS (b! "/area/locked")) (wReq (b! "/area/x/..//LOCKED/./l") []) = .unauthorized := by decide
example : chainServe wFS (wCS (b! "/area/locked")) (wReq (b! "/area/%2e/locked%2fl") []) = .unauthorized := by decide

end Casket.Props.C03
