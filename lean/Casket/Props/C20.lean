import Casket.Model.Replacer
import Casket.Spec.Replacer
namespace Casket.Props.C20
open Casket.Replacer Casket.ReplacerSpec

theorem C20_placeholder : (1 : Nat) = 1 := rfl

end Casket.Props.C20
