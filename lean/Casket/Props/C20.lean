import Casket.Proofs.Replacer
import Casket.Proofs.Log
import Casket.Generated.Replacer
/-
C20 — Access logs are complete and accurate; placeholders expand once.

Part 1 (this section): `Replacer.Replace` / `getSubstitution`.
`replace` is the model of the Go loop (Model/Replacer.lean), tied to the real code by the stream
`c20.replace`; `ReplacerSpec.verdict` is the predicate the model driver applies to the real
code's outputs.  Helper lemmas: Proofs/Replacer.lean.
-/
namespace Casket.Props.C20
open Casket.Replacer Casket.ReplacerSpec

/-- The format alone fixes the segments: `parseFmt` does not take the request and always
returns (the loop needs at most `len(fmt)+1` rounds). -/
theorem C20_parse_total (fmt : Bytes) : ∃ segs, parseFmt fmt = some segs ∧ keysShaped segs := by
  unfold parseFmt
  by_cases hb : hasBrace fmt = true
  · simp only [hb, if_true]
    exact parseGo_total _ fmt (by omega)
  · simp only [hb, if_false]
    exact ⟨_, rfl, by simp [keysShaped]⟩

/-- Single pass: for every request environment and every format, the Go loop (accumulator,
re-slicing, early return and all) computes exactly "literals and values of the format's
segments, concatenated".  Since the segments do not depend on the request, nothing that was
inserted is ever scanned. -/
theorem C20_single_pass (σ : Env) (fmt : Bytes) : replace σ fmt = expected σ fmt := by
  unfold replace expected parseFmt
  by_cases hb : hasBrace fmt = true
  · simp only [hb, if_true]
    obtain ⟨segs, hp, hr⟩ := replaceGo_eq σ (fmt.length + 1) fmt [] (by omega)
    rw [hp, hr]
    cases h : render σ segs <;> simp [h]
  · simp only [hb, if_false]
    simp [render, segValue]

/-- Total: no index or slice expression of `Replace`/`getSubstitution` goes out of range and
the loop ends, for every format and every request. -/
theorem C20_total (σ : Env) (fmt : Bytes) : ∃ out, replace σ fmt = .ok out := by
  rw [C20_single_pass]
  unfold expected
  obtain ⟨segs, hp, hk⟩ := C20_parse_total fmt
  rw [hp]
  exact render_ok σ segs hk

/-- Values are inserted verbatim and the rest of the line does not depend on them: a format
`pre{body}rest` (no `{` in `pre`, no `}` in `body`, neither ending in a backslash) expands to
`pre` (unescaped, one leading backslash dropped) ++ the value of `{body}`, whatever bytes it
contains ++ the expansion of `rest`.  (`v` is what `getSubstitution` returns: request text as it
is, except that CR and LF of decoded or middleware-supplied text are written `\\r` `\\n` — see
`C20_one_physical_line`; braces, backslashes and everything else are untouched.) -/
theorem C20_values_verbatim (σ : Env) (pre body rest v out : Bytes)
    (hpre : ∀ x ∈ pre, x ≠ lbr) (hpe : endsBsl false pre = false)
    (hbody : ∀ x ∈ body, x ≠ rbr) (hbe : endsBsl false body = false)
    (hv : subst σ (unescapeBraces (lbr :: (body ++ [rbr]))) = some v)
    (hrest : replace σ rest = .ok out) :
    replace σ (pre ++ lbr :: (body ++ rbr :: rest)) = .ok (trimBsl (unescapeBraces pre) ++ v ++ out) := by
  have hlen : (pre ++ lbr :: (body ++ rbr :: rest)).length = pre.length + body.length + rest.length + 2 := by
    simp only [List.length_append, List.length_cons]; omega
  rw [replace_eq_go σ _ (pre.length + body.length + rest.length + 3) (by omega)]
  have hrest' := hrest
  rw [replace_eq_go σ rest (pre.length + body.length + rest.length + 2) (by omega)] at hrest'
  show replaceGo σ ((pre.length + body.length + rest.length + 2) + 1) [] _ = _
  unfold replaceGo
  rw [splitUnesc_append pre false _ hpre hpe]
  simp only
  rw [splitUnesc_append body false rest hbody hbe]
  simp only [hv]
  rw [replaceGo_result σ _ rest _ (by omega), hrest']
  simp

/-- `Except` has no decidable equality in core; tests compare through this -/
def okIs (r : Except Fail Bytes) (want : Bytes) : Bool :=
  match r with
  | .ok b => b == want
  | .error _ => false

/-- test (non-vacuity of the hypotheses of `C20_values_verbatim`): header X carries `{status}`;
the format `a {>X} {status}` gives `a {status} 200`, the inserted text is not expanded -/
example :
    okIs (replace { reqHdr := [(asc "X", [asc "{status}"])], recorder := some (200, 5) } (asc "a {>X} {status}"))
      (asc "a {status} 200") = true := by decide

/-- Regenerated fact: the `case` labels of `switch key` in getSubstitution are exactly the keys the
model knows (computed, conditional or outside the model).  A placeholder added to or removed from
the code breaks this theorem. -/
theorem C20_vocabulary_regenerated (k : String) :
    k ∈ Casket.Generated.placeholderKeys ↔ k ∈ allTableKeys := by
  have h1 : Casket.Generated.placeholderKeys.all (fun k => allTableKeys.contains k) = true := by decide
  have h2 : allTableKeys.all (fun k => Casket.Generated.placeholderKeys.contains k) = true := by decide
  constructor
  · intro hk
    have := List.all_eq_true.mp h1 k hk
    simpa using this
  · intro hk
    have := List.all_eq_true.mp h2 k hk
    simpa using this

/-- Unknown placeholders yield the configured empty-value marker: a key that no custom value
overrides, whose second byte is none of the sigils `>` `<` `~` `?` `$`, that is no `case` label of
getSubstitution (the regenerated list) and does not start with `{label`. -/
theorem C20_unknown_is_empty_marker (σ : Env) (mid : Bytes)
    (hcustom : assoc σ.custom (lbr :: (mid ++ [rbr])) = none)
    (hsigil : ∀ k1, (lbr :: (mid ++ [rbr]))[1]? = some k1 → k1 ≠ 62 ∧ k1 ≠ 60 ∧ k1 ≠ 126 ∧ k1 ≠ 63 ∧ k1 ≠ 36)
    (htable : ∀ k ∈ Casket.Generated.placeholderKeys, asc k ≠ lbr :: (mid ++ [rbr]))
    (hlabel : isPrefix (asc "{label") (lbr :: (mid ++ [rbr])) = false) :
    subst σ (lbr :: (mid ++ [rbr])) = some σ.empty := by
  have h1 : ∃ k1, (lbr :: (mid ++ [rbr]))[1]? = some k1 := by
    cases mid with
    | nil => exact ⟨rbr, by simp⟩
    | cons a _ => exact ⟨a, by simp⟩
  obtain ⟨k1, hk1⟩ := h1
  obtain ⟨s1, s2, s3, s4, s5⟩ := hsigil k1 hk1
  have htl : tableLookup σ (lbr :: (mid ++ [rbr])) = none :=
    tableLookup_none σ _ (fun k hk => htable k ((C20_vocabulary_regenerated k).mpr hk))
  unfold subst substR
  rw [hcustom, hk1]
  simp only [ofOpt, R.andThen, sigil, s1, s3, s4, s5, if_false, htl, labelLookup, hlabel,
    Bool.false_eq_true]
  cases σ.respHdr <;> simp [s2]

/-- test: `{foo}` meets the hypotheses of `C20_unknown_is_empty_marker` (with the default, empty
custom map) and expands to the marker -/
example : okIs (replace { empty := asc "-" } (asc "x{foo}y{}z{ method}")) (asc "x-y-z-") = true := by decide
example : ∀ k ∈ Casket.Generated.placeholderKeys, asc k ≠ lbr :: (asc "foo" ++ [rbr]) := by decide

/-- Escaped braces stay literal: a format whose every `{` is preceded by a backslash contains no
placeholder at all — its expansion is the format with `\{` `\}` unescaped, for every request. -/
theorem C20_escaped_literal (σ : Env) (s : Bytes) (h : splitUnesc lbr false s = none) :
    replace σ s = .ok (unescapeBraces s) := by
  rw [replace_eq_go σ s (s.length + 1) (by omega)]
  simp [replaceGo, h]

/-- test: `\{method\} {method}` → `{method} GET` -/
example : splitUnesc lbr false (asc "a\\{method\\}b\\{") = none := by decide
example : okIs (replace { method := asc "GET" } (asc "\\{method\\} {method}")) (asc "{method} GET") = true := by decide

/-- One record, one physical line: if the format's own text has no CR/LF and the parts of the
request that net/http hands over undecoded (header fields, cookies, host, method, raw query, request
URI, remote address) or that the operator controls (empty marker, environment) have none, the
expansion has none — WHATEVER the decoded parts contain (URL path, query arguments, fragment,
custom values such as the basic auth user name): those go through `oneLine`. -/
theorem C20_one_physical_line (σ : Env) (fmt out : Bytes) (hf : litsHaveLineBreak fmt = false)
    (he : envHasLineBreak σ = false) (ho : replace σ fmt = .ok out) : hasLineBreak out = false := by
  rw [C20_single_pass] at ho
  unfold expected at ho
  unfold litsHaveLineBreak at hf
  cases hp : parseFmt fmt with
  | none => simp [hp] at hf
  | some segs =>
    simp only [hp] at hf ho
    exact render_clean σ (envClean_of he) segs out hf ho

/-- test: a path with a decoded newline and a basic auth user with CR LF; the default-style format
stays on one line (the hypotheses of `C20_one_physical_line` hold: path and custom are free) -/
example :
    let σ : Env := { origPath := [47, 97, 10, 98], custom := [(asc "{user}", [101, 13, 10, 102])], method := asc "GET" }
    litsHaveLineBreak (asc "{user} {method} {path}") = false ∧ envHasLineBreak σ = false ∧
    okIs (replace σ (asc "{user} {method} {path}")) (asc "e\\r\\nf GET /a\\nb") = true := by
  decide

/-- Model and judge are one spec: the verdict the driver applies to the real code's output is
"ok" on the model's own output, for every format and request. -/
theorem C20_replace_model_verdict_ok (σ : Env) (fmt : Bytes) :
    verdict σ fmt (observe (replace σ fmt)) = "ok" := by
  obtain ⟨out, ho⟩ := C20_total σ fmt
  have he : expected σ fmt = .ok out := by rw [← C20_single_pass, ho]
  by_cases hl : (hasLineBreak out && !(litsHaveLineBreak fmt) && !(envHasLineBreak σ)) = true
  · simp only [Bool.and_eq_true, Bool.not_eq_true'] at hl
    have := C20_one_physical_line σ fmt out hl.1.2 hl.2 ho
    rw [this] at hl
    exact absurd hl.1.1 (by simp)
  · simp [ho, observe, verdict, he, hl]

/-- the judge is not vacuous: an implementation that expands inserted text again is rejected -/
example :
    verdict { reqHdr := [(asc "X", [asc "{status}"])], recorder := some (200, 5) } (asc "{>X}") (.out (asc "200"))
      = "bad:rescanned:inserted request text was expanded again" := by decide

/-!
Part 2: the `log` middleware (`logParse`, `Logger.ServeHTTP`, `ResponseRecorder`) under
`Server.ServeHTTP`.  `serverServe m errLen (logParse ds) path o` is the model of one request with
path `path` to a site whose server block has the `log` directives `ds`, the innermost handler
behaving as `o`; the stream `c20.log` ties it to the real code.  `m` is `Path.Matches`, `errLen`
the length of the default error body — both arbitrary here.
-/
section Logging
open Casket.Log Casket.LogSpec

/-- Accuracy: every line written carries the status and the body size the client received —
for every handler behaviour (any sequence of WriteHeader/Write calls, any returned status,
including the error responses the middleware or the server generates itself). -/
theorem C20_status_size_match_sent (m : PathB → PathB → Bool) (errLen : Nat → Nat) (rules : List Rule)
    (path : PathB) (o : Outcome) :
    ∀ l ∈ (serverServe m errLen rules path o).lines,
      l.status = (serverServe m errLen rules path o).client.status ∧
      l.size = (serverServe m errLen rules path o).client.size := by
  intro l hl
  unfold serverServe loggerServe at hl ⊢
  cases hf : rules.find? fun r => m path r.scope with
  | none =>
    simp only [hf] at hl
    split at hl
    · simp at hl
    · split at hl <;> simp at hl
  | some rule =>
    simp only [hf] at hl ⊢
    by_cases hp : o.panics = true
    · simp [hp] at hl
    · have hp' : o.panics = false := by simpa using hp
      simp only [hp', Bool.false_eq_true, if_false] at hl ⊢
      by_cases hr : o.ret ≥ 400
      · simp only [hr, if_true] at hl ⊢
        have hag := agree_runOps (errorOps errLen o.ret) _ _ (agree_runOps o.ops {} {} agree_init)
        simp only [Nat.not_le.mpr (by omega : 0 < 400), if_false, ge_iff_le] at hl ⊢
        simp only [List.mem_filterMap] at hl
        obtain ⟨e, _, he⟩ := hl
        split at he
        · cases he
          exact ⟨hag.2.1, hag.2.2.1⟩
        · cases he
      · simp only [hr, if_false] at hl ⊢
        have hag := agree_runOps o.ops {} {} agree_init
        simp only [List.mem_filterMap] at hl
        obtain ⟨e, _, he⟩ := hl
        split at he
        · cases he
          exact ⟨hag.2.1, hag.2.2.1⟩
        · cases he

/-- A Write the writer underneath REFUSES (declared Content-Length exceeded: `http.ErrContentLength`)
still sends the header.  The handler declares `k` bytes, writes `n > k` bytes without WriteHeader and
returns any status (for `ret ≥ 400` the middleware's failover then calls WriteHeader(ret) and writes
the error body, which is refused too): the client has received status 200 and no body byte, and every
line written says exactly that — never `ret`. -/
theorem C20_refused_first_write_is_logged_as_sent (m : PathB → PathB → Bool) (errLen : Nat → Nat)
    (rules : List Rule) (path : PathB) (k n ret : Nat) (hkn : k < n) :
    let r := serverServe m errLen rules path { ops := [.declare k, .write n], ret := ret, panics := false }
    r.client.status = 200 ∧ r.client.size = 0 ∧ ∀ l ∈ r.lines, l.status = 200 ∧ l.size = 0 := by
  intro r
  have hacc := C20_status_size_match_sent m errLen rules path
    { ops := [.declare k, .write n], ret := ret, panics := false }
  have hn0 : (n == 0) = false := by
    cases n with
    | zero => omega
    | succ j => rfl
  have hle : ¬ (n ≤ k) := by omega
  have hcl : r.client.status = 200 ∧ r.client.size = 0 := by
    show (serverServe m errLen rules path _).client.status = 200 ∧ (serverServe m errLen rules path _).client.size = 0
    unfold serverServe loggerServe
    cases hf : rules.find? fun r => m path r.scope with
    | none =>
      by_cases hr : ret ≥ 400
      · simp [hr, clientOps, errorOps, Client.apply, Client.accepts, hn0, hle]
        omega
      · simp [hr, clientOps, Client.apply, Client.accepts, hn0, hle]
    | some rule =>
      by_cases hr : ret ≥ 400
      · simp [hr, runOps, errorOps, Client.apply, Client.accepts, hn0, hle]
        omega
      · simp [hr, runOps, Client.apply, Client.accepts, hn0, hle]
  refine ⟨hcl.1, hcl.2, ?_⟩
  intro l hl
  have := hacc l hl
  exact ⟨this.1.trans hcl.1, this.2.trans hcl.2⟩

/-- test: the instance of the seeded regression — `Content-Length: 0` declared (stat of a file that
has grown since), 5 bytes written, 500 returned: line `200 0`, client `200` with no body; and the
judge rejects an implementation whose line says 500 -/
example :
    let ds : List Directive := [{ scope := [47], excepts := [] }]
    let r := serverServe cleanPathMatches (fun _ => 26) (logParse ds) [47, 120]
      { ops := [.declare 0, .write 5], ret := 500, panics := false }
    r.lines = [{ entry := 0, status := 200, size := 0 }] ∧ r.client.status = 200 ∧ r.client.size = 0 ∧
    verdictClass cleanPathMatches ds [47, 120] false [{ entry := 0, status := 500, size := 0 }] 200 0
      = .statusMismatch := by
  decide

/-- test: the refusal counts bytes ASKED for (net/http's `response.written`): after a refused Write
a smaller one is refused too; a Write that fits exactly is accepted; a Content-Length set after the
header has gone out is not in effect -/
example :
    let run := fun ops => (serverServe cleanPathMatches (fun _ => 26) (logParse [{ scope := [47], excepts := [] }]) [47, 120]
      { ops := ops, ret := 0, panics := false })
    (run [.declare 2, .write 5, .write 1]).lines = [{ entry := 0, status := 200, size := 0 }] ∧
    (run [.declare 5, .write 5, .write 1]).lines = [{ entry := 0, status := 200, size := 5 }] ∧
    (run [.header 404, .declare 0, .write 3]).lines = [{ entry := 0, status := 404, size := 3 }] ∧
    (run [.declare 0, .write 3, .header 404]).lines = [{ entry := 0, status := 200, size := 0 }] := by
  decide

/-- The log decision is taken on the path AS RECEIVED: whatever path the inner handler (or a
rewrite/ext/internal directive in front of it) leaves in the request — `o.newPath`, set in place
or by replacing `r.URL` — the lines written and the client's response are the same. -/
theorem C20_rewritten_path_is_irrelevant (m : PathB → PathB → Bool) (errLen : Nat → Nat) (rules : List Rule)
    (path : PathB) (o : Outcome) (p' : Option PathB) :
    serverServe m errLen rules path { o with newPath := p' } = serverServe m errLen rules path o := by
  rfl

/-- One line per configured log (partial: excludes the two recorded failure classes).  For the
`i`-th `log` directive `d` of the block, a request whose handler does not panic and for which no
earlier directive with a different scope matches produces exactly one line in log `i` if the path
THE MIDDLEWARE RECEIVED is in `d`'s scope and matches none of `d`'s OWN `except` paths, and no line
otherwise.  `o` ranges over all handler behaviours including those that change the request path
(`o.newPath`): scope and exceptions are judged on `path`, never on the rewritten one. -/
theorem C20_one_line_per_entry_partial (m : PathB → PathB → Bool) (errLen : Nat → Nat) (ds : List Directive)
    (path : PathB) (o : Outcome) (hp : o.panics = false)
    (i : Nat) (d : Directive) (hd : ds[i]? = some d) (hns : shadowed m ds d path = false) :
    countFor (serverServe m errLen (logParse ds) path o).lines i = if wants m d path then 1 else 0 := by
  rw [serverServe_lines]
  have hfind := find_logParse m ds path
  cases hf : (logParse ds).find? fun r => m path r.scope with
  | none =>
    rw [hf] at hfind
    rw [loggerServe_lines_none m errLen _ path o {} hf]
    have hall : ∀ d' ∈ ds, m path d'.scope = false := by
      simp only [firstMatchingScope, Option.map_eq_none_iff, List.find?_eq_none] at hfind
      intro d' hd'
      simpa using hfind d' hd'
    have hdm : d ∈ ds := List.mem_of_getElem? hd
    simp [countFor, wants, hall d hdm]
  | some rule =>
    rw [hf] at hfind
    obtain ⟨hfm, hent, hmr⟩ := hfind
    obtain ⟨st, sz, hl⟩ := loggerServe_lines_some m errLen _ path o {} rule hp hf
    rw [hl, hent, countFor_dirEntries]
    simp only [Nat.zero_le, if_true, Nat.sub_zero, hd]
    by_cases hw : wants m d path = true
    · simp only [hw, if_true]
      simp only [wants, Bool.and_eq_true, Bool.not_eq_true'] at hw
      have hsc : d.scope = rule.scope := by
        simp only [shadowed, hw.1, Bool.true_and, hfm] at hns
        have := hns
        simp at this
        exact this.symm
      simp [hsc, shouldLog, hw.2]
    · have hw' : wants m d path = false := by simpa using hw
      simp only [hw', Bool.false_eq_true, if_false]
      simp only [wants, Bool.and_eq_false_iff] at hw'
      rcases hw' with h1 | h2
      · have hne : ¬ d.scope = rule.scope := by
          intro he
          rw [he, hmr] at h1
          exact Bool.noConfusion h1
        simp [hne]
      · have : shouldLog m { id := i, excepts := d.excepts } path = false := by
          simpa [shouldLog] using h2
        simp [this]

/-- Model and judge are one spec (partial, same exclusions): on the model's own answer the
verdict the driver applies to the real code is "ok". -/
theorem C20_log_model_verdict_ok_partial (m : PathB → PathB → Bool) (errLen : Nat → Nat) (ds : List Directive)
    (path : PathB) (o : Outcome) (hp : o.panics = false) (hns : ∀ d ∈ ds, shadowed m ds d path = false) :
    LogSpec.verdict m ds path o.panics (serverServe m errLen (logParse ds) path o).lines
      (serverServe m errLen (logParse ds) path o).client.status
      (serverServe m errLen (logParse ds) path o).client.size = "ok" := by
  have hdirs : firstBad (directivesVerdictGo m ds path o.panics
      (serverServe m errLen (logParse ds) path o).lines 0 ds) = .ok := by
    apply firstBad_ok
    intro v hv
    obtain ⟨j, d, hj, hvd⟩ := directivesVerdictGo_mem m ds path o.panics _ ds 0 v hv
    have hcount := C20_one_line_per_entry_partial m errLen ds path o hp j d hj (hns d (List.mem_of_getElem? hj))
    rw [hvd]
    simp only [Nat.zero_add, directiveVerdict, hcount]
    by_cases hw : wants m d path = true <;> simp [hw]
  have hacc := C20_status_size_match_sent m errLen (logParse ds) path o
  unfold LogSpec.verdict verdictClass
  simp only [hdirs]
  have h1 : ((serverServe m errLen (logParse ds) path o).lines.any fun l =>
      l.status != (serverServe m errLen (logParse ds) path o).client.status) = false := by
    rw [List.any_eq_false]
    intro l hl
    simp [(hacc l hl).1]
  have h2 : ((serverServe m errLen (logParse ds) path o).lines.any fun l =>
      l.size != (serverServe m errLen (logParse ds) path o).client.size) = false := by
    rw [List.any_eq_false]
    intro l hl
    simp [(hacc l hl).2]
  simp [h1, h2, Verdict.text]

/-- With an `errors` directive in the block (it sits inside `log` in the directive order) no panic
reaches the log middleware, so the hypothesis `o.panics = false` of the two theorems above holds
for EVERY handler behaviour: panics are answered with 500 through the recorder and logged. -/
theorem C20_errors_directive_contains_panics (errLen : Nat → Nat) (o : Outcome) :
    (withErrors errLen o).panics = false := by
  unfold withErrors
  by_cases hp : o.panics = true
  · simp [hp]
  · by_cases hr : o.ret ≥ 400
    · simp [hp, hr]
    · simp only [hp, hr, if_false]
      simpa using hp

/-- test: `log / { except /a/b }`, request `/b`, the inner handler rewrites the path onto the
excepted `/a/b` in place and answers 404: the line is still written (and `/a/b` rewritten to `/b`
still is not logged) -/
example :
    let ds : List Directive := [{ scope := [47], excepts := [[47, 97, 47, 98]] }]
    let r := serverServe cleanPathMatches (fun _ => 14) (logParse ds) [47, 98]
      { ops := [], ret := 404, panics := false, newPath := some [47, 97, 47, 98] }
    let r' := serverServe cleanPathMatches (fun _ => 14) (logParse ds) [47, 97, 47, 98]
      { ops := [.write 3], ret := 0, panics := false, newPath := some [47, 98] }
    r.lines = [{ entry := 0, status := 404, size := 14 }] ∧ r'.lines = [] := by
  decide

/-- what `log` sees below it in a block that has (`true`) or has not an `errors` directive;
a block with `gzip` always has one (`InspectServerBlocks`, see `Props/C09.gzip_implies_errors`) -/
def belowLog (hasErrors : Bool) (errLen : Nat → Nat) (o : Outcome) : Outcome :=
  if hasErrors then withErrors errLen o else o

/-- One line per configured log with the panic exclusion narrowed to where it is real: the only
handler behaviours excluded are panics in a block WITHOUT an `errors` (or `gzip`) directive.  With
`errors` in the block the statement holds for every handler behaviour whatsoever.  (Still partial:
the first-rule-only exclusion stays.) -/
theorem C20_one_line_per_entry_partial_narrow (m : PathB → PathB → Bool) (errLen : Nat → Nat) (ds : List Directive)
    (path : PathB) (o : Outcome) (hasErrors : Bool) (hp : hasErrors = true ∨ o.panics = false)
    (i : Nat) (d : Directive) (hd : ds[i]? = some d) (hns : shadowed m ds d path = false) :
    countFor (serverServe m errLen (logParse ds) path (belowLog hasErrors errLen o)).lines i =
      if wants m d path then 1 else 0 := by
  apply C20_one_line_per_entry_partial m errLen ds path _ _ i d hd hns
  unfold belowLog
  cases hasErrors with
  | true => exact C20_errors_directive_contains_panics errLen o
  | false =>
    rcases hp with h | h
    · exact absurd h (by simp)
    · simpa using h

/-- test: a panicking handler behind `errors`: one line, status 500, size of the error body -/
example :
    let ds : List Directive := [{ scope := [47], excepts := [] }]
    let r := serverServe cleanPathMatches (fun _ => 26) (logParse ds) [47, 120]
      (withErrors (fun _ => 26) { ops := [], ret := 0, panics := true })
    r.lines = [{ entry := 0, status := 500, size := 26 }] ∧ r.client.status = 500 ∧ r.client.size = 26 := by
  decide

/-- Witness for the recorded finding C20-first-rule-only (on the model; the stream shows the same
on the real code): `log / a` then `log /a b`, request `/a/x` — log 1 gets no line. -/
theorem C20_first_rule_only_fails_witness :
    let ds : List Directive := [{ scope := [47], excepts := [] }, { scope := [47, 97], excepts := [] }]
    let r := serverServe cleanPathMatches (fun _ => 0) (logParse ds) [47, 97, 47, 120] { ops := [.write 5], ret := 200, panics := false }
    countFor r.lines 1 = 0 ∧
    verdictClass cleanPathMatches ds [47, 97, 47, 120] false r.lines r.client.status r.client.size
      = .shadowedRule := by
  decide

/-- Witness for the recorded finding C20-panic-unlogged: the handler panics, the client gets the
server's 500, no line is written. -/
theorem C20_panic_unlogged_fails_witness :
    let ds : List Directive := [{ scope := [47], excepts := [] }]
    let r := serverServe cleanPathMatches (fun _ => 26) (logParse ds) [47, 120] { ops := [], ret := 0, panics := true }
    r.lines = [] ∧ r.client.status = 500 ∧
    verdictClass cleanPathMatches ds [47, 120] true r.lines r.client.status r.client.size
      = .panicUnlogged := by
  decide

/-- test: the hypotheses of `C20_one_line_per_entry_partial` are met by two logs with the same
scope, one excepting `/a/b`: `/a/b/c` is logged once by log 1 only, and an `except` of log 0 does
not silence log 1 (the repaired leak). -/
example :
    let ds : List Directive := [{ scope := [47, 97], excepts := [[47, 97, 47, 98]] }, { scope := [47, 97], excepts := [] }]
    let r := serverServe cleanPathMatches (fun _ => 14) (logParse ds) [47, 97, 47, 98, 47, 99] { ops := [], ret := 404, panics := false }
    (ds.all fun d => shadowed cleanPathMatches ds d [47, 97, 47, 98, 47, 99] == false) = true ∧
    countFor r.lines 0 = 0 ∧ countFor r.lines 1 = 1 ∧ r.lines = [{ entry := 1, status := 404, size := 14 }] ∧
    r.client.status = 404 ∧ r.client.size = 14 := by
  decide

end Logging

end Casket.Props.C20
