import Casket.Model.Gzip
import Casket.Spec.Gzip
namespace Casket.Props.C18
open Casket.Gzip Casket.GzipSpec

theorem C18_placeholder : staticPriority.length = 3 := rfl

end Casket.Props.C18
