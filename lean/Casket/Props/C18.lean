import Casket.Proofs.Gzip
import Casket.Proofs.Middleware
import Casket.Generated.Gzip
/-
C18 — Compression never changes what the client decodes.

Statements only; helper lemmas live in Casket/Proofs/Gzip.lean.  `gzipRun` is the model of
Gzip.ServeHTTP + ResponseFilterWriter + gzipResponseWriter around an arbitrary inner handler
(`Inner`: the header fields it sets, its body, its sequence of WriteHeader / Write / Flush calls
and its return: status and error), `plainRun` the same handler without the middleware; `staticInner` is
the file server's sibling selection.  Codecs are abstract layers (see Model/Gzip.lean).  The
model is tied to the Go code by the streams c18.wrap and c18.static, which execute both chains
for every case; `GzipSpec.verdict` is the judge applied to the two observed responses.
-/
namespace Casket.Props.C18
open Casket.Gzip Casket.GzipSpec
open Casket.Limits (Bytes)

/-- Decoding gives the identity body, and Content-Encoding names exactly the codings applied:
for every configuration, request and inner behaviour the response is either exactly the plain
one, or the plain one with ONE gzip layer added, Content-Encoding "gzip" replacing an absent /
identity coding, and the Content-Length removed. -/
theorem C18_decoded_equals_identity (blocks : List Block) (path ae : Bytes) (i : Inner) :
    gzipRun blocks path ae i = plainRun i ∨
    ((gzipRun blocks path ae i).status = (plainRun i).status ∧
     (gzipRun blocks path ae i).body = .layer .gzip (plainRun i).body ∧
     (gzipRun blocks path ae i).hdr.ce = Coding.gzip.name ∧ unencoded (plainRun i).hdr.ce = true ∧
     (gzipRun blocks path ae i).hdr.cl = none) := by
  rcases gzipRun_cases blocks path ae i with h | ⟨_, b, code, wr, hd, hp, hg⟩
  · exact Or.inl h
  · right
    rw [hp, hg]
    refine ⟨rfl, rfl, rfl, ?_, rfl⟩
    unfold decision responsePasses at hd
    simp only [Bool.and_eq_true] at hd
    exact hd.2.1

/-- Responses that are already encoded are not encoded again (nor is their Content-Encoding
touched): whatever coding the inner response declares, known to casket or not. -/
theorem C18_no_double_encoding (blocks : List Block) (path ae : Bytes) (i : Inner)
    (h : unencoded i.hdr.ce = false) : gzipRun blocks path ae i = plainRun i := by
  rcases gzipRun_cases blocks path ae i with h' | ⟨_, b, _, _, hd, _, _⟩
  · exact h'
  · unfold decision responsePasses skipFilter at hd
    unfold unencoded at h
    simp only [Bool.and_eq_true] at hd
    rw [h] at hd
    exact absurd hd.2.1 (by simp)

/-- Clients that did not offer gzip (no gzip coding listed, or listed with q=0) receive exactly
the response of the chain without the middleware. -/
theorem C18_identity_when_not_offered (blocks : List Block) (path ae : Bytes) (i : Inner)
    (h : offersGzip ae = false) : gzipRun blocks path ae i = plainRun i := by
  rcases gzipRun_cases blocks path ae i with h' | ⟨hae, _⟩
  · exact h'
  · unfold offersGzip at h; rw [h] at hae; cases hae

/-- A 204 response has no content: it is never labelled with a coding, whatever the
configuration and the client (the response is exactly the plain one). -/
theorem C18_no_content_untouched (blocks : List Block) (path ae : Bytes) (i : Inner)
    (h : (plainRun i).status = 204) : gzipRun blocks path ae i = plainRun i := by
  rcases gzipRun_cases blocks path ae i with h' | ⟨_, b, code, _, hd, hp, _⟩
  · exact h'
  · rw [hp] at h
    simp only at h
    unfold decision at hd
    rw [h] at hd
    simp at hd

/-- On the wire (net/http's suppression of bodies, trusted): for HEAD requests and the statuses
204 and 304 the two executions have the same status and no body, a 204 is identical in both, a
304 and a HEAD response are either identical or carry exactly the header rewriting of the
compressed response they stand for — and only for a client that offers gzip. -/
theorem C18_bodiless_model_verdict_ok (blocks : List Block) (path ae : Bytes) (i : Inner) (head : Bool)
    (hb : bodiless head (plainRun i).status = true) :
    bodilessVerdict ae head (observe (wire head (gzipRun blocks path ae i))) (observe (wire head (plainRun i))) true = "ok" := by
  have hws : ∀ r : Resp, (wire head r).status = r.status := by
    intro r; unfold wire; split <;> rfl
  rcases gzipRun_cases blocks path ae i with h | ⟨hae, b, code, wr, hd, hp, hg⟩
  · rw [h]
    unfold bodilessVerdict
    have : bodiless head (observe (wire head (plainRun i))).status = true := by
      show bodiless head (wire head (plainRun i)).status = true
      rw [hws]; exact hb
    simp only [this, Bool.not_true, Bool.false_eq_true, if_false]
    unfold wire
    simp only [hb, if_true, observe]
    by_cases h24 : (plainRun i).status = 204 ∨ (plainRun i).status = 304
    · simp [h24]
    · have h1 : ¬ (plainRun i).status = 204 := fun e => h24 (Or.inl e)
      have h2 : ¬ (plainRun i).status = 304 := fun e => h24 (Or.inr e)
      simp [h24, h1, h2]
  · rw [hp] at hb
    simp only at hb
    have hne204 : ¬ code = 204 := by
      unfold decision at hd
      simp only [Bool.and_eq_true, bne_iff_ne, ne_eq] at hd
      exact hd.1
    unfold decision responsePasses skipFilter at hd
    simp only [Bool.and_eq_true] at hd
    have hun : unencoded i.hdr.ce = true := hd.2.1
    have hne : ¬ (Coding.gzip.name = i.hdr.ce) := by
      intro heq
      unfold unencoded at hun
      rw [← heq] at hun
      revert hun; decide
    rw [hp, hg]
    unfold bodilessVerdict wire
    simp only [hb, if_true, observe, rewrite, Bool.not_true, Bool.false_eq_true, if_false]
    by_cases h3 : code = 304
    · simp [h3, hne, hun, offersGzip, hae]
    · simp [h3, hne204, hne, hun, offersGzip, hae]

/-- Content-Length is absent or correct: the middleware never makes it wrong. -/
theorem C18_content_length_absent_or_correct (blocks : List Block) (path ae : Bytes) (i : Inner) :
    (observe (gzipRun blocks path ae i)).cl = .wrong → (observe (plainRun i)).cl = .wrong := by
  rcases C18_decoded_equals_identity blocks path ae i with h | ⟨_, _, _, _, hcl⟩
  · rw [h]; exact id
  · intro hw
    unfold observe at hw
    simp only [hcl] at hw
    cases hw

/-- The whole judged predicate: the two model executions always get the verdict "ok". -/
theorem C18_model_verdict_ok (blocks : List Block) (path ae : Bytes) (i : Inner) :
    verdict ae (observe (gzipRun blocks path ae i)) (observe (plainRun i)) = "ok" := by
  rcases gzipRun_cases blocks path ae i with h | ⟨hae, b, code, wr, hd, hp, hg⟩
  · rw [h]; unfold verdict; simp
  · rw [hp, hg]
    unfold decision responsePasses skipFilter at hd
    simp only [Bool.and_eq_true] at hd
    have hun : unencoded i.hdr.ce = true := hd.2.1
    have hne : ¬ (Coding.gzip.name = i.hdr.ce) := by
      intro heq
      unfold unencoded at hun
      rw [← heq] at hun
      revert hun; decide
    unfold verdict observe
    simp only [rewrite, bne_self_eq_false, Bool.false_eq_true, if_false, hne, hun, Bool.not_true, offersGzip, hae]
    rfl

/-- The handler's return value never reaches the client: whatever status (where the header is
committed by the handler's own calls -- see `finish` for the error page of an untouched response)
and whatever error the next handler returns after its calls, both executions are what they are
for a handler that returns no error.  In particular the deferred cleanup terminates the gzip
stream on every return path. -/
theorem C18_handler_error_irrelevant (blocks : List Block) (path ae : Bytes) (i : Inner) (e : Bool) :
    gzipRun blocks path ae { i with err := e } = gzipRun blocks path ae i ∧
    plainRun { i with err := e } = plainRun i :=
  ⟨rfl, rfl⟩

/-- A gzip stream the middleware started is always terminated: for every return (status, error)
of the next handler the body on the wire is the plain body or the COMPLETE gzip layer over it --
never a stream cut short (`Term.cut`), which no client could decode to the plain body. -/
theorem C18_stream_complete_whatever_returned (blocks : List Block) (path ae : Bytes) (i : Inner)
    (ret : Nat) (e : Bool) :
    (gzipRun blocks path ae { i with ret := ret, err := e }).body = (plainRun { i with ret := ret, err := e }).body ∨
    (gzipRun blocks path ae { i with ret := ret, err := e }).body =
      .layer .gzip (plainRun { i with ret := ret, err := e }).body := by
  rcases C18_decoded_equals_identity blocks path ae { i with ret := ret, err := e } with h | ⟨_, h, _⟩
  · exact Or.inl (by rw [h])
  · exact Or.inr h

/-- `cleanup` closes an open writer whatever was returned (the seeded regression "close only if
err == nil" is exactly a cleanup for which this fails at `err = true`). -/
theorem C18_cleanup_closes (ret : Nat) (e : Bool) :
    cleanup ret e .opened = .closed ∧ cleanup ret e .absent = .absent ∧
    ∀ t, streamBody (cleanup ret e .opened) t = .layer .gzip t :=
  ⟨rfl, rfl, fun _ => rfl⟩

/-- Static files: whichever subset of precompressed siblings exists and whatever the client
lists, the file server's response decodes to the file, and the middleware in front of it keeps
that true; a sibling that was picked is never encoded again. -/
theorem C18_static_model_verdict_ok (blocks : List Block) (path ae : Bytes) (siblings : List Coding)
    (content : Bytes) (plen : Nat) :
    staticVerdict ae content (observe (gzipRun blocks path ae (staticInner siblings ae content plen)))
      (observe (plainRun (staticInner siblings ae content plen))) = "ok" := by
  have hv := C18_model_verdict_ok blocks path ae (staticInner siblings ae content plen)
  unfold staticVerdict
  rw [hv]
  unfold staticInner
  cases hp : pickSibling siblings ae with
  | none => simp [plainRun, plainStep, commit, finish, observe, decodeOne, unencoded, siblingOffered]
  | some c =>
    have hl : listsCoding ae c = true := by
      unfold pickSibling at hp
      have := List.find?_some hp
      simp only [Bool.and_eq_true] at this
      exact this.1
    have ho := offers_of_lists ae c hl
    cases c <;> simp [plainRun, plainStep, commit, finish, observe, decodeOne, unencoded, Coding.name, identityB,
      siblingOffered, ho]

theorem C18_static_sibling_not_reencoded (blocks : List Block) (path ae : Bytes) (siblings : List Coding)
    (content : Bytes) (plen : Nat) (c : Coding) (h : pickSibling siblings ae = some c) :
    gzipRun blocks path ae (staticInner siblings ae content plen) =
      plainRun (staticInner siblings ae content plen) := by
  apply C18_no_double_encoding
  unfold staticInner
  rw [h]
  cases c <;> simp [unencoded, Coding.name, identityB]

/-- The sibling the file server picks exists and is in a coding the client offers (listed, not
refused with q=0). -/
theorem C18_sibling_choice (siblings : List Coding) (ae : Bytes) (c : Coding)
    (h : pickSibling siblings ae = some c) :
    offersCoding ae c = true ∧ siblings.contains c = true := by
  unfold pickSibling at h
  have := List.find?_some h
  simp only [Bool.and_eq_true] at this
  exact ⟨offers_of_lists ae c this.1, this.2⟩

/-- Range requests on static files: partial content of the representation the file server
picked, never encoded again, compressed on the fly only for a client that offers gzip, with a
Content-Length that is absent or the length of the part (the slice itself is checked against the
files by the stream, hence `true` here). -/
theorem C18_range_model_verdict_ok (blocks : List Block) (path ae : Bytes) (siblings : List Coding)
    (sendSize : Nat) (cr : String) :
    rangeVerdict ae (observe (gzipRun blocks path ae (rangeInner siblings ae sendSize)))
      (observe (plainRun (rangeInner siblings ae sendSize))) cr cr true true = "ok" := by
  have hp : plainRun (rangeInner siblings ae sendSize) =
      { status := 206, hdr := (rangeInner siblings ae sendSize).hdr,
        body := (rangeInner siblings ae sendSize).body, blen := some sendSize } := by
    unfold rangeInner
    cases pickSibling siblings ae <;> simp [plainRun, plainStep, commit, finish]
  have hoff : siblingOffered ae (rangeInner siblings ae sendSize).hdr.ce = true := by
    unfold rangeInner
    cases hpk : pickSibling siblings ae with
    | none => simp [siblingOffered, unencoded]
    | some c =>
      have ho := (by
        unfold pickSibling at hpk
        have := List.find?_some hpk
        simp only [Bool.and_eq_true] at this
        exact offers_of_lists ae c this.1 : offersCoding ae c = true)
      cases c <;> simp [siblingOffered, unencoded, Coding.name, identityB, ho]
  have hcl : (rangeInner siblings ae sendSize).hdr.cl = some sendSize := by
    unfold rangeInner; cases pickSibling siblings ae <;> rfl
  rcases C18_decoded_equals_identity blocks path ae (rangeInner siblings ae sendSize) with h | ⟨h1, _, h3, h4, h5⟩
  · rw [h, hp]
    simp [rangeVerdict, observe, hcl, hoff]
  · have hae : offersGzip ae = true := by
      cases hoa : offersGzip ae with
      | true => rfl
      | false =>
        have := C18_identity_when_not_offered blocks path ae (rangeInner siblings ae sendSize) hoa
        rw [this] at h3
        rw [hp] at h3 h4
        simp only at h3 h4
        rw [h3] at h4
        revert h4; decide
    rw [hp] at h1 h4
    simp only at h1 h4
    have hne : ¬ (Coding.gzip.name = (rangeInner siblings ae sendSize).hdr.ce) := by
      intro heq; rw [← heq] at h4; revert h4; decide
    rw [hp]
    simp [rangeVerdict, observe, h1, h3, h5, hcl, hoff, hae, h4, hne]

/-- The pooled gzip writers (server-state model of Casket/Model/Middleware.lean, shared with C12):
whatever requests were served — handlers that wrote through the compressing writer and then
returned an error status or panicked included — every writer is in the pool of its level at most
once, so `sync.Pool` (trusted) never hands one writer to two requests that are in flight together
and every response is compressed by a writer of its own.  A second `Put` of the same writer breaks
this invariant; the stream c18.pool looks for its consequence (overlapping responses that do not
decode to their own bodies). -/
theorem C18_pool_objects_unique (c : Casket.Mw.Cfg) (reqs : List (Casket.Mw.Req × Nat × Casket.Mw.Inner))
    (st : Casket.Mw.ServerState) (h : Casket.Mw.poolsSound st) :
    ((reqs.foldl (fun st q => (Casket.Mw.serveSt true c q.1 q.2.1 q.2.2 st).2) st).gzPool.map (·.id)).Nodup := by
  have hs : Casket.Mw.poolsSound (reqs.foldl (fun st q => (Casket.Mw.serveSt true c q.1 q.2.1 q.2.2 st).2) st) := by
    induction reqs generalizing st with
    | nil => exact h
    | cons q qs ih => exact ih _ (Casket.Mw.poolsSound_step c q.1 q.2.1 q.2.2 st h)
  exact (List.nodup_append.mp hs.1).1

/-- The tables the decision depends on are the ones in the source (regenerated on every run):
the static encodings and their order, the Content-Encoding values the skip filter lets through
(so every static coding is skipped), the default extension list. -/
theorem C18_tables_regenerated :
    Casket.Generated.staticEncodingNames = ["zstd", "br", "gzip"] ∧
    Casket.Generated.staticEncodingExts = [".zst", ".br", ".gz"] ∧
    Casket.Generated.skipFilterCompress = ["", "identity"] ∧
    Casket.Generated.skipFilterSkip = [] ∧
    Casket.Generated.skipFilterDefault = false ∧
    Casket.Generated.gzipDefaultExtensions = defaultExtensions := by
  decide

/-- skip_covers_static: no coding the file server can pick is let through by the skip filter. -/
theorem C18_skip_covers_static :
    Casket.Generated.staticEncodingNames.all (fun n => !Casket.Generated.skipFilterCompress.contains n) = true ∧
    staticPriority.all (fun c => !unencoded c.name) = true := by
  decide

/-! Non-vacuity and tests on literals. -/

def txt : Bytes := [47, 97, 46, 116, 120, 116]   -- "/a.txt"
def gz : Bytes := Coding.gzip.name

/-- test: a compressible response written as Flush, Write, Write is compressed with the
header rewritten although the handler flushed first (the repaired Flush) -/
example :
    gzipRun [{ exts := [[46, 116, 120, 116]], nots := [], minLen := 0 }] txt gz
      { hdr := { ce := [], cl := some 3, varyAE := false, etag := .strong }, body := .raw [1, 2, 3], plen := 3,
        ops := [.flush, .write, .write], ret := 0 } =
      { status := 200, hdr := { ce := gz, cl := none, varyAE := true, etag := .weak },
        body := .layer .gzip (.raw [1, 2, 3]), blen := none } := by decide

/-- test: the handler writes its body and returns (0, error), as fastcgi does after stderr
output: compressed, complete, the same as without the error -/
example :
    gzipRun [{ exts := [[46, 116, 120, 116]], nots := [], minLen := 0 }] txt gz
      { hdr := { ce := [], cl := none, varyAE := false, etag := .none }, body := .raw [1, 2, 3], plen := 3,
        ops := [.hdr 200, .write], ret := 0, err := true } =
      { status := 200, hdr := { ce := gz, cl := none, varyAE := true, etag := .none },
        body := .layer .gzip (.raw [1, 2, 3]), blen := none } := by decide

/-- test: the judge rejects a gzip stream that was not terminated -/
example :
    let p : Obs := { status := 200, ce := [], cl := .absent, varyAE := false, etag := .none, body := .raw [1] }
    let g : Obs := { status := 200, ce := gz, cl := .absent, varyAE := true, etag := .none, body := .cut .gzip (.raw [1]) }
    verdict gz g p ≠ "ok" := by decide

/-- non-vacuity of `C18_no_double_encoding`'s hypothesis: zstd, an unknown coding and upper-case
GZIP all count as "already encoded"; absent and identity do not -/
example : unencoded Coding.zstd.name = false ∧ unencoded [120, 45, 102, 111, 111] = false ∧
    unencoded [71, 90, 73, 80] = false ∧ unencoded [] = true ∧ unencoded identityB = true := by decide

/-- test: the zstd sibling case of F13 is left alone -/
example :
    gzipRun [{ exts := [[46, 116, 120, 116]], nots := [], minLen := 0 }] txt (Coding.zstd.name ++ [44, 32] ++ gz)
      (staticInner [.zstd] (Coding.zstd.name ++ [44, 32] ++ gz) [7, 7] 20) =
      plainRun (staticInner [.zstd] (Coding.zstd.name ++ [44, 32] ++ gz) [7, 7] 20) := by decide

/-- test: `gzip;q=0` is not an offer, `gzip;q=0.5` and `x-gzip` are -/
example : offersGzip (gz ++ [59, 113, 61, 48]) = false ∧ offersGzip (gz ++ [59, 113, 61, 48, 46, 53]) = true ∧
    offersGzip ([120, 45] ++ gz) = true ∧ offersGzip [] = false := by decide

/-- test: the judge rejects double encoding, a gzip body without its Content-Encoding, and
compression for a client that refused it -/
example :
    let p : Obs := { status := 200, ce := Coding.zstd.name, cl := .ok, varyAE := true, etag := .strong,
                     body := .layer .zstd (.raw [1]) }
    let g : Obs := { status := 200, ce := gz, cl := .absent, varyAE := true, etag := .weak,
                     body := .layer .gzip (.layer .zstd (.raw [1])) }
    verdict gz g p ≠ "ok" := by decide

example :
    let p : Obs := { status := 200, ce := [], cl := .absent, varyAE := false, etag := .none, body := .raw [1] }
    let g : Obs := { status := 200, ce := [], cl := .absent, varyAE := false, etag := .none, body := .layer .gzip (.raw [1]) }
    verdict gz g p ≠ "ok" := by decide

example :
    let p : Obs := { status := 200, ce := [], cl := .absent, varyAE := false, etag := .none, body := .raw [1] }
    let g : Obs := { status := 200, ce := gz, cl := .absent, varyAE := true, etag := .none, body := .layer .gzip (.raw [1]) }
    verdict (gz ++ [59, 113, 61, 48]) g p ≠ "ok" ∧ verdict gz g p = "ok" := by decide

end Casket.Props.C18
