import Casket.Spec.ProxyMsg
import Casket.Generated.ProxyHeaders
namespace Casket.Props.C04
end Casket.Props.C04
