import Casket.Proofs.ProxyMsg
import Casket.Proofs.ProxyMsgPath
import Casket.Generated.ProxyHeaders
/-
C04 — Reverse proxy relays requests and responses faithfully.

Statements only; helper lemmas live in Casket/Proofs/ProxyMsg.lean.  `forward` is the model of
createUpstreamRequest + the per-attempt part of Proxy.ServeHTTP + the Director (what the backend
transport is handed), `respond` the model of ReverseProxy.ServeHTTP after the round trip; both
are tied to the Go code by the streams c04.req / c04.resp.  `verdictReq` / `verdictResp` are the
executable forms of the property that the driver applies to the *implementation's* answers.

The theorems are about the model of the code after the two `fix:` commits (every Connection
line is honoured; hop-by-hop headers are removed whatever their first value is).
-/
namespace Casket.Props.C04
open Casket.ProxyMsg Casket.ProxyMsgSpec

/-- the hop-by-hop list of reverseproxy.go, regenerated on every run -/
abbrev hop : List Str := Casket.Generated.hopHeaderBytes
abbrev skip : List Str := Casket.Generated.skipHeaderBytes

/-! ### regenerated facts -/

/-- The code's hop-by-hop list is exactly the set the specification allows to be dropped … -/
theorem C04_hop_list_is_spec : (hop.all specHop.contains && specHop.all hop.contains) = true := by decide

/-- … it contains every header RFC 7230 §6.1 forbids forwarding … -/
theorem C04_rfc_hop_covered : rfcHop.all hop.contains = true := by decide

/-- … and its names are in canonical form (so `Header.Del` hits the key net/http stores). -/
theorem C04_hop_names_canonical : CanonicalNames hop := by unfold CanonicalNames; decide

theorem C04_skip_list_is_spec : (skip.all specSkip.contains && specSkip.all skip.contains) = true := by decide

/-! ### request side -/

/-- no header_upstream rule is aimed at `k` -/
def Untargeted (rules : Rules) (k : Str) : Prop := (rules.map fun r => ruleTarget r.1).contains k = false

/-- nothing configured touches `k` on the way up: no rule, no replacement, and it is not the
Authorization header of a backend with credentials -/
def Plain (u : Upstream) (k : Str) : Prop :=
  Untargeted u.upRules k ∧ (replTargets u.upRepls).contains k = false ∧ (u.cred = none ∨ k ≠ sAuthorization)

theorem post_plain (repl : Str → Str) (u : Upstream) (k : Str) (hp : Plain u k) (s : List Str) :
    replEffect repl u.upRepls k (ruleEffect repl u.upRules k (credEffect u.cred k s)) = s := by
  obtain ⟨h1, h2, h3⟩ := hp
  rw [replEffect_none _ _ _ _ h2, ruleEffect_none _ _ _ _ h1]
  unfold credEffect
  rcases h3 with h3 | h3
  · rw [h3]
  · cases u.cred with
    | none => rfl
    | some c =>
      have : (k == sAuthorization) = false := by simp [h3]
      simp [this]

/-- Master statement: for every header name, the value list the backend receives is the
client's list with hop-by-hop names emptied, the client address folded into X-Forwarded-For and
the one rule aimed at that name applied — for every request, header multiset, `Connection`
header, remote address and non-interfering rule set. -/
theorem C04_request_headers_exact (hl : List Str) (hc : CanonicalNames hl) (repl : Str → Str) (u : Upstream)
    (r : Request) (hne : Hdr.NoEmpty r.header) (hni : nonInterfering u.upRules = true) (hrd : replsDistinct u.upRepls = true) (k : Str) :
    (forward hl repl u r).header.vals k = expectReqVals hl repl u r k :=
  vals_forward hl hc repl u r hne hni hrd k

/-- End-to-end headers reach the backend intact (same values, same order, duplicates kept). -/
theorem C04_end_to_end_headers_preserved (hl : List Str) (hc : CanonicalNames hl) (repl : Str → Str) (u : Upstream)
    (r : Request) (hne : Hdr.NoEmpty r.header) (hni : nonInterfering u.upRules = true) (hrd : replsDistinct u.upRepls = true) (k : Str)
    (he2e : isHop hl r.header k = false) (hx : k ≠ sXFF) (hr : Plain u k) :
    (forward hl repl u r).header.vals k = r.header.vals k := by
  rw [vals_forward hl hc repl u r hne hni hrd]
  unfold expectReqVals
  have : (k == sXFF) = false := by simp [hx]
  simp only [he2e, this, Bool.false_eq_true, if_false]
  exact post_plain repl u k hr _

/-- A hop-by-hop header never reaches the backend, whatever its values are (unless a configured
rule re-adds it, as the `websocket` preset does). -/
theorem C04_hop_removed (hl : List Str) (hc : CanonicalNames hl) (repl : Str → Str) (u : Upstream)
    (r : Request) (hne : Hdr.NoEmpty r.header) (hni : nonInterfering u.upRules = true) (hrd : replsDistinct u.upRepls = true) (k : Str)
    (hk : k ∈ hl) (hx : k ≠ sXFF) (hr : Plain u k) :
    (forward hl repl u r).header.vals k = [] := by
  rw [vals_forward hl hc repl u r hne hni hrd]
  unfold expectReqVals
  have h1 : isHop hl r.header k = true := by simp [isHop, hk]
  have : (k == sXFF) = false := by simp [hx]
  simp only [h1, this, if_true, Bool.false_eq_true, if_false]
  exact post_plain repl u _ hr _

/-- A header named on any line of `Connection` (any case, any spacing) never reaches the backend. -/
theorem C04_connection_listed_removed (hl : List Str) (hc : CanonicalNames hl) (repl : Str → Str) (u : Upstream)
    (r : Request) (hne : Hdr.NoEmpty r.header) (hni : nonInterfering u.upRules = true) (hrd : replsDistinct u.upRepls = true) (name : Str)
    (hk : name ∈ connListed r.header) (hx : canon name ≠ sXFF) (hr : Plain u (canon name)) :
    (forward hl repl u r).header.vals (canon name) = [] := by
  rw [vals_forward hl hc repl u r hne hni hrd]
  unfold expectReqVals
  have h1 : isHop hl r.header (canon name) = true := by
    simp only [isHop, Bool.or_eq_true]
    right
    simp only [List.contains_eq_mem, List.mem_map, decide_eq_true_eq]
    exact ⟨name, hk, rfl⟩
  have : (canon name == sXFF) = false := by simp [hx]
  simp only [h1, this, if_true, Bool.false_eq_true, if_false]
  exact post_plain repl u _ hr _

/-- X-Forwarded-For at the backend is one value: the prior values joined by ", " followed by the
client address (just the client address when there was none). -/
theorem C04_xff_appended (hl : List Str) (hc : CanonicalNames hl) (repl : Str → Str) (u : Upstream)
    (r : Request) (hne : Hdr.NoEmpty r.header) (hni : nonInterfering u.upRules = true) (hrd : replsDistinct u.upRepls = true) (ip port : Str)
    (haddr : splitHostPort r.remoteAddr = some (ip, port))
    (hnh : isHop hl r.header sXFF = false) (hr : Plain u sXFF) :
    (forward hl repl u r).header.vals sXFF =
      [if r.header.vals sXFF != [] then joinCommaSpace (r.header.vals sXFF) ++ commaSpace ++ ip else ip] := by
  rw [vals_forward hl hc repl u r hne hni hrd]
  unfold expectReqVals
  simp only [hnh, haddr, beq_self_eq_true, Bool.false_eq_true, if_false, if_true]
  exact post_plain repl u _ hr _

/-- Exactly the configured header_upstream changes: the headers with the rules and replacements
equal the replacement effect of the rule effect on the headers without them, name by name. -/
theorem C04_upstream_rules_exact (hl : List Str) (hc : CanonicalNames hl) (repl : Str → Str) (u : Upstream)
    (r : Request) (hne : Hdr.NoEmpty r.header) (hni : nonInterfering u.upRules = true) (hrd : replsDistinct u.upRepls = true) (k : Str) :
    (forward hl repl u r).header.vals k =
      replEffect repl u.upRepls k (ruleEffect repl u.upRules k
        ((forward hl repl { u with upRules := [], upRepls := [] } r).header.vals k)) := by
  rw [vals_forward hl hc repl u r hne hni hrd, vals_forward hl hc repl _ r hne rfl rfl]
  rfl

/-- The upstream credentials of the backend URL are sent exactly when the client sent no
Authorization value of its own (and no rule or replacement is aimed at that header). -/
theorem C04_upstream_credentials (hl : List Str) (hc : CanonicalNames hl) (repl : Str → Str) (u : Upstream)
    (r : Request) (hne : Hdr.NoEmpty r.header) (hni : nonInterfering u.upRules = true) (hrd : replsDistinct u.upRepls = true)
    (c : Str) (hcred : u.cred = some c) (hnh : isHop hl r.header sAuthorization = false)
    (hr : Untargeted u.upRules sAuthorization) (hr2 : (replTargets u.upRepls).contains sAuthorization = false) :
    (forward hl repl u r).header.vals sAuthorization =
      if (r.header.vals sAuthorization).headD [] == [] then [c] else r.header.vals sAuthorization := by
  rw [vals_forward hl hc repl u r hne hni hrd]
  unfold expectReqVals
  have : (sAuthorization == sXFF) = false := by decide
  simp only [hnh, this, Bool.false_eq_true, if_false]
  rw [replEffect_none _ _ _ _ hr2, ruleEffect_none _ _ _ _ hr, hcred]
  simp [credEffect]

/-- The Host the backend is addressed with is the backend's own, unless the configuration produces a
Host header (as `transparent` does), whose last value is used. -/
theorem C04_host_exact (hl : List Str) (hc : CanonicalNames hl) (repl : Str → Str) (u : Upstream)
    (r : Request) (hne : Hdr.NoEmpty r.header) (hni : nonInterfering u.upRules = true) (hrd : replsDistinct u.upRepls = true) :
    (forward hl repl u r).host = expectHost hl repl u r :=
  forward_host hl hc repl u r hne hni hrd

/-- The path is the base path joined by exactly one slash to the request path minus `without`. -/
theorem C04_path_exact (hl : List Str) (repl : Str → Str) (u : Upstream) (r : Request) :
    (forward hl repl u r).url.path = joinOneSlash u.target.path (trimPrefix r.url.path u.without) :=
  director_path _ _ _

/-- The encoded path is absent when neither side has one, else the same join of the encoded forms. -/
theorem C04_rawpath_exact (hl : List Str) (repl : Str → Str) (u : Upstream) (r : Request) :
    (forward hl repl u r).url.rawPath = expectRawPath u.target u.without r.url :=
  director_rawPath _ _ _

/-- `Spec.jointAgree` as a proposition: a slash at the joint is spelled the same way (literally) in
the encoded and in the decoded forms. -/
def JointAgree (u : Upstream) (r : Request) : Prop :=
  endsWithSlash (escapedOf u.target.path u.target.rawPath) = endsWithSlash u.target.path ∧
  startsWithSlash (escapedOf (trimmedPath u r) (trimmedRaw u r)) = startsWithSlash (trimmedPath u r) ∧
  (escapedOf (trimmedPath u r) (trimmedRaw u r) = [] ↔ trimmedPath u r = [])

theorem beq_nil_iff (X Y : Str) : (X == []) = (Y == []) ↔ (X = [] ↔ Y = []) := by
  cases X <;> cases Y <;> simp

theorem jointAgree_iff (u : Upstream) (r : Request) : jointAgree u r = true ↔ JointAgree u r := by
  unfold jointAgree JointAgree
  simp only [Bool.and_eq_true, beq_iff_eq]
  rw [beq_nil_iff]
  constructor
  · rintro ⟨⟨h1, h2⟩, h3⟩; exact ⟨h1, h2, h3⟩
  · rintro ⟨h1, h2, h3⟩; exact ⟨⟨h1, h2⟩, h3⟩

/-- Whenever the outgoing RawPath is set it decodes to the outgoing Path — the backend is sent one
consistent path — for every base path (with or without an encoded form, with characters that need
escaping), every `without` (also one that matches only the decoded or only the encoded spelling of
the request path) and every request path.  PARTIAL: an escaped slash exactly at the joint is
excluded (`JointAgree`); see the witness below (known finding C04-rawpath-escaped-slash-at-joint,
judged as its own class `rawpath-joint-escaped-slash`; any other inconsistency is `rawpath-inconsistent`). -/
theorem C04_rawpath_consistent_partial (hl : List Str) (repl : Str → Str) (u : Upstream) (r : Request)
    (hj : JointAgree u r) (hset : (forward hl repl u r).url.rawPath ≠ []) :
    Casket.Path.unescape false (forward hl repl u r).url.rawPath = some (forward hl repl u r).url.path := by
  rw [forward_url] at hset ⊢
  have hp : (director u.target u.without r.url).path =
      singleJoiningSlash u.target.path (trimmedPath u r) := by
    unfold director trimmedPath
    by_cases hw : u.without = []
    · simp [hw, trimPrefix_nil]
    · have : (u.without != []) = true := by simp [hw]
      simp [this]
  have hr : (director u.target u.without r.url).rawPath =
      if trimmedRaw u r != [] || u.target.rawPath != [] then
        singleJoiningSlash (escapedOf u.target.path u.target.rawPath) (escapedOf (trimmedPath u r) (trimmedRaw u r))
      else trimmedRaw u r := by
    unfold director trimmedPath trimmedRaw
    by_cases hw : u.without = []
    · by_cases hr0 : r.url.rawPath = [] <;> simp [hw, hr0, trimPrefix_nil]
    · have hw' : (u.without != []) = true := by simp [hw]
      by_cases hr0 : r.url.rawPath = []
      · simp [hw', hr0]
      · have : (r.url.rawPath != []) = true := by simp [hr0]
        simp [hw', this]
  rw [hr] at hset ⊢
  rw [hp]
  by_cases hc : (trimmedRaw u r != [] || u.target.rawPath != []) = true
  · simp only [hc, if_true]
    exact unescape_join _ _ _ _ (escapedOf_unescape _ _) (escapedOf_unescape _ _) hj.1 hj.2.1 hj.2.2
  · simp only [hc, Bool.false_eq_true, if_false] at hset
    have : trimmedRaw u r = [] := by
      simp only [Bool.or_eq_true, not_or, bne_iff_ne, ne_eq, Decidable.not_not] at hc
      exact hc.1
    exact absurd this hset

/-- The excluded case does fail: `without /api` and the request `/api%2Fx` (decoded `/api/x`): the
slash after the prefix is an escaped one, the encoded join gets a slash of its own, and the encoded
path (`/%2Fx`, i.e. `//x`) no longer decodes to the path (`/x`). -/
theorem C04_rawpath_joint_fails_witness :
    let u : Upstream := { target := { scheme := sHttp, host := [98], path := [], rawPath := [], opaq := [], rawQuery := [] },
                          without := [47, 97, 112, 105], upRules := [], downRules := [] }
    let r : Request := { method := [71], url := { scheme := [], host := [], path := [47, 97, 112, 105, 47, 120],
                                                  rawPath := [47, 97, 112, 105, 37, 50, 70, 120], opaq := [], rawQuery := [] },
                         host := [], remoteAddr := [], header := [], contentLength := 0, body := none }
    (forward [] id u r).url.path = [47, 120] ∧
    (forward [] id u r).url.rawPath = [47, 37, 50, 70, 120] ∧
    Casket.Path.unescape false (forward [] id u r).url.rawPath = some [47, 47, 120] := by
  decide

/-- What the backend decodes is the outgoing Path in every case: `URL.EscapedPath()` — what
net/http writes on the request line — falls back to the escaped Path when RawPath is not an
encoding of it, so the path of `C04_path_exact` is the one that arrives, whatever the spelling. -/
theorem C04_backend_path_consistent (hl : List Str) (repl : Str → Str) (u : Upstream) (r : Request) :
    Casket.Path.unescape false
      (escapedOf (forward hl repl u r).url.path (forward hl repl u r).url.rawPath) =
      some (forward hl repl u r).url.path :=
  escapedOf_unescape _ _

/-- The judged raw-path predicate on the model's own answer (same exclusion as above). -/
theorem C04_rawpath_model_verdict_ok_partial (hl : List Str) (repl : Str → Str) (u : Upstream) (r : Request)
    (hj : JointAgree u r) : verdictRawPath u r (forward hl repl u r) = "ok" := by
  have hok : rawOK (forward hl repl u r).url.path (forward hl repl u r).url.rawPath = true := by
    unfold rawOK
    by_cases hset : (forward hl repl u r).url.rawPath = []
    · simp [hset]
    · have := C04_rawpath_consistent_partial hl repl u r hj hset
      simp [this]
  unfold verdictRawPath
  simp [hok]

/-- The query is the target's query and the request's query, joined by `&` when both exist. -/
theorem C04_query_preserved (hl : List Str) (repl : Str → Str) (u : Upstream) (r : Request) :
    (forward hl repl u r).url.rawQuery = expectQuery u.target r.url.rawQuery :=
  director_query _ _ _

/-- A target without a query leaves the request's query untouched. -/
theorem C04_query_untouched (hl : List Str) (repl : Str → Str) (u : Upstream) (r : Request)
    (ht : u.target.rawQuery = []) : (forward hl repl u r).url.rawQuery = r.url.rawQuery := by
  rw [C04_query_preserved]; simp [expectQuery, ht]

/-- net/http's contract for server requests: Content-Length 0 means there is no body. -/
def BodyConsistent (r : Request) : Prop := r.contentLength = 0 → bodyBytes r.body = []

/-- Method, Content-Length and body bytes are not touched. -/
theorem C04_method_body_untouched (hl : List Str) (repl : Str → Str) (u : Upstream) (r : Request)
    (hb : BodyConsistent r) :
    (forward hl repl u r).method = r.method ∧ (forward hl repl u r).contentLength = r.contentLength ∧
      bodyBytes (forward hl repl u r).body = bodyBytes r.body := by
  refine ⟨rfl, rfl, ?_⟩
  rw [forward_body]
  by_cases h0 : r.contentLength = 0
  · have := hb h0
    simp only [h0, beq_self_eq_true, if_true]
    rw [this]; rfl
  · have : (r.contentLength == 0) = false := by simp [h0]
    simp [this]

/-- net/http hands a handler a body that is exactly as long as the declared Content-Length. -/
def BodyFramed (r : Request) : Prop := r.contentLength ≥ 0 → ((bodyBytes r.body).length : Int) = r.contentLength

/-- Whether the body is buffered for retries (`requiresBuffering`) or streamed makes no difference to
what the transport is handed, and either is what `forward` hands it. -/
theorem C04_buffering_transparent (hl : List Str) (repl : Str → Str) (u : Upstream) (r : Request) (b : Bool) :
    outgoingBody b r = (forward hl repl u r).body := by
  rw [forward_body]
  unfold outgoingBody
  cases b <;> cases r.body <;> simp

/-- The backend receives exactly the client's body bytes in a framing that is consistent with them:
a Content-Length equal to their number, or chunked coding (exactly when the client's length was
unknown), or no body when there are none — for every incoming framing (declared length, unknown length, no body). -/
theorem C04_framing_self_consistent (hl : List Str) (repl : Str → Str) (u : Upstream) (r : Request)
    (hf : BodyFramed r) :
    bodyBytes (forward hl repl u r).body = bodyBytes r.body ∧
    (match wireFraming (forward hl repl u r) with
     | .length n => n = (bodyBytes r.body).length
     | .chunked => r.contentLength < 0
     | .none => bodyBytes r.body = []) := by
  have hb : BodyConsistent r := by
    intro h0
    have := hf (by omega)
    rw [h0] at this
    exact List.eq_nil_of_length_eq_zero (by omega)
  refine ⟨(C04_method_body_untouched hl repl u r hb).2.2, ?_⟩
  unfold wireFraming
  rw [forward_body, forward_contentLength]
  by_cases h0 : r.contentLength = 0
  · simp only [h0, beq_self_eq_true, if_true]
    exact hb h0
  · have hne : (r.contentLength == 0) = false := by simp [h0]
    simp only [hne, Bool.false_eq_true, if_false]
    cases hbody : r.body with
    | none =>
      simp only [bodyBytes]
    | some bs =>
      simp only [bodyBytes]
      by_cases hpos : r.contentLength > 0
      · simp only [hpos, if_true]
        have := hf (by omega)
        rw [hbody] at this
        simp only [bodyBytes] at this
        omega
      · have hneg : r.contentLength < 0 := by omega
        simp only [hpos, if_false, hneg, if_true]

/-- The whole judged request-side predicate: the model's answer always gets the verdict "ok".
(The same `verdictReq` is applied by the driver to the implementation's answers.) -/
theorem C04_request_model_verdict_ok (hl : List Str) (hc : CanonicalNames hl) (repl : Str → Str) (u : Upstream)
    (r : Request) (hne : Hdr.NoEmpty r.header) (hni : nonInterfering u.upRules = true) (hrd : replsDistinct u.upRepls = true) (hb : BodyConsistent r) :
    verdictReq hl repl u r (forward hl repl u r) = "ok" := by
  obtain ⟨_, _, h3⟩ := C04_method_body_untouched hl repl u r hb
  have hfind : (reqKeys hl u r (forward hl repl u r)).find?
      (fun k => (forward hl repl u r).header.vals k != expectReqVals hl repl u r k) = none := by
    rw [List.find?_eq_none]
    intro k _
    simp [vals_forward hl hc repl u r hne hni hrd k]
  unfold verdictReq
  rw [forward_method, forward_contentLength, forward_url, director_path, director_rawPath, director_query, h3, hfind,
    forward_host hl hc repl u r hne hni hrd]
  simp

/-- A retried request is exactly what a first attempt at the second backend would have been: nothing
of the first attempt (base path, target query, `without`, added headers) is carried over. -/
theorem C04_retry_attempts_independent (hl : List Str) (repl : Str → Str) (u1 u2 : Upstream) (r : Request) :
    (forwardRetry hl repl u1 u2 r).1 = forward hl repl u1 r ∧
    (forwardRetry hl repl u1 u2 r).2 = forward hl repl u2 r := ⟨rfl, rfl⟩

/-! ### response side -/

/-- Master statement: for every header name, the value list the client receives is the backend's
list with hop-by-hop names emptied and the one header_downstream rule aimed at that name applied,
merged with what the ResponseWriter already held (kept for the skip list, both for `Server`,
replaced otherwise); `Trailer` announces exactly the backend's announced trailer names. -/
theorem C04_response_headers_exact (hl sk : List Str) (hc : CanonicalNames hl) (repl : Str → Str) (down : Rules) (dr : Repls)
    (pre : Hdr) (res : Response) (hg : Good res.header) (hni : nonInterfering down = true) (hrd : replsDistinct dr = true) (k : Str) :
    (respond hl sk repl down dr pre res).header.vals k =
      if res.announced.length > 0 ∧ k = sTrailer then res.announced
      else expectRespVals hl sk repl down dr pre res k :=
  vals_respond hl sk hc repl down dr pre res hg hni hrd k

/-- The status code is not touched. -/
theorem C04_status_untouched (hl sk : List Str) (repl : Str → Str) (down : Rules) (dr : Repls) (pre : Hdr) (res : Response) :
    (respond hl sk repl down dr pre res).status = res.status := rfl

/-- End-to-end response headers reach the client intact when the ResponseWriter did not hold that
name before and no rule is aimed at it. -/
theorem C04_response_end_to_end_preserved (hl sk : List Str) (hc : CanonicalNames hl) (repl : Str → Str) (down : Rules) (dr : Repls)
    (pre : Hdr) (res : Response) (hg : Good res.header) (hni : nonInterfering down = true) (hrd : replsDistinct dr = true) (k : Str)
    (he2e : isHop hl res.header k = false) (hpre : pre.has k = false) (hr : Untargeted down k)
    (hr2 : (replTargets dr).contains k = false) (ht : k ≠ sTrailer) :
    (respond hl sk repl down dr pre res).header.vals k = res.header.vals k := by
  rw [vals_respond hl sk hc repl down dr pre res hg hni hrd]
  simp only [ht, and_false, if_false]
  unfold expectRespVals
  simp only [he2e, hpre, Bool.false_eq_true, if_false]
  rw [replEffect_none _ _ _ _ hr2]
  exact ruleEffect_none _ _ _ _ hr

/-- A hop-by-hop response header (on the list, or named on any `Connection` line of the response)
never reaches the client, whatever its values — unless the ResponseWriter already held that name
or a rule re-adds it. -/
theorem C04_response_hop_removed (hl sk : List Str) (hc : CanonicalNames hl) (repl : Str → Str) (down : Rules) (dr : Repls)
    (pre : Hdr) (res : Response) (hg : Good res.header) (hni : nonInterfering down = true) (hrd : replsDistinct dr = true) (k : Str)
    (hh : isHop hl res.header k = true) (hpre : pre.has k = false) (hr : Untargeted down k)
    (hr2 : (replTargets dr).contains k = false) (ht : k ≠ sTrailer) :
    (respond hl sk repl down dr pre res).header.vals k = [] := by
  rw [vals_respond hl sk hc repl down dr pre res hg hni hrd]
  simp only [ht, and_false, if_false]
  unfold expectRespVals
  simp only [hh, hpre, if_true, Bool.false_eq_true, if_false]
  rw [replEffect_none _ _ _ _ hr2]
  exact ruleEffect_none _ _ _ _ hr

/-- Exactly the configured header_downstream changes: with the ResponseWriter empty, the headers
with the rules and the (literal) replacements equal the replacement effect of the rule effect on
the headers without any of them, name by name — in particular for blocks that configure only
replacements, only plain rules, or both. -/
theorem C04_downstream_rules_exact (hl sk : List Str) (hc : CanonicalNames hl) (repl : Str → Str) (down : Rules) (dr : Repls)
    (res : Response) (hg : Good res.header) (hni : nonInterfering down = true) (hrd : replsDistinct dr = true) (k : Str) (ht : k ≠ sTrailer) :
    (respond hl sk repl down dr [] res).header.vals k =
      replEffect repl dr k (ruleEffect repl down k ((respond hl sk repl [] [] [] res).header.vals k)) := by
  rw [vals_respond hl sk hc repl down dr [] res hg hni hrd, vals_respond hl sk hc repl [] [] [] res hg rfl rfl]
  simp only [ht, and_false, if_false]
  rfl

/-- A block with only replacement rules still applies them: the replacement aimed at `k` acts on the
backend's (hop-stripped) value list. -/
theorem C04_downstream_replacements_alone (hl sk : List Str) (hc : CanonicalNames hl) (repl : Str → Str) (dr : Repls)
    (res : Response) (hg : Good res.header) (hrd : replsDistinct dr = true) (k : Str) (ht : k ≠ sTrailer)
    (he2e : isHop hl res.header k = false) :
    (respond hl sk repl [] dr [] res).header.vals k = replEffect repl dr k (res.header.vals k) := by
  rw [vals_respond hl sk hc repl [] dr [] res hg rfl hrd]
  simp only [ht, and_false, if_false]
  unfold expectRespVals
  simp [he2e, Hdr.has, ruleEffect]

theorem sameMembers_self (a : List Str) : sameMembers a a = true := by
  simp [sameMembers]

/-- The status-and-header part of the judged response predicate: the model's answer always gets
"ok" (no side condition on trailers needed). -/
theorem C04_response_head_model_verdict_ok (hl sk : List Str) (hc : CanonicalNames hl) (repl : Str → Str)
    (down : Rules) (dr : Repls) (pre : Hdr) (res : Response) (hg : Good res.header) (hni : nonInterfering down = true) (hrd : replsDistinct dr = true) :
    verdictRespHead hl sk repl down dr pre res (respond hl sk repl down dr pre res).status
      (respond hl sk repl down dr pre res).header = "ok" := by
  have hfind : (respKeys hl down dr pre res (respond hl sk repl down dr pre res).header).find? (fun k =>
      if k == sTrailer && res.announced.length > 0 then
        !sameMembers ((respond hl sk repl down dr pre res).header.vals k) res.announced
      else (respond hl sk repl down dr pre res).header.vals k != expectRespVals hl sk repl down dr pre res k) = none := by
    rw [List.find?_eq_none]
    intro k _
    rw [vals_respond hl sk hc repl down dr pre res hg hni hrd k]
    by_cases hk : k = sTrailer
    · by_cases ha : res.announced.length > 0
      · simp [hk, ha, sameMembers_self]
      · simp [hk, ha]
    · have : (k == sTrailer) = false := by simp [hk]
      simp [hk, this]
  unfold verdictRespHead
  rw [respond_status, hfind]
  simp

/-- Trailers reach the client unchanged — announced ones under their own names, and as soon as one
trailer was not announced all of them through `Trailer:`-prefixed keys — for every trailer map
and every response, under the side conditions of `TrailerSide` (what net/http guarantees about
`res.Trailer`; trailer names and header names do not collide).  "Reach the client" is
`clientTrailers`: the net/http server rule for which keys of the final header map are sent as trailers. -/
theorem C04_trailers_preserved (hl sk : List Str) (repl : Str → Str) (down : Rules) (dr : Repls) (pre : Hdr) (res : Response)
    (hs : TrailerSide (mergedHeader hl sk repl down dr pre res) res) (k : Str) :
    (clientTrailers (respond hl sk repl down dr pre res)).vals k = res.trailer.vals k :=
  clientTrailers_respond hl sk repl down dr pre res hs k

/-- The whole judged response predicate (status, headers, trailers): the model's answer always
gets "ok". (The same `verdictResp` is applied by the driver to the implementation's answers.) -/
theorem C04_response_model_verdict_ok (hl sk : List Str) (hc : CanonicalNames hl) (repl : Str → Str)
    (down : Rules) (dr : Repls) (pre : Hdr) (res : Response) (hg : Good res.header) (hni : nonInterfering down = true) (hrd : replsDistinct dr = true)
    (hs : TrailerSide (mergedHeader hl sk repl down dr pre res) res) :
    verdictResp hl sk repl down dr pre res (respond hl sk repl down dr pre res).status
      (respond hl sk repl down dr pre res).header (clientTrailers (respond hl sk repl down dr pre res)) = "ok" := by
  unfold verdictResp
  rw [C04_response_head_model_verdict_ok hl sk hc repl down dr pre res hg hni hrd]
  simp only [bne_self_eq_false, Bool.false_eq_true, if_false]
  unfold verdictRespTrailers
  have : (res.trailer.keys ++ (clientTrailers (respond hl sk repl down dr pre res)).keys).find?
      (fun k => (clientTrailers (respond hl sk repl down dr pre res)).vals k != res.trailer.vals k) = none := by
    rw [List.find?_eq_none]
    intro k _
    simp [C04_trailers_preserved hl sk repl down dr pre res hs k]
  rw [this]

/-! ### exactly what the driver composes

The driver runs the model with the *regenerated* lists (`hop`, `skip`) and judges with the *specified*
lists (`specHop`, `specSkip`).  The two are equal as sets (`C04_hop_list_is_spec`,
`C04_skip_list_is_spec`), and only membership matters: -/

theorem hop_contains_eq (k : Str) : hop.contains k = specHop.contains k := by
  have h := C04_hop_list_is_spec
  simp only [Bool.and_eq_true, List.all_eq_true] at h
  cases h1 : hop.contains k <;> cases h2 : specHop.contains k <;> try rfl
  · have := h.2 k (by simpa using h2); rw [h1] at this; cases this
  · have := h.1 k (by simpa using h1); rw [h2] at this; cases this

theorem skip_contains_eq (k : Str) : skip.contains k = specSkip.contains k := by
  have h := C04_skip_list_is_spec
  simp only [Bool.and_eq_true, List.all_eq_true] at h
  cases h1 : skip.contains k <;> cases h2 : specSkip.contains k <;> try rfl
  · have := h.2 k (by simpa using h2); rw [h1] at this; cases this
  · have := h.1 k (by simpa using h1); rw [h2] at this; cases this

theorem expectReqVals_spec (repl : Str → Str) (u : Upstream) (r : Request) (k : Str) :
    expectReqVals specHop repl u r k = expectReqVals hop repl u r k := by
  unfold expectReqVals isHop
  rw [hop_contains_eq]

theorem expectRespVals_spec (repl : Str → Str) (down : Rules) (dr : Repls) (pre : Hdr) (res : Response) (k : Str) :
    expectRespVals specHop specSkip repl down dr pre res k = expectRespVals hop skip repl down dr pre res k := by
  unfold expectRespVals isHop
  rw [hop_contains_eq, skip_contains_eq]

/-- The request-side verdict the driver computes on the model's own answer is "ok". -/
theorem C04_request_driver_verdict_ok (repl : Str → Str) (u : Upstream) (r : Request)
    (hne : Hdr.NoEmpty r.header) (hni : nonInterfering u.upRules = true) (hrd : replsDistinct u.upRepls = true) (hb : BodyConsistent r) :
    verdictReq specHop repl u r (forward hop repl u r) = "ok" := by
  obtain ⟨_, _, h3⟩ := C04_method_body_untouched hop repl u r hb
  have hfind : (reqKeys specHop u r (forward hop repl u r)).find?
      (fun k => (forward hop repl u r).header.vals k != expectReqVals specHop repl u r k) = none := by
    rw [List.find?_eq_none]
    intro k _
    rw [expectReqVals_spec]
    simp [vals_forward hop C04_hop_names_canonical repl u r hne hni hrd k]
  have hhost : (forward hop repl u r).host = expectHost specHop repl u r := by
    rw [forward_host hop C04_hop_names_canonical repl u r hne hni hrd]
    unfold expectHost
    rw [expectReqVals_spec]
  unfold verdictReq
  rw [forward_method, forward_contentLength, forward_url, director_path, director_rawPath, director_query, h3, hfind, hhost]
  simp

/-- The response-side verdict the driver computes on the model's own answer is "ok". -/
theorem C04_response_driver_verdict_ok (repl : Str → Str) (down : Rules) (dr : Repls) (pre : Hdr) (res : Response)
    (hg : Good res.header) (hni : nonInterfering down = true) (hrd : replsDistinct dr = true)
    (hs : TrailerSide (mergedHeader hop skip repl down dr pre res) res) :
    verdictResp specHop specSkip repl down dr pre res (respond hop skip repl down dr pre res).status
      (respond hop skip repl down dr pre res).header (clientTrailers (respond hop skip repl down dr pre res)) = "ok" := by
  have hhead : verdictRespHead specHop specSkip repl down dr pre res (respond hop skip repl down dr pre res).status
      (respond hop skip repl down dr pre res).header = "ok" := by
    have hfind : (respKeys specHop down dr pre res (respond hop skip repl down dr pre res).header).find? (fun k =>
        if k == sTrailer && res.announced.length > 0 then
          !sameMembers ((respond hop skip repl down dr pre res).header.vals k) res.announced
        else (respond hop skip repl down dr pre res).header.vals k != expectRespVals specHop specSkip repl down dr pre res k) = none := by
      rw [List.find?_eq_none]
      intro k _
      rw [expectRespVals_spec, vals_respond hop skip C04_hop_names_canonical repl down dr pre res hg hni hrd k]
      by_cases hk : k = sTrailer
      · by_cases ha : res.announced.length > 0
        · simp [hk, ha, sameMembers_self]
        · simp [hk, ha]
      · have : (k == sTrailer) = false := by simp [hk]
        simp [hk, this]
    unfold verdictRespHead
    rw [respond_status, hfind]
    simp
  unfold verdictResp
  rw [hhead]
  simp only [bne_self_eq_false, Bool.false_eq_true, if_false]
  unfold verdictRespTrailers
  have : (res.trailer.keys ++ (clientTrailers (respond hop skip repl down dr pre res)).keys).find?
      (fun k => (clientTrailers (respond hop skip repl down dr pre res)).vals k != res.trailer.vals k) = none := by
    rw [List.find?_eq_none]
    intro k _
    simp [C04_trailers_preserved hop skip repl down dr pre res hs k]
  rw [this]

/-! Non-vacuity: concrete instances of the hypotheses and of the interesting cases. -/

/-- test: `Connection: close` + `Connection: x-secret` (two lines), `Keep-Alive` with an empty first value,
a prior X-Forwarded-For, rule `+X-Tag: t`; the request of the seeded mutation rehearsal. -/
def exampleRequest : Request :=
  { method := [71, 69, 84], url := { scheme := [], host := [], path := [47, 97], rawPath := [], opaq := [], rawQuery := [] },
    host := [102], remoteAddr := [49, 46, 50, 46, 51, 46, 52, 58, 53], contentLength := 0, body := none,
    header := [(sConnection, [[99, 108, 111, 115, 101], [120, 45, 115, 101, 99, 114, 101, 116]]),
               ([88, 45, 83, 101, 99, 114, 101, 116], [[115]]),
               ([75, 101, 101, 112, 45, 65, 108, 105, 118, 101], [[], [49]]),
               (sXFF, [[57, 46, 57, 46, 57, 46, 57]]),
               ([65, 99, 99, 101, 112, 116], [[42, 47, 42]])] }

def exampleUpstream : Upstream :=
  { target := { scheme := sHttp, host := [98], path := [47, 98, 97, 115, 101, 47], rawPath := [], opaq := [], rawQuery := [] },
    without := [], upRules := [([43, 88, 45, 84, 97, 103], [[116]])], downRules := [] }

example : Hdr.NoEmpty exampleRequest.header := by unfold Hdr.NoEmpty; decide
example : nonInterfering exampleUpstream.upRules = true := by decide
example : BodyConsistent exampleRequest := by unfold BodyConsistent; decide
/-- test: X-Secret and Keep-Alive are gone, Accept is intact, X-Forwarded-For is "9.9.9.9, 1.2.3.4", path is /base/a -/
example :
    let o := forward hop id exampleUpstream exampleRequest
    o.header.vals [88, 45, 83, 101, 99, 114, 101, 116] = [] ∧
    o.header.vals [75, 101, 101, 112, 45, 65, 108, 105, 118, 101] = [] ∧
    o.header.vals [65, 99, 99, 101, 112, 116] = [[42, 47, 42]] ∧
    o.header.vals sXFF = [[57, 46, 57, 46, 57, 46, 57, 44, 32, 49, 46, 50, 46, 51, 46, 52]] ∧
    o.header.vals [88, 45, 84, 97, 103] = [[116]] ∧
    o.url.path = [47, 98, 97, 115, 101, 47, 97] := by decide

/-- test: a backend response with `Connection: X-Internal` on a second line, `Keep-Alive`, a `Set-Cookie`
pair and rule `-Server`; the ResponseWriter already holds a Content-Type. -/
def exampleResponse : Response :=
  { status := 404,
    header := [(sConnection, [[99, 108, 111, 115, 101], [88, 45, 73, 110, 116, 101, 114, 110, 97, 108]]),
               ([88, 45, 73, 110, 116, 101, 114, 110, 97, 108], [[49]]),
               ([75, 101, 101, 112, 45, 65, 108, 105, 118, 101], [[53]]),
               ([83, 101, 116, 45, 67, 111, 111, 107, 105, 101], [[97], [98]]),
               ([67, 111, 110, 116, 101, 110, 116, 45, 84, 121, 112, 101], [[116]]),
               (sServer, [[115]])],
    announced := [], trailer := [] }

example : Good exampleResponse.header := by
  refine ⟨?_, ?_⟩
  · unfold CanonicalKeys; decide
  · unfold Hdr.NoEmpty; decide
/-- test: X-Internal and Keep-Alive are gone, both cookies arrive in order, the ResponseWriter's
Content-Type wins, Server is removed by the rule, the status is 404 -/
example :
    let v := respond hop skip id [([45, 83, 101, 114, 118, 101, 114], [[]])] []
      [([67, 111, 110, 116, 101, 110, 116, 45, 84, 121, 112, 101], [[112]])] exampleResponse
    v.status = 404 ∧
    v.header.vals [88, 45, 73, 110, 116, 101, 114, 110, 97, 108] = [] ∧
    v.header.vals [75, 101, 101, 112, 45, 65, 108, 105, 118, 101] = [] ∧
    v.header.vals [83, 101, 116, 45, 67, 111, 111, 107, 105, 101] = [[97], [98]] ∧
    v.header.vals [67, 111, 110, 116, 101, 110, 116, 45, 84, 121, 112, 101] = [[112]] ∧
    v.header.vals sServer = [] := by decide

/-- test (non-vacuity of `JointAgree`): base path `/sp ace` (no encoded form of its own), `without /a/b`
that matches only the decoded spelling of the request `/a%2Fb/x%2Fy`: the encoded path sent is
`/sp%20ace/x/y`, which decodes to the path `/sp ace/x/y` -/
def rawExampleUpstream : Upstream :=
  { target := { scheme := sHttp, host := [98], path := [47, 115, 112, 32, 97, 99, 101], rawPath := [], opaq := [], rawQuery := [] },
    without := [47, 97, 47, 98], upRules := [], downRules := [] }
def rawExampleRequest : Request :=
  { method := [71], url := { scheme := [], host := [], path := [47, 97, 47, 98, 47, 120, 47, 121],
                             rawPath := [47, 97, 37, 50, 70, 98, 47, 120, 37, 50, 70, 121], opaq := [], rawQuery := [] },
    host := [], remoteAddr := [], header := [], contentLength := 0, body := none }
example : JointAgree rawExampleUpstream rawExampleRequest := by unfold JointAgree; decide
example : (forward [] id rawExampleUpstream rawExampleRequest).url.rawPath =
    [47, 115, 112, 37, 50, 48, 97, 99, 101, 47, 120, 47, 121] := by decide

/-- test: a block with ONLY a downstream replacement (no plain rule): `Location: internal/x` is
rewritten to `public/x` (Location = 76 111 99 97 116 105 111 110) -/
example :
    (respond hop skip id [] [([108, 111, 99, 97, 116, 105, 111, 110],
        [([105, 110, 116, 101, 114, 110, 97, 108], [112, 117, 98, 108, 105, 99])])] []
      { exampleResponse with header := ([76, 111, 99, 97, 116, 105, 111, 110], [[105, 110, 116, 101, 114, 110, 97, 108, 47, 120]]) :: exampleResponse.header }).header.vals
      [76, 111, 99, 97, 116, 105, 111, 110] = [[112, 117, 98, 108, 105, 99, 47, 120]] := by decide

/-- test: one announced trailer (X-Sum) and one unannounced (Grpc-Status) -/
def exampleTrailerResponse : Response :=
  { exampleResponse with
    announced := [[88, 45, 83, 117, 109]],
    trailer := [([88, 45, 83, 117, 109], [[97, 98]]), ([71, 114, 112, 99, 45, 83, 116, 97, 116, 117, 115], [[48]])] }

theorem has_of_keys {h : Hdr} {P : Str → Prop} (hk : ∀ k ∈ h.keys, P k) : ∀ k, h.has k = true → P k :=
  fun k hh => hk k ((mem_keys h k).mpr hh)

example : TrailerSide (mergedHeader hop skip id [] [] [] exampleTrailerResponse) exampleTrailerResponse := by
  refine ⟨⟨?_, ?_⟩, ?_, ?_, ?_, has_of_keys ?_, ?_, ?_⟩
  · unfold CanonicalKeys; decide
  · unfold Hdr.NoEmpty; decide
  · decide
  · decide
  · decide
  · decide
  · decide
  · decide
/-- test: both trailers reach the client (through the prefixed keys, since one was unannounced) -/
example :
    let v := respond hop skip id [] [] [] exampleTrailerResponse
    (clientTrailers v).vals [88, 45, 83, 117, 109] = [[97, 98]] ∧
    (clientTrailers v).vals [71, 114, 112, 99, 45, 83, 116, 97, 116, 117, 115] = [[48]] ∧
    v.header.vals sTrailer = [[88, 45, 83, 117, 109]] := by decide

end Casket.Props.C04
