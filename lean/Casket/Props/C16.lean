import Casket.Proofs.Lifecycle
/-
C16 — Lifecycle callbacks fire exactly once, in order, across start/reload/stop.

Statements only; helper lemmas live in Casket/Proofs/Lifecycle.lean.  `step`/`run` is the model of
casket.Start / Instance.Restart / casket.Stop / executeShutdownCallbacks (Model/Lifecycle.lean), tied to
the Go code by the correspondence stream `c16.trace` (trace equality on every history of the stream).
`LifecycleSpec.verdict` is the executable form of the property — one law per segment of the trace plus
the wait law — which the model driver also applies to the *implementation's* traces.
-/
namespace Casket.Props.C16
open Casket.Lifecycle Casket.LifecycleSpec

/-- The model's trace of EVERY history (any length, any configurations, any failure stages, any number of
signals) satisfies every law of the judge. -/
theorem C16_model_verdict_ok (ops : List Op) : verdict ops (run ops) = "ok" := by
  unfold verdict run
  rw [check_runFrom ops State.init Ledger.init rel_init]

/-- The judge is not vacuous: it accepts the model's trace of a start, a reload and a shutdown signal … -/
example : verdict [.start ⟨[⟨.file, 1, false, false⟩], .none, false, false⟩, .restart ⟨[⟨.file, 1, false, false⟩], .none, false, false⟩, .signal 2]
    (run [.start ⟨[⟨.file, 1, false, false⟩], .none, false, false⟩, .restart ⟨[⟨.file, 1, false, false⟩], .none, false, false⟩, .signal 2]) = "ok" :=
  C16_model_verdict_ok _

/-- … and rejects a reload whose old instance is stopped before the new one serves, -/
example : segLaw { Ledger.init with next := 2, live := [⟨1, 1, ⟨[⟨.file, 1, false, false⟩], .none, false, false⟩⟩] }
    (.restart ⟨[⟨.file, 1, false, false⟩], .none, false, false⟩)
    ⟨.ok, [.cb .rs 1 0, .cb .rs 1 1, .cb .su 2 0, .cb .su 2 1, .stop 1 0, .inherit 2 0, .serve 2 0, .cb .sd 1 0, .cb .sd 1 1]⟩
    = some "restart-order" := by decide

/-- a failed reload that ran a shutdown callback of the old instance, -/
example : segLaw { Ledger.init with next := 2, live := [⟨1, 1, ⟨[], .none, false, false⟩⟩] }
    (.restart ⟨[], .startup, false, false⟩)
    ⟨.err, [.cb .rs 1 0, .cb .rs 1 1, .cb .su 2 0, .cb .sd 1 0, .cb .rf 1 0, .cb .rf 1 1]⟩
    = some "failed-restart-shape" := by decide

/-- shutdown callbacks that run again on a second signal, -/
example : segLaw { Ledger.init with next := 3, once := true, live := [⟨1, 1, ⟨[], .none, false, false⟩⟩] }
    (.signal 1) ⟨.ok, [.cb .sd 1 0, .cb .sd 1 1, .cb .fd 1 0, .cb .fd 1 1]⟩ = some "shutdown-once" := by decide

/-- and a Wait() that returned while a server of the lineage was still serving. -/
example : waitOk { Ledger.init with lineages := [1], served := fun _ => 1 } [true] = false := by decide

/-- Order of a successful reload, for every state and configuration: the running instance's OnRestart callbacks, the new
instance's OnStartup callbacks, its listeners, its Serve calls, then Stop of the old servers, then every OnShutdown
callback of the old instance — and nothing else (no first-startup, restart-failed or final-shutdown callback). -/
theorem C16_restart_order (s : State) (o : Inst) (rest : List Inst) (c : Cfg) (hi : s.insts = o :: rest)
    (hr : o.cfg.restartErr = false) (hl : (load s.next c true (restartFds o)).2 = true) :
    (step s (.restart c)).2 =
      ⟨.ok, cbs .rs o.gen ++ (cbs .su s.next ++ (listenLoop s.next (restartFds o) 0 c.servers).1
            ++ serves s.next c.servers.length) ++ stopEvents o ++ cbs .sd o.gen⟩ := by
  have he := (load_ok hl).2
  simp only [if_true, List.nil_append] at he
  simp [step, hi, runCbs, hr, hl, he]

example : (load 2 ⟨[⟨.file, 1, false, false⟩], .none, false, false⟩ true [1]).2 = true := by decide

/-- A failed reload (the OnRestart callback failed, or the new configuration failed at any stage up to and including
a failing Listen), in any state reachable by any history, leaves the process state exactly as it was — same instances,
same once-guard, same wait-group counters — and of the old instance only OnRestart callbacks followed by both
OnRestartFailed callbacks ran. -/
theorem C16_failed_restart_only_failed_callbacks (ops : List Op) (c : Cfg)
    (h : (step (stateAfter State.init ops) (.restart c)).2.res = .err) :
    (step (stateAfter State.init ops) (.restart c)).1 =
      { stateAfter State.init ops with next := (stateAfter State.init ops).next + 1 } ∧
    ∃ o rest, (stateAfter State.init ops).insts = o :: rest ∧
      ((step (stateAfter State.init ops) (.restart c)).2.events.filter (fun e => genOf e == o.gen)
          = .cb .rs o.gen 0 :: cbs .rf o.gen ∨
       (step (stateAfter State.init ops) (.restart c)).2.events.filter (fun e => genOf e == o.gen)
          = cbs .rs o.gen ++ cbs .rf o.gen) :=
  failed_restart (rel_reach ops) c h

example : (step (stateAfter State.init [.start ⟨[], .none, false, false⟩]) (.restart ⟨[], .setup, false, false⟩)).2.res = .err := by
  decide

/-- The wait group covers the lineage: after any history, the counter of every lineage equals the number of Serve
calls of that lineage (the instance `Start` returned and all its successors by `Restart`) that the trace shows starting
minus the number it shows stopping; so `Wait()` returns (counter 0) exactly when every such server has stopped. -/
theorem C16_wait_covers_lineage (ops : List Op) (l : Nat) :
    (stateAfter State.init ops).wg l =
      ((ledgerAfter State.init Ledger.init ops).served l : Int) - (ledgerAfter State.init Ledger.init ops).stopped l := by
  have := (rel_reach ops).wg l
  omega

/-- `Wait()` on a lineage returns (counter 0) exactly when the trace shows as many Serve calls of the lineage stopping
as starting. -/
theorem C16_wait_returns_iff_all_stopped (ops : List Op) (l : Nat) :
    (stateAfter State.init ops).wg l = 0 ↔
      (ledgerAfter State.init Ledger.init ops).served l = (ledgerAfter State.init Ledger.init ops).stopped l := by
  have := (rel_reach ops).wg l
  omega

/-- First-startup callbacks run only at a Start (never at a reload, a stop or a signal), only for the instance that Start
creates, and over any history each of them runs at most once. -/
theorem C16_first_startup_once (ops : List Op) (g i : Nat) :
    (trace State.init ops).count (.cb .fs g i) ≤ 1 ∧
    ∀ (s : State) (op : Op), Event.cb .fs g i ∈ (step s op).2.events → (∃ c, op = .start c) ∧ g = s.next :=
  ⟨count_once (fun _ _ h => (step_fs h).2) (fun _ _ => seg_count_own (fun _ _ h => Or.inl (step_fs h).1)) ops State.init,
   fun _ _ h => step_fs h⟩

/-- Startup callbacks run once per instance: over any history each OnStartup callback of each generation runs at most once,
and only in the operation that creates the generation. -/
theorem C16_startup_once (ops : List Op) (g i : Nat) :
    (trace State.init ops).count (.cb .su g i) ≤ 1 := by
  refine count_once (fun s op h => step_su_sv h (Or.inl ⟨g, i, rfl⟩)) (fun s op => ?_) ops State.init
  by_cases h : Event.cb .su g i ∈ (step s op).2.events
  · rcases step_events_cases h with ⟨c, rfl, _⟩ | ⟨c, o, rest, rfl, _, _⟩ | ⟨rfl, i', _, hl⟩ | ⟨n, rfl, _, i', _, hl | hl⟩
    · exact nodup_count_le (start_pblk s c).nodup _
    · exact nodup_count_le (restart_pblk s c).nodup _
    · exact absurd hl not_stop_cb
    · exact absurd hl (not_mem_cbs_kind (by decide))
    · exact absurd hl (not_mem_cbs_kind (by decide))
  · simp [List.count_eq_zero_of_not_mem h]

/-- … before the instance accepts connections: in the segment of any operation, from any state, every Serve call of a
generation is preceded by both OnStartup callbacks of that generation (and Serve calls of a generation occur only in the
segment of the operation that creates it). -/
theorem C16_startup_before_serve (s : State) (op : Op) (g k : Nat) (pre post : List Event)
    (h : (step s op).2.events = pre ++ .serve g k :: post) :
    .cb .su g 0 ∈ pre ∧ .cb .su g 1 ∈ pre ∧ g = s.next :=
  ⟨(startup_before_serve h).1, (startup_before_serve h).2,
   step_su_sv (by rw [h]; simp) (Or.inr ⟨g, k, rfl⟩)⟩

example : ∃ pre post, (step State.init (.start ⟨[⟨.file, 1, false, false⟩], .none, false, false⟩)).2.events
    = pre ++ .serve 1 0 :: post := ⟨[.cb .fs 1 0, .cb .fs 1 1, .cb .su 1 0, .cb .su 1 1, .listen 1 0], [], by decide⟩

/-- Final-shutdown callbacks run only when the process shuts down: in any state, an operation whose segment contains one
is a shutdown signal. -/
theorem C16_final_shutdown_only_at_exit (s : State) (op : Op) (g i : Nat)
    (h : Event.cb .fd g i ∈ (step s op).2.events) : ∃ n, op = .signal n :=
  step_fd h

/-- Process shutdown runs every live instance's shutdown callbacks exactly once however many signals arrive: over any
history, with any number of signals (each standing for any number of concurrent ones) anywhere in it, no shutdown or
final-shutdown callback is run twice by signals; the first signal runs all of them for every live instance; once the guard
has fired a signal runs nothing. -/
theorem C16_shutdown_once_any_signals (ops : List Op) :
    (∀ e, (signalTrace State.init ops).count e ≤ 1) ∧
    (∀ (s : State) (n : Nat), s.once = false → ∀ i ∈ s.insts,
        cbs .sd i.gen ++ cbs .fd i.gen ⊆ (step s (.signal n)).2.events) ∧
    (∀ (s : State) (n : Nat), s.once = true → (step s (.signal n)).2.events = []) :=
  ⟨signalTrace_count ops State.init Ledger.init rel_init,
   fun _ n ho _ hi => first_signal_runs_all ho n hi,
   fun s n ho => by simp [step, ho]⟩

/-- The wait-group counter of every lineage never goes negative (Go's `WaitGroup` would panic): after any history it is at
least the number of Serve calls that stopping the live instances of the lineage will end. -/
theorem C16_wait_group_never_negative (ops : List Op) (l : Nat) : 0 ≤ (stateAfter State.init ops).wg l :=
  Int.le_trans (liveG_nonneg _ l) (wgCovers_after ops State.init wgCovers_init l)

/-- **The signal handlers** (`sigtrap.go`, `sigtrap_posix.go`; stream `c16.signal` sends real signals to a child process).
After any history without a shutdown signal, for any burst of signals: SIGHUPs are ignored; the first other signal decides —
SIGTERM runs every live instance's OnShutdown then OnFinalShutdown callbacks exactly once and then stops every graceful
server exactly once, SIGINT runs the callbacks only, SIGQUIT runs nothing — and the process exits; the model of the handlers
(`sigRun`) satisfies the law the judge applies to what the child process really did. -/
theorem C16_signal_path_model_ok (ops : List Op) (hns : ∀ op ∈ ops, ∀ n, op ≠ .signal n) (sigs : List Sig) :
    signalPathLaw (stateAfter State.init ops).insts sigs (sigRun (stateAfter State.init ops) sigs).1
      (sigRun (stateAfter State.init ops) sigs).2.isSome = none :=
  sigRun_law (rel_reach ops) (once_false_after ops State.init rfl hns) sigs

/-- the law rejects a SIGTERM that stops the servers before the shutdown callbacks ran -/
example : signalPathLaw [⟨1, 1, ⟨[⟨.file, 1, false, false⟩], .none, false, false⟩⟩] [.term]
    [.stop 1 0, .cb .sd 1 0, .cb .sd 1 1, .cb .fd 1 0, .cb .fd 1 1] true = some "shutdown-once" := by decide

/-- **The shutdown pass covers every instance that is live when it begins.**  The pass cut into its steps (`begin`, one `visit`
per instance) and interleaved in ANY way with changes of the instance list by other goroutines (`mutate f` for an arbitrary
`f`: a reload appending and splicing, a stop splicing — in the code they wait for the mutex; the theorem does not even need
that) and with further `begin`s: once as many visits have happened as instances were live at the beginning, the pass has run
exactly the shutdown and final-shutdown callbacks of those instances, each once, in order — no instance is skipped, none is
visited twice, none that appeared later is visited. -/
theorem C16_shutdown_covers_all_live_instances (live : List Inst) (acts : List PassAct)
    (hv : live.length ≤ visits acts) :
    (passRun { live := live, remaining := none, out := [] } (.begin :: acts)).out = shutdownEvents live := by
  obtain ⟨t', _, h2, h3⟩ := pass_invariant acts { live := live, remaining := some live, out := [] } live rfl
  have ht : t' = [] := List.eq_nil_of_length_eq_zero (by omega)
  subst ht
  simpa [passRun, passStep, shutdownEvents] using h2

/-- three instances, a reload of the first one squeezed in after the first visit: the pass still runs the callbacks of
exactly the three -/
example : visits [.visit, .mutate (fun l => l.drop 1 ++ [⟨9, 1, ⟨[], .none, false, false⟩⟩]), .visit, .begin, .visit] = 3 := by
  decide

/-- … and the atomic shutdown step of the lifecycle model is that pass: the first signal emits `shutdownEvents` of the
instances live at that moment. -/
theorem C16_signal_is_the_pass (s : State) (n : Nat) (h : s.once = false) :
    (step s (.signal n)).2.events = shutdownEvents s.insts := by
  simp [step, h]

end Casket.Props.C16
