import Casket.Proofs.Reload
import Casket.Proofs.ReloadSeq
import Casket.Proofs.ReloadSource
import Casket.Spec.Reload
/-
C07 — Reloading the configuration never drops or misroutes a request.   (PARTIAL)

What is proved here is about the PROTOCOL MODEL of a reload (Model/Reload.lean): `Instance.Restart` cut into its
atomic steps (setup, one listen per server — duplicating the old instance's descriptor or binding anew —, serve,
one stop per old server, return), interleaved in EVERY possible way with client steps (connect, accept, respond)
and with any number of further reloads, valid or failing at setup or at any listen.  A schedule is any list of
actions; a disabled action is a no-op, so the theorems quantify over all interleavings.

The model is tied to the Go code by the stream `c07.handover` (sequential schedules, including a request in
flight across the reload, executed on the real http server on loopback and compared observation by observation
with the same machine run under the corresponding schedule).  Everything below `Accept` — the kernel's accept
queue, net/http, goroutine scheduling — is outside the model; real concurrent schedules are only EXPLORED by the
stream `c07.storm` and judged by `ReloadSpec.stormLaw`.
-/
namespace Casket.Props.C07
open Casket.Reload Casket.ReloadSpec

/-- **Sockets are handed over, never closed.**  If an address is served when the schedule starts and every configuration
that any reload of the schedule loads keeps it, then after the schedule — hence after each of its prefixes, i.e. at every
moment — the socket of the address has an open descriptor, no connection to it was ever refused and none that waited in
its queue was dropped: whatever the interleaving, however many reloads, whichever of them fail and at which step. -/
theorem C07_socket_never_closed (a : Nat) (m : M) (acts : List Act) (hinv : Inv m) (hk : Keeps a m) (hn : NoLoss a m)
    (hacts : ∀ act ∈ acts, keepsAct a act) :
    1 ≤ (run m acts).fds a ∧ NoLoss a (run m acts) :=
  ⟨(keeps_run acts hinv hk hn hacts).2.2, (keeps_run acts hinv hk hn hacts).2.1⟩

/-- the hypotheses hold for a freshly started process serving the address -/
example : Inv (M.init [3] [1, 2]) ∧ Keeps 1 (M.init [3] [1, 2]) ∧ NoLoss 1 (M.init [3] [1, 2]) :=
  ⟨inv_init _ _, by simp [Keeps, M.init], by intro e he; simp [M.init] at he⟩

example : ∀ act ∈ [Act.begin 2 ⟨[1], false⟩, .connect 1, .setup, .listen, .begin 3 ⟨[2, 1], true⟩], keepsAct 1 act := by
  intro act h
  simp only [List.mem_cons, List.not_mem_nil, or_false] at h
  rcases h with rfl | rfl | rfl | rfl | rfl <;> simp [keepsAct]

/-- **Nothing is leaked, in any state of any schedule**: every open descriptor of every socket belongs to a listener of the
current instance or of the instance being started. -/
theorem C07_descriptors_accounted (busy addrs : List Nat) (acts : List Act) (a : Nat) :
    (run (M.init busy addrs) acts).fds a =
      b2n ((run (M.init busy addrs) acts).cur.holds a) + b2n ((run (M.init busy addrs) acts).new.holds a) :=
  (inv_run acts (inv_init busy addrs)).acc a

/-- **Complete configurations only.**  In every state of every schedule, a connection that has been accepted is owned by a
generation whose servers were started — which happens only after its whole setup and all its listens succeeded; the new
instance never accepts before that (`newAcc`). -/
theorem C07_complete_config (busy addrs : List Nat) (acts : List Act) (c : Conn) (g : Nat)
    (hc : c ∈ (run (M.init busy addrs) acts).conns) (ho : c.owner = some g) :
    g ∈ (run (M.init busy addrs) acts).served :=
  (((inv_run acts (inv_init busy addrs)).conns c hc).2 g ho).2

theorem C07_new_accepts_only_after_serve (busy addrs : List Nat) (acts : List Act) (a : Nat)
    (h : (run (M.init busy addrs) acts).new.accepts a = true) :
    serving (run (M.init busy addrs) acts).phase = true :=
  ((inv_run acts (inv_init busy addrs)).newAcc a h).2

/-- **After a reload has returned, the new configuration answers.**  `minGen` of a connection is the generation that was
current when the connection was made, i.e. the one installed by the last reload that had returned.  Whatever happens
afterwards, the connection is never owned by an older generation. -/
theorem C07_after_return_new (busy addrs : List Nat) (acts : List Act) (c : Conn) (g : Nat)
    (hc : c ∈ (run (M.init busy addrs) acts).conns) (ho : c.owner = some g) : c.minGen ≤ g :=
  (((inv_run acts (inv_init busy addrs)).conns c hc).2 g ho).1

/-- **A failed reload keeps the old instance.**  In any reachable state, when the setup of the new configuration fails or a
listen fails (address in use) after some listeners were already duplicated or bound, the current instance is untouched,
the reload is over, and the descriptors are exactly those of the current instance again. -/
theorem C07_failed_keeps_old (busy addrs : List Nat) (acts : List Act) :
    let m := run (M.init busy addrs) acts
    (setupFails m → (step m .setup).cur = m.cur ∧ (step m .setup).phase = .idle ∧ (step m .setup).fds = m.fds) ∧
    (listenFails m → (step m .listen).cur = m.cur ∧ (step m .listen).phase = .idle ∧
        ∀ a, (step m .listen).fds a = b2n (m.cur.holds a)) := by
  intro m
  have hinv : Inv m := inv_run acts (inv_init busy addrs)
  exact ⟨fun hf => ⟨(setup_fail_keeps_old hf).1, (setup_fail_keeps_old hf).2.1, (setup_fail_keeps_old hf).2.2.1⟩,
         fun hf => ⟨(listen_fail_keeps_old hinv hf).1, (listen_fail_keeps_old hinv hf).2.1, (listen_fail_keeps_old hinv hf).2.2.1⟩⟩

/-- a reachable state in which a listen fails after a listener was duplicated -/
example : listenFails (run (M.init [3] [1]) [.begin 2 ⟨[1, 3], false⟩, .setup, .listen]) := by
  refine ⟨3, [], ?_, ?_, ?_, ?_⟩ <;> decide

/-- **Model and judge agree on the sequential hand-over stream.**  For every starting configuration that is valid for the
environment and EVERY sequence of operations of `c07.handover` — plain reloads and reloads with a request in flight, any
configurations (valid, failing at setup or at any listen; addresses kept, added, dropped or reordered) — the observations of
the protocol machine run under the sequential schedules satisfy every law of the judge `ReloadSpec.stepLaw`: valid ⇒ loaded,
the new generation answers, one descriptor, the SAME socket for every kept address; invalid ⇒ nothing changed; the request in
flight is answered completely by the old generation, the connection made while the old instance drains by the new one. -/
theorem C07_model_verdict_ok (busy : List Nat) (c0 : Cfg) (hops : List HOp)
    (hfree : ∀ a ∈ c0.addrs, busy.contains a = false) :
    verdict busy c0 hops (handoverRun busy c0 hops) = "ok" := by
  obtain ⟨h1, h2⟩ := start_ok (busy := busy) (c0 := c0) hfree
  simp only [verdict, handoverRun, h1, runOps_check hops _ _ _ _ h2]

example : ∀ a ∈ (⟨[1, 2], false⟩ : Cfg).addrs, ([3] : List Nat).contains a = false := by decide

/-- **The new configuration is what is written at the time of the reload call.**  Whatever was written — and loaded — before
(`old` is arbitrary), once configuration `c` has been written with marker `g`, in ANY spelling (inline, sites in imported files
that are rewritten, a glob import, a snippet, one block for all addresses, another layout), a load yields exactly the meaning
`c`, and every site answers with marker `g`.  `load` has no argument through which an earlier load could influence it. -/
theorem C07_load_reads_what_is_written (old : Source) (sp : Spelling) (c : Cfg) (g : Nat) (h : c.addrs ≠ []) :
    load (write old sp c g) = c ∧ ∀ k ∈ markers (write old sp c g), k = g :=
  ⟨load_write old sp c g h, markers_write old sp c g⟩

example : (⟨[1, 2], true⟩ : Cfg).addrs ≠ [] := by decide

/-- a source that held generation 1 of address 1 and is rewritten for generation 2 loads as generation 2 -/
example : markers (write (write [] .imported ⟨[1], false⟩ 1) .imported ⟨[1], false⟩ 2) = [2] := by decide

/-- **Every spelling of the same meaning gives the same answers.**  Two hand-over cases whose operations have the same
meanings (same kind of operation, same configuration), written in whatever spellings, have the same observations. -/
theorem C07_spelling_irrelevant (busy : List Nat) (c0 : Cfg) (sp0 sp0' : Spelling) (ws ws' : List WOp)
    (h0 : c0.addrs ≠ []) (h : ∀ w ∈ ws, w.cfg.addrs ≠ []) (h' : ∀ w ∈ ws', w.cfg.addrs ≠ [])
    (hm : ws.map WOp.meaning = ws'.map WOp.meaning) :
    handoverRunW busy c0 sp0 ws = handoverRunW busy c0 sp0' ws' := by
  rw [handoverRunW_meaning busy c0 sp0 ws h0 h, handoverRunW_meaning busy c0 sp0' ws' h0 h', hm]

example : [(⟨.reload, ⟨[1, 2], false⟩, .imported⟩ : WOp)].map WOp.meaning = [(⟨.reload, ⟨[1, 2], false⟩, .glob⟩ : WOp)].map WOp.meaning := by
  decide

/-- **Model and judge agree on the hand-over stream, in every spelling.**  The judge is applied to the MEANINGS of the
operations; the model writes every configuration in its spelling, loads what is written at the call, and runs the protocol
machine on that.  For every valid start and every sequence of written operations the observations satisfy the judge. -/
theorem C07_written_model_verdict_ok (busy : List Nat) (c0 : Cfg) (sp0 : Spelling) (ws : List WOp)
    (hfree : ∀ a ∈ c0.addrs, busy.contains a = false) (h0 : c0.addrs ≠ []) (h : ∀ w ∈ ws, w.cfg.addrs ≠ []) :
    verdict busy c0 (ws.map WOp.meaning) (handoverRunW busy c0 sp0 ws) = "ok" := by
  rw [handoverRunW_meaning busy c0 sp0 ws h0 h]
  exact C07_model_verdict_ok busy c0 _ hfree

example : ∀ w ∈ [(⟨.straddle, ⟨[2, 1], true⟩, .shared⟩ : WOp), ⟨.reload, ⟨[1], false⟩, .importedKeepTime⟩], w.cfg.addrs ≠ [] := by
  decide

/-- **Hand-over is per address (and per kind of socket).**  A listen step that succeeds concerns one socket `x` — the TCP
listener (`2a`) or the packet conn (`2a+1`) of one address: the new server for `x` gets a descriptor of the socket of `x`
(when the old instance holds one, the very same socket) or opens its own; the descriptors, the socket identity and the
ownership of every OTHER socket are untouched, and so is the old instance.  Together with `C07_descriptors_accounted` (every
descriptor of socket `x` belongs to the listener for `x` of the current or of the starting instance, in every state of every
schedule): nothing is ever handed over across addresses or kinds. -/
theorem C07_handover_per_address (m : M) (x : Nat) (todo : List Nat) (hp : m.phase = .listening (x :: todo))
    (hok : (step m .listen).phase = .listening todo) :
    (∀ y, y ≠ x → (step m .listen).fds y = m.fds y ∧ (step m .listen).sock y = m.sock y ∧
        (step m .listen).new.holds y = m.new.holds y) ∧
    (step m .listen).new.holds x = true ∧ (step m .listen).cur = m.cur ∧
    (m.cur.holds x = true → (step m .listen).sock x = m.sock x) :=
  listen_per_address hp hok

/-- a state in which a listen step takes over the old TCP listener of address 1 while a packet conn of address 2 is next -/
example : (step (run (M.init [] [2, 5]) [.begin 2 ⟨[2, 5], false⟩, .setup]) .listen).phase = .listening [5] := by decide

/-- **Model and judge agree on the mixed stream** (`c07.mixed`: servers with a TCP listener only, a packet conn only, or
both, in any order): for every start valid for the environment and EVERY sequence of reloads, every observed socket has exactly
one descriptor and is answered by the new generation when the new configuration names it, is closed otherwise, and nothing
changes when the reload fails. -/
theorem C07_mixed_model_verdict_ok (busy codes : List Nat) (c0 : Cfg) (cs : List Cfg)
    (hfree : ∀ a ∈ c0.addrs, busy.contains a = false) :
    mixedVerdict busy codes c0 cs (mixedRun busy codes c0 cs) = "ok" :=
  mixed_verdict cs hfree

/-- the mixed judge rejects a socket answered by the server of another address -/
example : mixedStepLaw [18, 19] [2, 5] [(1, "1"), (1, "1")] (mixedCfg [⟨.t, 1⟩, ⟨.u, 2⟩] false) 2
    { res := "ok", cells := [(2, "2:1+2:2"), (1, "2")], mis := true } = some "misrouted" := by decide

/-! ### the judges are not vacuous (tests of the executable predicates on hand-made observations) -/

/-- a reload that closes and rebinds the socket is rejected, -/
example : stepLaw [3] { gen := 1, addrs := [1], prev := ⟨"ok", 1, 0, 1, 0, "1", "-", 1, none, none⟩, next := 2 }
    (.reload ⟨[1], false⟩) ⟨"ok", 1, 0, 2, 0, "2", "-", 1, none, none⟩ = some "socket-rebound" := by decide

/-- so is an old configuration answering after the reload returned, -/
example : stepLaw [3] { gen := 1, addrs := [1], prev := ⟨"ok", 1, 0, 1, 0, "1", "-", 1, none, none⟩, next := 2 }
    (.reload ⟨[1], false⟩) ⟨"ok", 1, 0, 1, 0, "1", "-", 1, none, none⟩ = some "after-return-not-new" := by decide

/-- in particular when the reload was built from the OLD text of an imported file that had been rewritten (spelling is not
part of the judge: the same observation is rejected however the configuration was written), -/
example : verdict [3] ⟨[1], false⟩ ([(⟨.reload, ⟨[1], false⟩, .imported⟩ : WOp)].map WOp.meaning)
    [⟨"ok", 1, 0, 1, 0, "1", "-", 1, none, none⟩, ⟨"ok", 1, 0, 1, 0, "1", "-", 1, none, none⟩] = "bad:after-return-not-new:op 1" := by
  decide

/-- a request in flight that is cut off, -/
example : stepLaw [3] { gen := 1, addrs := [1], prev := ⟨"ok", 1, 0, 1, 0, "1", "-", 1, none, none⟩, next := 2 }
    (.straddle ⟨[1], false⟩) ⟨"ok", 1, 0, 1, 0, "2", "-", 1, some "2", some "e:reset"⟩ = some "request-in-flight-dropped" := by
  decide

/-- a failed reload that leaves a descriptor behind, -/
example : stepLaw [3] { gen := 1, addrs := [1], prev := ⟨"ok", 1, 0, 1, 0, "1", "-", 1, none, none⟩, next := 2 }
    (.reload ⟨[1, 3], false⟩) ⟨"err", 2, 0, 1, 0, "1", "-", 1, none, none⟩ = some "failed-reload-changed-sockets" := by decide

/-- a reload reported as failed, with the old instance still in the instance list and its second server still accepting,
because the drain of the first one timed out, -/
example : stepLaw [3] { gen := 1, addrs := [1, 2], prev := ⟨"ok", 1, 1, 1, 2, "1", "1", 1, none, none⟩, next := 2 }
    (.longflight ⟨[1, 2], false⟩) ⟨"err", 1, 2, 1, 2, "2", "1", 2, none, some "1"⟩ = some "instance-list" := by decide

/-- and, in a storm, a dropped request or one answered by the old configuration after the reload had returned. -/
example : stormVerdict [⟨1, 2, 2, true⟩] [⟨3, 4, some 2⟩, ⟨5, 6, none⟩] = "bad:request-dropped:" := by decide
example : stormVerdict [⟨1, 2, 2, true⟩] [⟨3, 4, some 1⟩] = "bad:answered-by-old-config-after-reload-returned:" := by decide
example : stormVerdict [⟨1, 5, 2, true⟩] [⟨3, 4, some 1⟩, ⟨2, 6, some 2⟩, ⟨7, 8, some 2⟩] = "ok" := by decide

end Casket.Props.C07
